#!/bin/sh
# usage: allcheck.sh [quick|thorough|both]   — runs every registered check on /repo as it stands; prints one line each.
tier=${1:-both}
ids=$(python3 -c "
import json;print(' '.join(c['property_id'] for c in json.load(open('/verif/MANIFEST.json'))['checks']))")
bad=0
for t in quick thorough; do
  [ "$tier" = both ] || [ "$tier" = $t ] || continue
  for p in $ids; do
    out=$(sh /verif/run.sh $p $t 2>&1); rc=$?
    echo "$out" | tail -1 | sed "s/^/rc=$rc /"
    [ $rc -ne 0 ] && bad=1
  done
done
exit $bad
