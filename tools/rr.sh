#!/bin/sh
# dev helper: run rules and print a readable summary. usage: rr.sh R-X[,R-Y] [repo]
[ -n "$2" ] && export LUAVERIF_REPO="$2"
/verif/bin/luaverif rules "$1" | python3 -c "
import json,sys
for r in json.load(sys.stdin):
    print('==', r['rule'], r['analysed'], 'obl', r['obligations'], 'ok', r['discharged'])
    for b in r.get('broken') or []: print('BROKEN', b[:3000])
    for f in r.get('findings') or []:
        print('F', f['key'], '@', f['pos']); print('    ', f['msg'][:400])
        for h in (f.get('path') or [])[:12]: print('       ', h)
    for n in r.get('notes') or []: print('N', n[:300])
    for s in (r.get('samples') or [])[:int('${SAMPLES:-0}')]: print('S', s[:300])
"
