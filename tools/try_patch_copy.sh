#!/bin/sh
# usage: try_patch_copy.sh <patch.diff> <Cxx>
# Applies a patch to a scratch COPY of /repo (never to /repo itself), runs the rules of the property
# against the copy (LUAVERIF_REPO) and prints the findings that are not listed as known. The copy is
# removed afterwards. Development aid (unlike try_seed.sh it can run while a check is running).
patch="$1"; prop="$2"
d=$(mktemp -d /tmp/luaverif-copy-XXXXXX)
trap 'rm -rf "$d"' EXIT
rsync -a --exclude .git /repo/ "$d/" || exit 2
(cd "$d" && patch -p1 -s < "$patch") || { echo "PATCH DOES NOT APPLY"; exit 3; }
rules=$(/verif/bin/luaverif list | grep "^$prop " | awk '{print $2}')
LUAVERIF_REPO="$d" /verif/bin/luaverif rules "$rules" 2>/dev/null | python3 -c "
import json,sys
known=set()
for l in open('/verif/known-findings.txt'):
    if l.startswith('known:') and 'key=' in l: known.add(l.split('key=')[1].split(' ::')[0].strip())
n=0
for r in json.load(sys.stdin):
    for f in r.get('findings') or []:
        if f['key'] not in known:
            n+=1; print('FINDING', f['key'], f.get('pos',''))
    for b in r.get('broken') or []: print('BROKEN', r['rule'], b)
print('CAUGHT' if n else 'missed')
"
