#!/usr/bin/env python3
"""Regenerates /verif/MANIFEST.json from the tables below (kept next to the checker so the two stay in step)."""
import json, subprocess

NA_VALUE = {
 "C02": "value-level over 2^64 x 2^64 operand pairs (wrap-around, floor division, exact mixed comparison, numeral decoding): the defects live at single points of the operand space, not in the shape of the code; a sound static argument would be an abstract-interpretation/solver proof, which is a different family. The only structural clause (numeric dispatch covers int/float) is checked under C01. (DESIGN.md section 6)",
 "C19": "laws about results for every argument tuple (position normalisation, overflow corners, sort being a permutation): value-level throughout; its crash-related structural corners (argument indexing, clamping of normalised positions) are decided under C04 by R-ARITY and R-POS. (DESIGN.md section 6)",
}
NOT_BUILT = "rules designed (DESIGN.md sections 3-4) but not built yet; not claimed until every rule named for it exists and passes both ways"

# property -> (technique, level text, level note, design ref)
CLAIMED = {
 "C02": ("same-name agreement of the operator tables along the pipeline (ops.Op -> code operator -> interpreter case -> runtime function -> metamethod name; string-arithmetic metamethods) read from SSA; arm-by-arm comparison of the type-dispatched arithmetic and comparison functions with a reference table (operand kinds, parameter order, result constructor, Go operator or helper); must-edge proofs that every integer divisor is excluded from zero",
         "Pairing and shape only: each operator reaches the runtime function and the metamethod name of that operator; the six arithmetic functions and the three numeric comparisons have, per pair of operand kinds, the result kind and the Go operator or exact helper of the manual's table (integers stay int64 and wrap, any float makes a float, / is a float quotient, mixed comparisons go through the exact helpers); integer division by zero is an error path, not a Go panic. The values computed inside the helpers (floor division and modulo signs, exact mixed comparison, conversions, numerals, the math library) are value-level and not decided.",
         "Trusted: go/ssa; frozen operator tables. Not decided: every numeric result (wrap-around, floor division, mixed comparison, conversions, numerals, math library).",
         "DESIGN.md 10.2 (C02), 6"),
 "C19": ("the crash-and-runaway rules of C04/C05 restricted to findings located in lib/stringlib, lib/tablelib and luastrings: argument arity (dataflow over GoCont accessors), relative-bound proofs for normalised positions, sign and absolute-bound proofs for computed sizes, loop classification (metered / bounded / table-listed); who-may-call scan for Unicode-aware operations on byte strings; def-use check that a position found in a reslice is re-based",
         "Only the 'never crashes, never runs away' corners of the string and table functions for extreme positions, counts and ranges. Two structural conditions on what they compute: no function decodes a Lua string as UTF-8, and a position found in x[lo:] has lo added back. What the functions compute otherwise (the sequence and byte-string laws) is value-level and not decided.",
         "Trusted: as for C04 and C05. Not decided: results of sub/byte/rep/find/insert/remove/move/concat/unpack/sort for every argument tuple.",
         "DESIGN.md 10.2 (C19), 10.3 (R-BYTES, R-REBASE), 6"),
 "C15": ("switch exhaustiveness against the constants the pattern compiler emits; panic-instruction and dropped-error scan over the call closure of pattern.New; must-pass-through reachability on the CFG of find/match/gmatch/gsub (successful return only behind pattern.New, exemptions by branch-condition class); budget plumbing and cursor-writer sub-rules of the metering analysis; scan for inclusive loops over counters of 8-32 bits whose bound can be the type's maximum (wrap-around, an unmetered hang)",
         "Structural part only: item-type exhaustiveness, no panic and no dropped error in the pattern compiler, no unlisted shortcut around the compiler, matcher budget fed from and charged to the quota. The match semantics (pattern x subject) are value-level and not decided.",
         "Trusted: go/ssa; exemption table confirmed against the manual. Not decided: what the matcher returns.",
         "DESIGN.md 3 (R-SIBLING pattern part, R-METER c), 4 (C15)"),
 "C17": ("sibling cross-check on SSA: per-option summaries (alignment, size, default size, wire type) of the three format-interpreting switches and error sets of the three align methods; who-may-call over static callees of the %q renderer (no Go-syntax quoting function)",
         "Sibling agreement only: pack, unpack and packsize accept the same options with the same alignment, size and wire type, and reject the same alignments. Round-trip equality and number formatting are value-level and not decided; for %q only that its renderer cannot reach a Go-syntax quoting function (whose escapes the Lua scanner rejects).",
         "Trusted: go/ssa. Not decided: variable-width integer encoding, the bytes the hand-written %q quoter emits, tostring/tonumber, printf compatibility.",
         "DESIGN.md 3 (R-SIBLING pack part), 4 (C17), 10.3 (R-QUOTE)"),
 "C13": ("writer/reader schema extraction on SSA (ordered wire-item sequences with Go types from the variadic write/read calls and element loops), struct-field coverage from go/types, tag-set agreement of the two type switches, call-graph reachability from string.dump to map iterations",
         "Structural necessary conditions of the dump/load round trip: the reader takes the fields off the wire in the order and with the types the writer put them there, no field of the prototype is left out, both sides know the same constant tags and prefix, and no map iteration can make two dumps differ. Observational equivalence of the reloaded function is not decided.",
         "Trusted: go/ssa, encoding/binary symmetry. Not decided: constant re-indexing, closure reconstruction, behaviour of the reloaded function.",
         "DESIGN.md 3 (R-SIBLING serialisation part), 4 (C13)"),
 "C01": ("symbolic bit-vector evaluation of the opcode constructors and decoders; table/switch exhaustiveness and same-name agreement between token, operator, opcode and runtime-function tables read from the SSA of the package initialisers and the interpreter loop; implementer sets from go/types; must-pass-through checks for scope-exit clears; def-use provenance of private registers",
         "Structural agreements between the stages of the compile pipeline (encoder/decoder bit layout, operator tables, dispatch exhaustiveness, nil-continuation returns, scope-exit clears, private registers): each is a necessary condition — breaking one miscompiles some program. Agreement of the implemented semantics with the manual over all programs is not decided.",
         "Trusted: go/ssa, frozen operator tables confirmed by reading. Not decided: behavioural equivalence with the manual (values, evaluation order, call protocol, register allocation in general, jump resolution).",
         "DESIGN.md 3 (R-SIBLING, R-SCOPE, R-NILNIL), 4 (C01)"),
 "C12": ("comparison of the scanner/parser/operator tables (read from package-initialiser SSA and declared constants) with reference tables transcribed from the manual; comparison-shape analysis of the precedence-climbing loop; must-edge length proofs for literal indexing; nearest-failed-type-test analysis of syntax-error sites; constant-argument check of the decimal numeral conversion; who-may-call scan of the literal decoders for Go's sanitising UTF-8 encoders",
         "Table-shaped and shape-visible part of the front end: reserved words, symbols, token-to-operator maps, all 300 pairwise precedences, the two right-associative exceptions, in-range literal indexing, and error sites blaming the token just examined. Acceptance of the whole grammar and literal denotations are not decided.",
         "Trusted: go/ssa; reference tables transcribed from the manual §3.1, §3.4.8. Not decided: grammar acceptance, numeral and escape denotation, spelling invariance.",
         "DESIGN.md 3 (R-SIBLING precedence part, R-LITERAL, R-BLAME), 4 (C12)"),
 "C20": ("who-may-write analysis of package-level variables on SSA: direct stores, stores through global-rooted address chains, interprocedural mod-ref summaries ('writes through parameter p') to a fixpoint, frozen list of process-wide standard-library calls",
         "Structural content of runtime isolation: any run-time write to package-level state (directly, through a pointer held in it, or by a callee) is shared between runtimes and is reported; so are calls into process-wide standard-library state. Behavioural equality of interleaved runs is not decided.",
         "Trusted: go/ssa, static-call mod-ref summaries. Not decided: races on state reachable only through a shared *Runtime; behavioural equality.",
         "DESIGN.md 3 (R-GLOBALS), 4 (C20)"),
 "C11": ("error-result def-use (never discarded), dominance of the program-counter store over every error return of the interpreter loop, recover-frame inventory, pool-release path conditions",
         "Structural necessary conditions for errors reaching the nearest protected call with position intact: breaking one drops an error, misattributes its line, lets a frame other than the inventoried ones stop it, or recycles a continuation still needed by error handling.",
         "Trusted: go/ssa. Not decided: value identity on all paths, message text, state consistency after a caught error.",
         "DESIGN.md 3 (R-ERRFLOW), 4 (C11)"),
 "C14": ("type-checking the repository under all seven build configurations; SSA shape checks of the noquotas manager (no calls/stores in metering methods); owner/deferred/error-path/use-after-release analysis of pool releases; sibling agreement of the two finaliser pools; constructor/destructor pairing",
         "Structural necessary conditions: the variants compile against the same API, the no-quota variant only removes accounting, pooled objects cannot be observed after release nor released while still referenced, sibling pools agree on marking. Behavioural equality over all programs is not decided.",
         "Trusted: go/types under each configuration, go/ssa. Not decided: cross-build behavioural equality.",
         "DESIGN.md 3 (R-POOL, R-SIBLING build-tag part), 4 (C14)"),
 "C10": ("must-pass-through checks on the SSA CFG of the scope-exit functions, def-use checks of truncation targets, who-may-write on the compile-time height, call-site presence and guard-predicate agreement between the push and close sites",
         "Completeness of the to-be-closed plumbing: each check is a necessary condition (a scope exit without truncation, a wrong truncation target, a second writer of the height, a missing cleanup site, or a predicate mismatch each change which handlers run). Exactly-once/order over all nestings is not decided.",
         "Trusted: go/ssa. Not decided: exactly-once and reverse order over all nestings; the error argument.",
         "DESIGN.md 3 (R-CLOSE), 4 (C10)"),
 "C16": ("def-use provenance of held registers (must come from GetFreeRegister), ordering checks in the loop compiler, dependency-presence of limit and overflow comparisons for every store to the hidden counter, error-exit presence in the prepare branch",
         "Structural part only: control expressions held privately, fresh loop variable per iteration, error exits, presence of both comparisons on every counter update. The arithmetic progression itself is value-level and not decided.",
         "Trusted: go/ssa. Not decided: correctness of the comparisons, float-limit clipping, iteration counts.",
         "DESIGN.md 3 (R-FOR), 4 (C16)"),
 "C07": ("def-use dependency slices on SSA (what the stored limits depend on), pruned-CFG reachability for 'refresh on every path when time is tracked', who-may-write table for the status field, after-call effect analysis in CallContext, monotone-flag check, push/pop bracket enumeration with VTA call-graph reachability from the bracketed calls to the coroutine hand-off (context stack held across a yield)",
         "Dependency-presence and ownership conditions: breaking any one lets a child context exceed what its parent has left, keeps consumption from being charged back, or lets Lua run with limits switched off / a wrong status be reported. The numeric limit algebra is not decided.",
         "Trusted: go/ssa def-use. Not decided: uint64 limit arithmetic with 0 = unlimited.",
         "DESIGN.md 3 (R-CONTEXT), 4 (C07), 10.2-10.3 (R-CTXSTACK)"),
 "C03": ("def-use and must-edge path facts on SSA for key normalisation across five sibling functions; type-switch agreement between Equals and Hash; who-may-write on slot keys; store-ordering check in the insertion routine; CFG ordering of raw access vs metamethod lookup",
         "Structural necessary conditions of map behaviour with normalised keys: each is such that breaking it makes some key unreachable, some equal pair address two fields, or a metamethod see a present key. The chain invariants and traversal laws over histories are not decided.",
         "Trusted: go/ssa. Not decided: chain invariants I1-I3, border validity, traversal over all histories, numeric equality corners.",
         "DESIGN.md 3 (R-TABLEKEY), 4 (C03)"),
 "C09": ("typestate/lockset dataflow on the SSA CFG (must-held mutexes), after-hand-off effect analysis, who-may-write tables for thread status, call-graph reachability to Lua execution under a held mutex, def-use checks of the termination forwarding chain",
         "Structural preconditions of the coroutine protocol: nothing touches shared state after a hand-off; thread state is written under its mutex and each status by its owner; lock order receiver-then-caller; no Lua under a thread mutex; one go statement whose goroutine always ends through t.end; terminations are forwarded to the resumer. Each is necessary: breaking one is a race, a deadlock, a leaked goroutine or a swallowed kill.",
         "Trusted: go/ssa CFG, VTA reachability. Not decided: value transfer, full status table, deadlock/race freedom under all schedules.",
         "DESIGN.md 3 (R-HANDOFF/LOCKSET/GO), 4 (C09)"),
 "C18": ("dominance/ordering checks and def-use on SSA for the finalise/release call pairs, must-edge guard checks in the finaliser pool, lockset dataflow on the pool's mutex",
         "Structural necessary conditions of 'exactly once, finalisers before releases, releases even when killed': ordering of the two extractions at the three sites, releases unconditional and actually passed to releaseResources, CallContext finalises before popping, pool entries handed out only once (flag test + mark), pool lists only under the mutex.",
         "Trusted: go/ssa. Not decided: histories involving Go's collector, reverse-order values, reachability of finalised values.",
         "DESIGN.md 3 (R-LOCKSET), 4 (C18)"),
 "C06": ("SSA backward slicing of allocation sizes to their leaves with dominating-charge and must-edge guard checks; path-sensitive value-numbered release/acquire balance with deferred calls replayed; constructor/destructor pairing by size, count field and guarding flags; who-may-call rule",
         "Structural necessary conditions: computed-size allocations and fresh program-sized strings are charged first or bounded by held memory; no path releases an amount more often than it acquired it; destructors mirror constructors; table growth is charged. Each violation lets a program hold uncharged memory or crash/underflow the counter.",
         "Trusted: go/ssa, dominators, tables confirmed by reading. Not decided: monotonicity in M, the heap-to-M constant, hidden stdlib allocations, over-accounting.",
         "DESIGN.md 3 (R-ALLOC, R-NEWSTR, R-RELEASE), 4 (C06)"),
 "C05": ("loop classification on the SSA CFG (metering-call-on-every-cycle via must-call summaries, induction/limit analysis), SCCs of the call graph minus metering functions, typed recover inventory with reachability to TerminateContext, def-use checks of the forwarding chain",
         "Structural necessary conditions: every loop and call cycle reachable from cpu-limited code is metered, bounded by held memory/constants, pre-charged or table-listed; named dispatch points charge first; budgets are plumbed to the quota; termination cannot be kept by any recover frame other than the designated owners, and is forwarded out of coroutines. Breaking any of these makes some operation unmetered or lets Lua code survive a kill.",
         "Trusted: go/ssa CFGs, VTA call graph, the loop/recursion tables (reasons confirmed by reading). Not decided: exact deterministic counts, 'killed exactly for L <= u', wall-clock bounds.",
         "DESIGN.md 3 (R-METER, R-KILL), 4 (C05)"),
 "C04": ("SSA dataflow + dominator/must-edge guard proofs (argument arity, string positions, divisors, narrowing, allocation sizes), typed panic/recover reachability and SCC analysis over the VTA call graph",
         "Structural necessary conditions, each flagging a construct that is a Go panic or fatal error for some input: argument reads within declared arity; normalised positions proved in range at every use; guarded integer divisors; every explicit panic below a recover of its type or table-listed as internal; range-checked narrowing in the code generator; no unguarded recursion reachable from the API; computed-size allocations bounded, charged, and (for decoded lengths) compared with the input left. This is the property the family fits best: each clause is visible in the shape of the code on every path.",
         "Trusted: go/types, go/ssa, VTA+CHA over-approximation with callback filtering; tables confirmed by reading (preconditions re-verified each run). Not decided: absence of all Go run-time errors (nil deref, arbitrary indexing); behaviour of the VM on forged bytecode that decodes; OOM from legitimately huge sizes without limits.",
         "DESIGN.md 3 (R-ARITY..R-ALLOC), 4 (C04)"),
 "C08": ("call-graph reachability (VTA) from iosafe-declared registrations to a frozen sink list + dominator checks on the flag gate and the safeio gates + who-may-call/who-may-write rules on SSA",
         "Structural necessary conditions decided on all call paths of the source: every Lua-callable Go function is known with its declared flags; the only dispatch through GoFunction.f is dominated by the flag check; flag words are only or-ed; safeio gates test the flag before their sink; nobody else calls a sink; no iosafe-declared function reaches a sink. An over-approximate call graph decides 'for all call paths' soundly, which is the quantifier of this property.",
         "Trusted: go/types, go/ssa, VTA+CHA as over-approximation (no cgo/asm; reflect only in lib/golib which declares no flags); the frozen sink list enumerates the stdlib entry points for the listed effects. Not decided: OS behaviour, effects through handles opened before entering the context.",
         "DESIGN.md 3 (R-IOSAFE, R-GATE), 4 (C08)"),
}

def main():
    props = [json.loads(l) for l in open('/verif/properties.jsonl')]
    checks, na = [], []
    for p in props:
        pid = p['id']
        if pid in CLAIMED:
            tech, text, note, ref = CLAIMED[pid]
            checks.append({
                "property_id": pid,
                "quick_cmd": "sh /verif/run.sh %s quick" % pid,
                "thorough_cmd": "sh /verif/run.sh %s thorough" % pid,
                "evidence_file": "/verif/evidence/%s.json" % pid,
                "replay_cmd_template": "sh /verif/run.sh %s quick   # static: re-analyses /repo; the finding recorded in {path} is re-reported if it still holds" % pid,
                "engine": "luaverif",
                "level_claimed": {"category": "other", "text": text, "design_ref": ref},
                "level_note": note,
                "technique": "static analysis: " + tech,
            })
        elif pid in NA_VALUE:
            na.append({"property_id": pid, "reason": NA_VALUE[pid]})
        else:
            na.append({"property_id": pid, "reason": NOT_BUILT})
    m = {
     "version": 1,
     "setup_cmd": "sh /verif/setup.sh",
     "hooks": {
      "guard": "verif",
      "enable": "no hooks: every check is static (go/packages + go/ssa over /repo's working tree); nothing in /repo is built or run with a tag",
      "baseline_off_cmd": "cd /repo && GOFLAGS=-mod=mod GOPROXY=off GOSUMDB=off GOTOOLCHAIN=local go test -vet=off -count=1 -timeout 25m ./...",
      "source_commits": [],
      "add_only": True
     },
     "engines": [{"name": "luaverif", "path": "/verif/checker", "serves_properties": sorted(CLAIMED),
                  "kind_free_text": "repository-specific static analyser (go/packages, go/ssa, VTA call graph, dominators, def-use slices) built from /verif/checker; never executes golua code"}],
     "checks": checks,
     "notes": "Static analysis only (DESIGN.md). Every check re-loads /repo's working tree with go/packages on each run. Known findings: /verif/known-findings.txt. Seeded regressions used to test the checks: /verif/seeded/.",
     "not_applicable": na,
    }
    json.dump(m, open('/verif/MANIFEST.json', 'w'), indent=1)
    print("claimed:", sorted(CLAIMED), "n/a:", [x['property_id'] for x in na])

main()
