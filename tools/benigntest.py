#!/usr/bin/env python3
"""Checker self-test, the other way round: behaviour-preserving edits of /repo must raise no alarm.

usage: benigntest.py [name-substring ...]
For each entry of /verif/selftest/benign.json: copy /repo to a scratch directory under /tmp, apply the edits,
make sure it compiles, run EVERY rule against the copy and require no finding that the clean tree does not
have and no CHECK-BROKEN. The scratch copy is removed. Tests the checker, not golua.
"""
import json, os, shutil, subprocess, sys, tempfile
ENV = dict(os.environ, GOFLAGS="-mod=mod", GOPROXY="off", GOSUMDB="off", GOTOOLCHAIN="local")
ENV.pop("GOWORK", None)
RULES = None

def all_rules():
    out = subprocess.run(['/verif/bin/luaverif', 'list'], capture_output=True, text=True, env=ENV).stdout
    rs = set()
    for l in out.splitlines():
        parts = l.split()
        if len(parts) == 2:
            rs.update(parts[1].split(','))
    return ','.join(sorted(rs))

def run_rules(repo):
    e = dict(ENV, LUAVERIF_REPO=repo)
    out = subprocess.run(['/verif/bin/luaverif', 'rules', RULES], env=e, capture_output=True, text=True)
    rs = json.loads(out.stdout)
    keys = set(f['key'] for r in rs for f in (r.get('findings') or []))
    broken = [r['rule'] + ': ' + b for r in rs for b in (r.get('broken') or [])]
    return keys, broken

def main():
    global RULES
    RULES = all_rules()
    base_keys, base_broken = run_rules('/repo')
    if base_broken:
        print('clean tree is broken:', base_broken[:3]); sys.exit(2)
    sel = sys.argv[1:]
    bad = 0
    for m in json.load(open('/verif/selftest/benign.json')):
        if sel and not any(s in m['name'] for s in sel):
            continue
        d = tempfile.mkdtemp(prefix='luaverif-benign-', dir='/tmp')
        try:
            subprocess.run("rsync -a --exclude .git /repo/ %s/" % d, shell=True)
            stale = None
            for e in m['edits']:
                p = os.path.join(d, e['file']); s = open(p).read()
                if s.count(e['old']) != 1:
                    stale = 'old text occurs %d times in %s' % (s.count(e['old']), e['file']); break
                open(p, 'w').write(s.replace(e['old'], e['new']))
            if stale:
                print("%-36s STALE   %s" % (m['name'], stale)); bad += 1; continue
            b = subprocess.run("cd %s && go vet ./... 2>&1 | grep -v '^#' | head -5" % d, shell=True, env=ENV, capture_output=True, text=True)
            if '.go:' in b.stdout:
                print("%-36s NOCOMPILE %s" % (m['name'], b.stdout.strip()[:300])); bad += 1; continue
            keys, broken = run_rules(d)
            new = sorted(keys - base_keys)
            if new or broken:
                print("%-36s ALARM   %s %s" % (m['name'], new[:4], broken[:2])); bad += 1
            else:
                print("%-36s silent" % m['name'])
        finally:
            shutil.rmtree(d, ignore_errors=True)
    sys.exit(1 if bad else 0)
main()
