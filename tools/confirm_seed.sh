#!/bin/bash
# usage: confirm_seed.sh <seed-dir> <kind: lua|gotest> <demo file (relative to seed-dir/demo)> [pkgdir for gotest | extra golua flags for lua]
# Confirms a seeded regression in a scratch worktree of /repo (HEAD): the patch applies, builds, the
# existing tests give the same result as on the clean tree, and the demo passes clean / fails patched.
# Writes a JSON summary on stdout. The scratch worktree is removed at the end.
set -u
export GOFLAGS=-mod=mod GOPROXY=off GOSUMDB=off GOTOOLCHAIN=local
seed="$1"; kind="$2"; demo="$3"; extra="${4:-}"
name=$(echo "$seed" | sed 's|/tmp/seed2/||; s|/tmp/seed/||; s|/||g')
wt=/tmp/wt/confirm-$name
log=/tmp/confirm/$name.log
: > $log
git -C /repo worktree remove --force $wt >/dev/null 2>&1
git -C /repo worktree add -q --detach $wt HEAD || { echo "{\"seed\":\"$name\",\"error\":\"worktree\"}"; exit 1; }
cd $wt
run_demo() { # $1 = tag
  if [ "$kind" = lua ]; then
    go build ${SEED_TAGS:+-tags $SEED_TAGS} -ldflags=-checklinkname=0 -o /tmp/confirm/golua-$name-$1 . >>$log 2>&1 || return 99
    ( cd "$seed/demo" && timeout 180 /tmp/confirm/golua-$name-$1 $extra "$demo" ) > /tmp/confirm/$name-$1.out 2>&1
    echo $?
  else
    cp "$seed/demo/$demo" "$wt/$extra/" || return 98
    tn=$(grep -o 'func Test[A-Za-z0-9_]*' "$seed/demo/$demo" | head -1 | sed 's/func //')
    timeout 600 go test ${SEED_TAGS:+-tags $SEED_TAGS} -ldflags=-checklinkname=0 -vet=off -count=1 -run "^$tn\$" ./$extra/ > /tmp/confirm/$name-$1.out 2>&1
    rc=$?
    rm -f "$wt/$extra/$demo"
    echo $rc
  fi
}
clean_rc=$(run_demo clean)
applies=yes
git apply "$seed/patch.diff" >>$log 2>&1 || applies=no
patched_rc=NA; build=NA; base_same=NA; ext_fail=NA
if [ $applies = yes ]; then
  if go build -ldflags=-checklinkname=0 ./... >>$log 2>&1 && go vet ./... >/dev/null 2>>$log; then build=ok; else build=$(go build -ldflags=-checklinkname=0 ./... 2>&1 | head -3 | tr '\n' ' '); [ -z "$build" ] && build=ok; fi
  patched_rc=$(run_demo patched)
  # baseline (what the harness runs): compare the set of passing packages with the clean tree's
  go test -vet=off -count=1 ./... 2>&1 | grep -E '^(ok|FAIL|---)' | sed 's/\t[0-9.]*s$//' | sort > /tmp/confirm/$name-base.txt
  # extended suite (links runtime/lib): only the known tablelib failure is allowed
  go test -ldflags=-checklinkname=0 -vet=off -count=1 ./... > /tmp/confirm/$name-ext.txt 2>&1
  ext_fail=$(grep -E '^FAIL[[:space:]]+github' /tmp/confirm/$name-ext.txt | grep -v 'lib/tablelib' | awk '{print $2}' | tr '\n' ';')
  if [ -n "$ext_fail" ]; then # retry once: wall-clock tests are flaky under load
    pk=$(grep -E '^FAIL\s' /tmp/confirm/$name-ext.txt | grep -v tablelib | awk '{print $2}' | sed 's|github.com/arnodel/golua|.|' | tr '\n' ' ')
    if [ -n "$pk" ]; then go test -ldflags=-checklinkname=0 -vet=off -count=1 $pk > /tmp/confirm/$name-ext2.txt 2>&1 && ext_fail="(flaky, passed on retry) "; fi
  fi
fi
differs=no
if ! cmp -s /tmp/confirm/$name-clean.out /tmp/confirm/$name-patched.out; then differs=yes; fi
if [ ! -f /tmp/confirm/clean-base.txt ]; then ( cd /repo && go test -vet=off -count=1 ./... 2>&1 | grep -E '^(ok|FAIL|---)' | sed 's/\t[0-9.]*s$//' | sort > /tmp/confirm/clean-base.txt ); fi
basefails=$(diff <(sed 's/[[:space:]]*[0-9.]*s$//' /tmp/confirm/clean-base.txt) <(sed 's/[[:space:]]*[0-9.]*s$//' /tmp/confirm/$name-base.txt 2>/dev/null) | grep -c '^[<>]')
cd /; git -C /repo worktree remove --force $wt >/dev/null 2>&1; rm -f /tmp/confirm/golua-$name-*
echo "{\"seed\":\"$name\",\"applies\":\"$applies\",\"build\":\"$build\",\"demo_clean_rc\":\"$clean_rc\",\"demo_patched_rc\":\"$patched_rc\",\"demo_output_differs\":\"$differs\",\"baseline_fail_lines\":\"$basefails\",\"extended_suite_unexpected_failures\":\"$ext_fail\"}"
