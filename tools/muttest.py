#!/usr/bin/env python3
"""Checker self-test: one-instance-broken variants of /repo, built in a scratch copy outside /repo and /verif.

usage: muttest.py [name-substring ...]
For each mutation in /verif/selftest/mutations.json: copy /repo's working tree to a scratch directory,
apply the textual edit, make sure the variant still compiles (go build ./... and go vet-free type check
by the checker's own loader), run the named rules against the copy and require that a finding whose key
contains `expect` is reported. The scratch copy is removed afterwards. Nothing here is a registered check:
it tests the checker, not golua.
"""
import json, os, shutil, subprocess, sys, tempfile

ENV = dict(os.environ, GOFLAGS="-mod=mod", GOPROXY="off", GOSUMDB="off", GOTOOLCHAIN="local")
ENV.pop("GOWORK", None)

def run(cmd, **kw):
    return subprocess.run(cmd, shell=True, env=ENV, capture_output=True, text=True, **kw)

def main():
    muts = json.load(open('/verif/selftest/mutations.json'))
    sel = sys.argv[1:]
    results = []
    for m in muts:
        if sel and not any(s in m['name'] for s in sel):
            continue
        d = tempfile.mkdtemp(prefix='luaverif-mut-', dir='/tmp')
        try:
            run("rsync -a --exclude .git /repo/ %s/" % d)
            edits = m.get('edits') or [{'file': m['file'], 'old': m['old'], 'new': m['new']}]
            stale = None
            for e in edits:
                path = os.path.join(d, e['file'])
                s = open(path).read()
                if s.count(e['old']) != 1:
                    stale = 'old text occurs %d times in %s' % (s.count(e['old']), e['file'])
                    break
                open(path, 'w').write(s.replace(e['old'], e['new']))
            if stale:
                results.append((m['name'], 'STALE', stale))
                continue
            b = run("cd %s && go build ./... 2>&1 | grep -v '^#' | grep -v linkname | head -5" % d)
            if 'error' in b.stdout or '.go:' in b.stdout:
                results.append((m['name'], 'NOCOMPILE', b.stdout.strip()[:300]))
                continue
            e = dict(ENV, LUAVERIF_REPO=d)
            out = subprocess.run(['/verif/bin/luaverif', 'rules', m['rules']], env=e, capture_output=True, text=True)
            try:
                rs = json.loads(out.stdout)
            except Exception:
                results.append((m['name'], 'CHECKER-ERROR', (out.stdout + out.stderr)[-300:]))
                continue
            keys = [f['key'] for r in rs for f in (r.get('findings') or [])]
            broken = [b for r in rs for b in (r.get('broken') or [])]
            hit = [k for k in keys if m['expect'] in k]
            if hit:
                results.append((m['name'], 'CAUGHT', hit[0]))
            elif broken:
                results.append((m['name'], 'BROKEN-ONLY', broken[0][:200]))
            else:
                results.append((m['name'], 'MISSED', ' '.join(keys)[:300]))
        finally:
            shutil.rmtree(d, ignore_errors=True)
    bad = 0
    for n, st, info in results:
        print("%-40s %-12s %s" % (n, st, info))
        if st != 'CAUGHT':
            bad += 1
    print("%d mutations, %d not caught" % (len(results), bad))
    sys.exit(1 if bad else 0)

main()
