-- Reference implementation of Lua 5.4 patterns (a transcription of lstrlib.c) and a comparison with the library
math.randomseed(tonumber(arg[1]) or 1)
local R = math.random
local function pick(t) return t[R(#t)] end
local MAXCCALLS = 200
local sbyte, ssub = string.byte, string.sub

local function isclass(c, cl)
  -- c: byte, cl: byte of class letter; returns nil if cl is not a class letter
  local ch = string.char(c)
  local l = string.char(cl):lower()
  local res
  if l == 'a' then res = (c >= 65 and c <= 90) or (c >= 97 and c <= 122)
  elseif l == 'c' then res = c < 32 or c == 127
  elseif l == 'd' then res = c >= 48 and c <= 57
  elseif l == 'g' then res = c > 32 and c < 127
  elseif l == 'l' then res = c >= 97 and c <= 122
  elseif l == 'p' then res = (c >= 33 and c <= 47) or (c >= 58 and c <= 64) or (c >= 91 and c <= 96) or (c >= 123 and c <= 126)
  elseif l == 's' then res = c == 32 or (c >= 9 and c <= 13)
  elseif l == 'u' then res = c >= 65 and c <= 90
  elseif l == 'w' then res = (c >= 48 and c <= 57) or (c >= 65 and c <= 90) or (c >= 97 and c <= 122)
  elseif l == 'x' then res = (c >= 48 and c <= 57) or (c >= 65 and c <= 70) or (c >= 97 and c <= 102)
  else return cl == c end
  if cl >= 65 and cl <= 90 then res = not res end
  return res
end

local function newstate(src, pat)
  return {src = src, pat = pat, level = 0, capture = {}, matchdepth = MAXCCALLS}
end

local function classend(ms, p)
  local pat = ms.pat
  local c = sbyte(pat, p) p = p + 1
  if c == 37 then
    if p > #pat then error("malformed pattern (ends with '%')", 0) end
    return p + 1
  elseif c == 91 then
    if sbyte(pat, p) == 94 then p = p + 1 end
    repeat
      if p > #pat then error("malformed pattern (missing ']')", 0) end
      local cc = sbyte(pat, p) p = p + 1
      if cc == 37 and p <= #pat then p = p + 1 end
    until sbyte(pat, p) == 93
    return p + 1
  else return p end
end

local function matchbracketclass(ms, c, p, ec)
  local pat = ms.pat
  local sig = true
  if sbyte(pat, p + 1) == 94 then sig = false p = p + 1 end
  p = p + 1
  while p < ec do
    local pc = sbyte(pat, p)
    if pc == 37 then
      p = p + 1
      if isclass(c, sbyte(pat, p)) then return sig end
    elseif sbyte(pat, p + 1) == 45 and p + 2 < ec then
      p = p + 2
      if sbyte(pat, p - 2) <= c and c <= sbyte(pat, p) then return sig end
    elseif pc == c then return sig end
    p = p + 1
  end
  return not sig
end

local function singlematch(ms, s, p, ep)
  if s > #ms.src then return false end
  local c = sbyte(ms.src, s)
  local pc = sbyte(ms.pat, p)
  if pc == 46 then return true
  elseif pc == 37 then return isclass(c, sbyte(ms.pat, p + 1))
  elseif pc == 91 then return matchbracketclass(ms, c, p, ep - 1)
  else return pc == c end
end

local do_match

local function matchbalance(ms, s, p)
  if p + 1 > #ms.pat then error("malformed pattern (missing arguments to '%b')", 0) end
  if s > #ms.src or sbyte(ms.src, s) ~= sbyte(ms.pat, p) then return nil end
  local b, e = sbyte(ms.pat, p), sbyte(ms.pat, p + 1)
  local cont = 1
  s = s + 1
  while s <= #ms.src do
    local c = sbyte(ms.src, s)
    if c == e then
      cont = cont - 1
      if cont == 0 then return s + 1 end
    elseif c == b then cont = cont + 1 end
    s = s + 1
  end
  return nil
end

local function max_expand(ms, s, p, ep)
  local i = 0
  while singlematch(ms, s + i, p, ep) do i = i + 1 end
  while i >= 0 do
    local res = do_match(ms, s + i, ep + 1)
    if res then return res end
    i = i - 1
  end
  return nil
end

local function min_expand(ms, s, p, ep)
  while true do
    local res = do_match(ms, s, ep + 1)
    if res then return res
    elseif singlematch(ms, s, p, ep) then s = s + 1
    else return nil end
  end
end

local CAP_UNFINISHED, CAP_POSITION = -1, -2

local function start_capture(ms, s, p, what)
  ms.level = ms.level + 1
  if ms.level > 32 then error("too many captures", 0) end
  ms.capture[ms.level] = {init = s, len = what}
  local res = do_match(ms, s, p)
  if not res then ms.level = ms.level - 1 end
  return res
end

local function capture_to_close(ms)
  local level = ms.level
  while level > 0 do
    if ms.capture[level].len == CAP_UNFINISHED then return level end
    level = level - 1
  end
  error("invalid pattern capture", 0)
end

local function end_capture(ms, s, p)
  local l = capture_to_close(ms)
  ms.capture[l].len = s - ms.capture[l].init
  local res = do_match(ms, s, p)
  if not res then ms.capture[l].len = CAP_UNFINISHED end
  return res
end

local function check_capture(ms, l)
  l = l - 49 + 1 -- '1' -> 1
  if l < 1 or l > ms.level or ms.capture[l].len == CAP_UNFINISHED then error("invalid capture index %" .. l, 0) end
  return l
end

local function match_capture(ms, s, l)
  l = check_capture(ms, l)
  local cap = ms.capture[l]
  local len = cap.len
  if len == CAP_POSITION then len = 0 end -- position captures compare as empty? (C: memcmp with len = -2 as size_t: never matches); treat as no match
  if cap.len == CAP_POSITION then return nil end
  if #ms.src - s + 1 >= len and ssub(ms.src, cap.init, cap.init + len - 1) == ssub(ms.src, s, s + len - 1) then return s + len end
  return nil
end

function do_match(ms, s, p)
  ms.matchdepth = ms.matchdepth - 1
  if ms.matchdepth == 0 then error("pattern too complex", 0) end
  local pat = ms.pat
  local res
  while true do
    if p > #pat then res = s break end
    local pc = sbyte(pat, p)
    if pc == 40 then -- (
      if sbyte(pat, p + 1) == 41 then res = start_capture(ms, s, p + 2, CAP_POSITION)
      else res = start_capture(ms, s, p + 1, CAP_UNFINISHED) end
      break
    elseif pc == 41 then res = end_capture(ms, s, p + 1) break
    elseif pc == 36 and p + 1 > #pat then -- $ at end
      res = (s == #ms.src + 1) and s or nil
      break
    elseif pc == 37 and sbyte(pat, p + 1) == 98 then -- %b
      s = matchbalance(ms, s, p + 2)
      if s then p = p + 4 else res = nil break end
    elseif pc == 37 and sbyte(pat, p + 1) == 102 then -- %f
      p = p + 2
      if sbyte(pat, p) ~= 91 then error("missing '[' after '%f' in pattern", 0) end
      local ep = classend(ms, p)
      local prev = (s == 1) and 0 or sbyte(ms.src, s - 1)
      local cur = (s <= #ms.src) and sbyte(ms.src, s) or 0
      if not matchbracketclass(ms, prev, p, ep - 1) and matchbracketclass(ms, cur, p, ep - 1) then p = ep
      else res = nil break end
    elseif pc == 37 and sbyte(pat, p + 1) and sbyte(pat, p + 1) >= 48 and sbyte(pat, p + 1) <= 57 then -- back reference
      s = match_capture(ms, s, sbyte(pat, p + 1))
      if s then p = p + 2 else res = nil break end
    else
      local ep = classend(ms, p)
      local epc = sbyte(pat, ep)
      if not singlematch(ms, s, p, ep) then
        if epc == 42 or epc == 63 or epc == 45 then p = ep + 1 -- * ? - accept empty
        else res = nil break end
      else
        if epc == 63 then
          local r = do_match(ms, s + 1, ep + 1)
          if r then res = r break end
          p = ep + 1
        elseif epc == 43 then res = max_expand(ms, s + 1, p, ep) break
        elseif epc == 42 then res = max_expand(ms, s, p, ep) break
        elseif epc == 45 then res = min_expand(ms, s, p, ep) break
        else s = s + 1 p = ep end
      end
    end
  end
  ms.matchdepth = ms.matchdepth + 1
  return res
end

local function get_onecapture(ms, i, s, e)
  if i > ms.level then
    if i ~= 1 then error("invalid capture index %" .. i, 0) end
    return ssub(ms.src, s, e - 1)
  end
  local cap = ms.capture[i]
  if cap.len == CAP_UNFINISHED then error("unfinished capture", 0) end
  if cap.len == CAP_POSITION then return cap.init end
  return ssub(ms.src, cap.init, cap.init + cap.len - 1)
end

local function push_captures(ms, s, e, wholeIfNone)
  local n = (ms.level == 0 and wholeIfNone) and 1 or ms.level
  local out = {}
  for i = 1, n do out[i] = get_onecapture(ms, i, s, e) end
  return out
end

local function reprep(ms) ms.level = 0 ms.capture = {} ms.matchdepth = MAXCCALLS end

local function ref_find_aux(src, pat, init, find)
  local ls = #src
  if init == nil then init = 1 end
  if init < 0 then init = ls + init + 1 if init < 1 then init = 1 end elseif init == 0 then init = 1 end
  if init > ls + 1 then return {nil} end
  local ms = newstate(src, pat)
  local p = 1
  local anchor = sbyte(pat, 1) == 94
  if anchor then p = 2 end
  local s1 = init
  repeat
    reprep(ms)
    local e = do_match(ms, s1, p)
    if e then
      if find then
        local caps = push_captures(ms, nil, nil, false)
        local out = {s1, e - 1}
        for _, c in ipairs(caps) do out[#out+1] = c end
        return out
      else
        return push_captures(ms, s1, e, true)
      end
    end
    s1 = s1 + 1
  until s1 > ls + 1 or anchor
  return {nil}
end

local function ref_gmatch(src, pat)
  local ms = newstate(src, pat)
  local out = {}
  local s, lastmatch = 1, nil
  while s <= #src + 1 do
    reprep(ms)
    local e = do_match(ms, s, 1)
    if e and e ~= lastmatch then
      out[#out+1] = push_captures(ms, s, e, true)
      s = e lastmatch = e
    else s = s + 1 end
    if #out > 50 then break end
  end
  return out
end

local function ref_gsub(src, pat, repl, max_s)
  local ms = newstate(src, pat)
  local p = 1
  local anchor = sbyte(pat, 1) == 94
  if anchor then p = 2 end
  local out = {}
  local s, lastmatch, n = 1, nil, 0
  max_s = max_s or (#src + 1)
  while n < max_s do
    reprep(ms)
    local e = do_match(ms, s, p)
    if e and e ~= lastmatch then
      n = n + 1
      -- add_s
      local i = 1
      while i <= #repl do
        local c = ssub(repl, i, i)
        if c ~= '%' then out[#out+1] = c
        else
          i = i + 1
          local d = ssub(repl, i, i)
          if d == '%' then out[#out+1] = '%'
          elseif d:match('^%d$') then
            if d == '0' then out[#out+1] = ssub(src, s, e - 1)
            else out[#out+1] = tostring(get_onecapture(ms, tonumber(d), s, e)) end
          else error("invalid use of '%' in replacement string", 0) end
        end
        i = i + 1
      end
      s = e lastmatch = e
    elseif s <= #src then out[#out+1] = ssub(src, s, s) s = s + 1
    else break end
    if anchor then break end
  end
  out[#out+1] = ssub(src, s)
  return table.concat(out), n
end

local function ser(t, n)
  local r = {}
  for i = 1, n or #t do r[i] = type(t[i]) .. ':' .. tostring(t[i]) end
  return table.concat(r, ' ')
end

local toks = {'a', 'b', 'a', 'b', '.', '%a', '%d', '%s', '%A', '[ab]', '[^a]', '[a-b]', '[%a]', '[b-a]', '*', '+', '-', '?', '*', '+', '^', '$', '(', ')', '()', '%1', '%2', '%b()', '%bab', '%f[a]', '%f[^a]', '%%', '%', '[', ']', '[]]', '[^]]', '[a-]', '%.', '1', ' '}
local subjalpha = {'a', 'b', 'a', 'b', '(', ')', '1', ' ', '%'}
local bad, n, errs = 0, 0, 0
local function report(...) bad = bad + 1 if bad < 60 then print(...) end end
local N = tonumber(arg[2]) or 100000
for iter = 1, N do
  local pt = {}
  for i = 1, R(1, 5) do pt[i] = pick(toks) end
  local pat = table.concat(pt)
  local st = {}
  for i = 1, R(0, 6) do st[i] = pick(subjalpha) end
  local src = table.concat(st)
  local init = pick{1, 1, 1, 2, 3, -1, -2, 0, #src + 1, #src + 2, -10}
  n = n + 1
  -- find
  local okr, r = pcall(ref_find_aux, src, pat, init, true)
  local g = table.pack(pcall(string.find, src, pat, init))
  if okr ~= g[1] then
    if (not okr and not tostring(r):find('too complex')) then report('find errorness', ('%q %q %d'):format(src, pat, init), okr, tostring(r), g[1], tostring(g[2])) end
  elseif okr then
    local rn = #r if r[1] == nil then rn = 1 end
    local gs = ser({table.unpack(g, 2, g.n)}, g.n - 1)
    local rs = ser(r, rn)
    if gs ~= rs then report('find', ('%q %q %d'):format(src, pat, init), 'ref', rs, 'got', gs) end
  else errs = errs + 1 end
  -- match
  local okm, rm = pcall(ref_find_aux, src, pat, init, false)
  local gm = table.pack(pcall(string.match, src, pat, init))
  if okm == gm[1] and okm then
    local rn = #rm if rm[1] == nil then rn = 1 end
    local gs, rs = ser({table.unpack(gm, 2, gm.n)}, gm.n - 1), ser(rm, rn)
    if gs ~= rs then report('match', ('%q %q %d'):format(src, pat, init), 'ref', rs, 'got', gs) end
  elseif okm ~= gm[1] and (not okm and not tostring(rm):find('too complex')) then report('match errorness', ('%q %q'):format(src, pat), okm, tostring(rm), gm[1], tostring(gm[2])) end
  -- gmatch
  local okg, rg = pcall(ref_gmatch, src, pat)
  local okgg, gg = pcall(function()
    local out = {}
    for a, b, c, d in string.gmatch(src, pat) do out[#out+1] = {a, b, c, d} if #out > 50 then break end end
    return out
  end)
  if okg == okgg and okg then
    local a, b = {}, {}
    for i, caps in ipairs(rg) do a[i] = ser(caps) end
    for i, caps in ipairs(gg) do local k = 0 for q = 1, 4 do if caps[q] ~= nil then k = q end end b[i] = ser(caps, k) end
    if table.concat(a, ' | ') ~= table.concat(b, ' | ') then report('gmatch', ('%q %q'):format(src, pat), 'ref', table.concat(a, ' | '), 'got', table.concat(b, ' | ')) end
  elseif okg ~= okgg and (not okg and not tostring(rg):find('too complex')) then report('gmatch errorness', ('%q %q'):format(src, pat), okg, tostring(rg), okgg, tostring(gg)) end
  -- gsub
  local repl = pick{'[%0]', '', 'x', '%1', '<%1%0>', '%%'}
  local maxn = pick{nil, nil, 0, 1, 2}
  local oks, rs1, rs2 = pcall(ref_gsub, src, pat, repl, maxn)
  local gsb = maxn and table.pack(pcall(string.gsub, src, pat, repl, maxn)) or table.pack(pcall(string.gsub, src, pat, repl))
  if oks == gsb[1] and oks then
    if rs1 ~= gsb[2] or rs2 ~= gsb[3] then report('gsub', ('%q %q %q %s'):format(src, pat, repl, tostring(maxn)), 'ref', ('%q'):format(rs1), rs2, 'got', ('%q'):format(tostring(gsb[2])), gsb[3]) end
  elseif oks ~= gsb[1] and (not oks and not tostring(rs1):find('too complex')) then report('gsub errorness', ('%q %q %q'):format(src, pat, repl), oks, tostring(rs1), gsb[1], tostring(gsb[2])) end
end
print('cases', n, 'bad', bad, 'both-error', errs)
