math.randomseed(tonumber(arg and arg[1]) or 1)
local R = math.random
local depth = 0
local function pick(t) return t[R(#t)] end
local body
local function ctxdef()
  local parts = {}
  if R(2) == 1 then parts[#parts+1] = "memory=" .. pick{2000, 10000, 100000, 5000000} end
  if R(2) == 1 then parts[#parts+1] = "cpu=" .. pick{100, 1000, 100000, 5000000} end
  local k = "kill={" .. table.concat(parts, ",") .. "}"
  if R(4) == 1 then k = k .. ", stop={cpu=" .. pick{50, 500, 50000} .. "}" end
  if R(5) == 1 then k = k .. ", flags='cpusafe'" end
  return "{" .. k .. "}"
end
local function stmt()
  depth = depth + 1
  local k = depth > 4 and R(6) or R(16)
  local r
  if k == 1 then r = "n = n + 1"
  elseif k == 2 then r = "t[#t+1] = ('x'):rep(" .. pick{1, 100, 10000} .. ")"
  elseif k == 3 then r = "local s = 0; for i = 1, " .. pick{1, 100, 10000} .. " do s = s + i end"
  elseif k == 4 then r = "if co and coroutine.status(co) == 'suspended' then pcall(coroutine.resume, co, n) end"
  elseif k == 5 then r = "if coroutine.isyieldable() then coroutine.yield(n) end"
  elseif k == 6 then r = "error(" .. pick{"'e'", "{}", "nil", "n"} .. ")"
  elseif k == 7 then r = "pcall(function()\n" .. body(R(3)) .. "\nend)"
  elseif k == 8 then r = "co = coroutine.create(function(...)\n" .. body(R(4)) .. "\nend)"
  elseif k == 9 then r = "runtime.callcontext(" .. ctxdef() .. ", function()\n" .. body(R(4)) .. "\nend)"
  elseif k == 10 then r = "do local x <close> = setmetatable({}, {__close = function()\n" .. body(R(2)) .. "\nend})\n" .. body(R(3)) .. "\nend"
  elseif k == 11 then r = "if co then pcall(coroutine.close, co) end"
  elseif k == 12 then r = "local w = coroutine.wrap(function(...)\n" .. body(R(3)) .. "\nend); pcall(w); pcall(w)"
  elseif k == 13 then r = "setmetatable({}, {__gc = function() n = n + 1 end}); collectgarbage()"
  elseif k == 14 then r = "xpcall(function()\n" .. body(R(2)) .. "\nend, function(e)\n" .. body(R(2)) .. "\nreturn e end)"
  elseif k == 15 then r = "table.sort(t, function(x, y)\n" .. body(1) .. "\nreturn tostring(x) < tostring(y) end)"
  else r = "if runtime.context().status == 'live' then pcall(runtime.stopcontext, runtime.context()) end" end
  depth = depth - 1
  return r
end
function body(n)
  local out = {}
  for i = 1, n do out[#out+1] = stmt() end
  return table.concat(out, "\n")
end
local N = tonumber(arg and arg[2]) or 200
for i = 1, N do
  depth = 0
  local src = "local n, t, co = 0, {}, nil\n" .. body(R(3, 8)) .. "\nreturn n"
  io.stderr:write("-- program ", i, "\n", src, "\n")
  local fn, err = load(src, "p" .. i, "t")
  if fn and i >= (tonumber(arg[3]) or 1) and (i <= (tonumber(arg[4]) or 1e9) or i == tonumber(arg[5])) then
    runtime.callcontext({kill={cpu=20000000, memory=100000000}}, function() return pcall(fn) end)
  elseif not fn then
    io.stderr:write("LOADERR ", err, "\n")
  end
end
print("done", N)
