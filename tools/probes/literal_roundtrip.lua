math.randomseed(tonumber(arg[1]) or 1)
local R = math.random
local bad = 0
local function report(...) bad = bad + 1 if bad < 30 then print(...) end end
-- 1. %q round trip on random byte strings
for i = 1, 20000 do
  local n = R(0, 12)
  local t = {}
  for j = 1, n do
    local k = R(6)
    if k == 1 then t[j] = string.char(R(0, 31))
    elseif k == 2 then t[j] = string.char(R(48, 57))
    elseif k == 3 then t[j] = string.char(R(128, 255))
    elseif k == 4 then t[j] = ({'\\', '"', '\n', '\r', '\0', "'", ']', '[', '\r\n', '\n\r'})[R(10)]
    else t[j] = string.char(R(32, 126)) end
  end
  local s = table.concat(t)
  local q = string.format('%q', s)
  local f, err = load('return ' .. q)
  if not f then report('%q LOAD', err, q)
  else local r = f() if r ~= s then report('%q RT', #s, #r, q) end end
  -- long string round trip when possible
  if not s:find(']]', 1, true) and not s:find('\r', 1, true) and s:sub(-1) ~= ']' then
    local f2 = load('return [[' .. s .. ']]')
    if f2 then
      local r2 = f2()
      local exp = s
      if exp:sub(1, 1) == '\n' then exp = exp:sub(2) end
      if r2 ~= exp then report('LONG RT', q) end
    end
  end
end
-- 2. numerals: tonumber(str) agrees with the lexer; %q / %a / %.17g round trips for numbers
local nums = {}
for i = 1, 5000 do
  local k = R(8)
  local s
  if k == 1 then s = tostring(R(math.mininteger, math.maxinteger))
  elseif k == 2 then s = string.format('%.17g', (R() - 0.5) * 10 ^ R(-300, 300))
  elseif k == 3 then s = string.format('0x%x', R(0, math.maxinteger))
  elseif k == 4 then s = string.format('%a', (R() - 0.5) * 2 ^ R(-1000, 1000))
  elseif k == 5 then s = R(0, 999) .. '.' .. R(0, 999) .. 'e' .. R(-320, 320)
  elseif k == 6 then s = '0x' .. string.format('%x', R(0, 1 << 40)) .. '.' .. string.format('%x', R(0, 65535)) .. 'p' .. R(-100, 100)
  elseif k == 7 then s = ({'1e', '0x', '1..2', '.5', '5.', '0x.8', '0x8.', '1e+', '0xep1', '9223372036854775808', '-9223372036854775808', '0xffffffffffffffff', '0x1ffffffffffffffff', '1e309', '0x1p1024', '1_000', ' 10 ', '10a', '١٢'})[R(19)]
  else s = tostring(R(-100, 100)) end
  local a = tonumber(s)
  local f = load('return ' .. s)
  local b = nil
  if f then local ok, v = pcall(f) if ok then b = v end end
  -- negative literals are unary minus applied to positive numeral: values must agree when both exist
  if s:match('^%s*[%d%.]') or s:match('^%s*0[xX]') then
    local trimmed = s:match('^%s*(.-)%s*$')
    if (a == nil) ~= (b == nil) and trimmed == s then report('NUM ACCEPT', s, a, b)
    elseif a ~= nil and b ~= nil and (a ~= b or math.type(a) ~= math.type(b)) then report('NUM VALUE', s, a, b, math.type(a), math.type(b)) end
  end
  if a and math.type(a) == 'float' and a == a then
    local r = tonumber(string.format('%.17g', a))
    if r ~= a then report('%.17g RT', s, a, r) end
    local r2 = tonumber(string.format('%a', a))
    if r2 ~= a then report('%a RT', s, a, r2, string.format('%a', a)) end
    local f3 = load('return ' .. string.format('%q', a))
    if not f3 or f3() ~= a then report('%q float RT', s, a, string.format('%q', a)) end
  end
  if a and math.type(a) == 'integer' then
    local f3 = load('return ' .. string.format('%q', a))
    if not f3 or f3() ~= a or math.type(f3()) ~= 'integer' then report('%q int RT', s, a, string.format('%q', a)) end
    if tonumber(tostring(a)) ~= a then report('tostring int RT', a) end
  end
end
print('bad', bad)
