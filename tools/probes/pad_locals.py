import sys, random, re
src, dst, seed = sys.argv[1], sys.argv[2], int(sys.argv[3])
rnd = random.Random(seed)
lines = open(src).read().split('\n')
start = next(i for i,l in enumerate(lines) if l.startswith('local function main('))
end = max(i for i,l in enumerate(lines) if l.startswith("out('result'"))
cands = [i for i in range(start, end-1) if not lines[i].lstrip().startswith('return') and not lines[i].rstrip().endswith(',')]
k = 0
for i in rnd.sample(cands, min(len(cands), rnd.randint(1, 8))):
    k += 1
    kind = rnd.randint(1, 3)
    if kind == 1: lines[i] += ' local _p%d = %d' % (k, k)
    elif kind == 2: lines[i] += ' local _p%d, _q%d = f(%d)' % (k, k, k)
    else: lines[i] += ' local _p%d <const> = %d' % (k, k)
open(dst, 'w').write('\n'.join(lines))
