local maxi, mini = math.maxinteger, math.mininteger
local bad = 0
local function report(...) bad = bad + 1 if bad < 60 then print(...) end end
local function same(a, b) -- same value and same subtype; NaN equals NaN; distinguishes -0.0
  if math.type(a) ~= math.type(b) then return false end
  if a ~= a and b ~= b then return true end
  if a == 0 and b == 0 and math.type(a) == 'float' then return 1/a == 1/b end
  return a == b
end
local function check(name, got, exp) if not same(got, exp) then report(name, 'got', got, math.type(got), 'expected', exp, math.type(exp)) end end
local ints = {0, 1, -1, 2, -2, 3, -3, 7, -7, 10, 63, 64, 65, -63, -64, -65, maxi, mini, maxi - 1, mini + 1, 1 << 53, (1 << 53) + 1, -(1 << 53) - 1, 1 << 62, -(1 << 62), 1 << 32, 0x7fffffff, 12345678901}
local floats = {0.0, -0.0, 0.5, -0.5, 1.0, -1.0, 1.5, -1.5, 2.5, 3.0, -3.0, 1e15, 1e16, 2^53, 2^53 + 2, -2^53, 2^63, -2^63, 2^63 * 2, 1e100, -1e100, 1e308, 5e-324, 1/0, -1/0, 0/0, 9007199254740993.0, 4611686018427387904.0, 0.1}
-- integer division and modulo
for _, a in ipairs(ints) do for _, b in ipairs(ints) do
  if b ~= 0 then
    local q, r = a // b, a % b
    if math.type(q) ~= 'integer' or math.type(r) ~= 'integer' then report('int // % type', a, b) end
    if q * b + r ~= a then report('int divmod identity', a, b, q, r) end
    if r ~= 0 and ((r < 0) ~= (b < 0)) then report('int mod sign', a, b, r) end
    if b ~= mini and not (math.abs(r) < math.abs(b)) and not (b == mini) then report('int mod range', a, b, r) end
    -- floor semantics: q <= a/b < q+1 checked through r in [0, |b|)
  else
    if pcall(function() return a // b end) then report('int // 0 no error', a) end
    if pcall(function() return a % b end) then report('int % 0 no error', a) end
  end
  -- wrap-around
  check('add wrap', a + b, (a + b) | 0)
  -- comparisons are a total order consistent with subtraction when no overflow
  if (a < b) == (b <= a) then report('int order', a, b) end
  -- shifts
end end
for _, a in ipairs(ints) do for n = -70, 70 do
  local l, r = a << n, a >> n
  local el, er
  if n >= 64 or n <= -64 then el, er = 0, 0
  elseif n >= 0 then
    el = 0 local x = a for i = 1, n do x = x * 2 end el = x  -- wraps
    er = a for i = 1, n do er = (er >> 1) & maxi end -- logical shift right by one: clear sign after first
    if n == 0 then er = a end
  else
    local m = -n
    er = a for i = 1, m do er = er * 2 end
    el = a for i = 1, m do el = (el >> 1) & maxi end
  end
  -- (x >> 1) itself is under test; use division-based logical shift instead
  local function lsr1(x) if x >= 0 then return x // 2 else return ((x + mini) // 2) + (1 << 62) end end
  local function lsr(x, k) for i = 1, k do x = lsr1(x) end return x end
  if n >= 0 and n < 64 then er = lsr(a, n) elseif n < 0 and n > -64 then el = lsr(a, -n) end
  check('shl ' .. a .. ' ' .. n, l, el)
  check('shr ' .. a .. ' ' .. n, r, er)
end end
-- float floor division and modulo
for _, a in ipairs(floats) do for _, b in ipairs(floats) do
  local q, r = a // b, a % b
  check('float // ' .. a .. ' ' .. b, q, math.floor(a / b) + 0.0 == math.floor(a / b) and (a / b ~= a / b and a / b or (function() local d = a / b if d == 1/0 or d == -1/0 then return d end local f = math.floor(d) return f + 0.0 end)()) or a / b)
  -- reference modulo (lvm.c luai_nummod): m = fmod(a,b); if ((m > 0) ? b < 0 : (m < 0 && b != m)) m += b;
  local m = math.fmod(a, b)
  if (m > 0 and b < 0) or (m < 0 and b > 0) then m = m + b end  -- b != m irrelevant when signs differ
  check('float % ' .. a .. ' ' .. b, r, m)
end end
-- mixed comparisons: exact
local function exact_lt(i, f) -- i integer, f float: i < f ?
  if f ~= f then return false end
  if f >= 2^63 then return true end
  if f < -2^63 then return false end
  local fl = math.floor(f)  -- integer (in range)
  if fl == f then return i < fl end
  return i <= fl
end
local function exact_le(i, f)
  if f ~= f then return false end
  if f >= 2^63 then return true end
  if f < -2^63 then return false end
  local fl = math.floor(f)
  return i <= fl
end
for _, i in ipairs(ints) do for _, f in ipairs(floats) do
  if (i < f) ~= exact_lt(i, f) then report('int < float', i, f, i < f) end
  if (i <= f) ~= exact_le(i, f) then report('int <= float', i, f, i <= f) end
  local gt = not exact_le(i, f) and f == f
  if (i > f) ~= gt then report('int > float', i, f, i > f) end
  local ge = not exact_lt(i, f) and f == f
  if (i >= f) ~= ge then report('int >= float', i, f, i >= f) end
  local eq = exact_le(i, f) and not exact_lt(i, f)
  if (i == f) ~= eq then report('int == float', i, f, i == f) end
  -- as table keys
  local t = {} t[f == f and f or 1] = 'x'
  if f == f and eq and t[i] ~= 'x' then report('key normalisation', i, f) end
end end
-- conversions
for _, f in ipairs(floats) do
  local ti = math.tointeger(f)
  local expect = nil
  if f == f and f >= -2^63 and f < 2^63 and math.floor(f) == f then expect = math.floor(f) end
  if ti ~= expect or (ti and math.type(ti) ~= 'integer') then report('tointeger', f, ti, expect) end
  local ok, v = pcall(function() return f | 0 end)
  if (expect ~= nil) ~= ok then report('float | 0 errorness', f, ok, v) elseif ok and v ~= expect then report('float | 0', f, v) end
  local okf = pcall(string.format, '%d', f)
  if okf ~= (expect ~= nil) then report('%d of float', f, okf) end
end
-- strings as numbers
local function ok(f, ...) local r = table.pack(pcall(f, ...)) return r[1], r[2] end
check('"10"+1', "10" + 1, 11)
check('"0x10"+0', "0x10" + 0, 16)
check('"1e1"+0', "1e1" + 0, 10.0)
check('" 5 "+0', " 5 " + 0, 5)
check('"3"*"4"', "3" * "4", 12)
check('"3.0"+1', "3.0" + 1, 4.0)
check('10 .. 20', 10 .. 20, "1020")
if pcall(function() return "abc" + 1 end) then report('"abc"+1 no error') end
if pcall(function() return "1" | 0 end) == false then report('"1" | 0 should work') end
if pcall(function() return "1.5" | 0 end) then report('"1.5" | 0 no error') end
check('-mini', -mini, mini)
check('maxi+1', maxi + 1, mini)
check('mini-1', mini - 1, maxi)
check('maxi*2', maxi * 2, -2)
check('2^2', 2 ^ 2, 4.0)
check('7 // 0.0', 7 // 0.0, 1/0)
check('-7 // 0.0', -7 // 0.0, -1/0)
check('0/0 ~= 0/0', (0/0) ~= (0/0), true)
check('1/0', 1 / 0, 1/0)
check('3 / 2', 3 / 2, 1.5)
check('4 / 2', 4 / 2, 2.0)
check('mini // -1', mini // -1, mini)
check('mini % -1', mini % -1, 0)
check('5 // -2', 5 // -2, -3)
check('5 % -2', 5 % -2, -1)
check('-5 % 2', -5 % 2, 1)
check('5.5 // 2', 5.5 // 2, 2.0)
check('-5.5 % 2', -5.5 % 2, 0.5)
check('5 % math.huge', 5 % math.huge, 5.0)
check('-5 % math.huge', -5 % math.huge, math.huge)
check('5 % -math.huge', 5 % -math.huge, -math.huge)
check('~0', ~0, -1)
check('5 ~ 3', 5 ~ 3, 6)
check('1 << 63', 1 << 63, mini)
check('1 << 64', 1 << 64, 0)
check('-1 >> 1', -1 >> 1, maxi)
check('-1 >> 63', -1 >> 63, 1)
check('2.0 | 1', 2.0 | 1, 3)
-- tostring of numbers
local ts = {{1e15, '1e+15'}, {2^53, '9.007199254741e+15'}, {-0.0, '-0.0'}, {1/0, 'inf'}, {-1/0, '-inf'}, {3.0, '3.0'}, {1e100, '1e+100'}, {0.1, '0.1'}, {-1.5, '-1.5'}, {100.0, '100.0'}, {1e14, '1e+14'}, {123456789012345.0, '1.2345678901234e+14'}, {mini, '-9223372036854775808'}, {2^63, '9.2233720368548e+18'}, {5e-324, '4.9406564584125e-324'}, {1e-5, '1e-05'}, {12345.678, '12345.678'}}
for _, p in ipairs(ts) do if tostring(p[1]) ~= p[2] then report('tostring', p[2], tostring(p[1])) end end
local nanstr = tostring(0/0) if nanstr ~= 'nan' and nanstr ~= '-nan' then report('tostring nan', nanstr) end
-- math library
check('math.floor(2.5)', math.floor(2.5), 2)
check('math.ceil(2.5)', math.ceil(2.5), 3)
check('math.floor(-2.5)', math.floor(-2.5), -3)
check('math.floor(1e300)', math.floor(1e300), 1e300)
check('math.floor(3)', math.floor(3), 3)
check('math.abs(mini)', math.abs(mini), mini)
check('math.abs(-0.0)', math.abs(-0.0), 0.0)
check('math.fmod(5,3)', math.fmod(5, 3), 2)
check('math.fmod(-5,3)', math.fmod(-5, 3), -2)
check('math.fmod(5,-3)', math.fmod(5, -3), 2)
check('math.fmod(mini,-1)', math.fmod(mini, -1), 0)
check('math.fmod(5.5,2)', math.fmod(5.5, 2), 1.5)
if pcall(math.fmod, 1, 0) then report('fmod(1,0) no error') end
check('math.fmod(1,0.0)', math.fmod(1, 0.0), 0/0)
check('math.ult(1,-1)', math.ult(1, -1), true)
check('math.ult(-1,1)', math.ult(-1, 1), false)
check('math.max(1,2.5)', math.max(1, 2.5), 2.5)
check('math.max(3,2.5)', math.max(3, 2.5), 3)
check('math.min(1)', math.min(1), 1)
check('math.tointeger("8")', math.tointeger("8"), nil)
check('math.tointeger(3.0)', math.tointeger(3.0), 3)
check('math.type(1)', math.type(1), 'integer')
check('math.type("1")', math.type("1"), nil)
check('math.sqrt(4)', math.sqrt(4), 2.0)
check('math.huge', math.huge, 1/0)
check('math.pi', math.pi, 3.141592653589793)
check('7 // 2.0', 7 // 2.0, 3.0)
check('tonumber("0x")', tonumber("0x"), nil)
check('tonumber("1e")', tonumber("1e"), nil)
check('tonumber("  0x1p4  ")', tonumber("  0x1p4  "), 16.0)
check('tonumber("10", 2)', tonumber("10", 2), 2)
check('tonumber("zz", 36)', tonumber("zz", 36), 1295)
check('tonumber("8", 8)', tonumber("8", 8), nil)
check('tonumber("-ff", 16)', tonumber("-ff", 16), -255)
check('tonumber("1e1")', tonumber("1e1"), 10.0)
check('tonumber("")', tonumber(""), nil)
check('tonumber("0x.1")', tonumber("0x.1"), 0.0625)
check('tonumber(".5")', tonumber(".5"), 0.5)
check('tonumber("5.")', tonumber("5."), 5.0)
check('tonumber("1 2")', tonumber("1 2"), nil)
check('tonumber("inf")', tonumber("inf"), nil)
check('tonumber("nan")', tonumber("nan"), nil)
check('tonumber("1e+")', tonumber("1e+"), nil)
check('tonumber("0x1P-2")', tonumber("0x1P-2"), 0.25)
check('tonumber("9223372036854775807")', tonumber("9223372036854775807"), maxi)
check('tonumber("9223372036854775808")', tonumber("9223372036854775808"), 2^63)
check('tonumber("-9223372036854775808")', tonumber("-9223372036854775808"), mini)
check('tonumber("0xffffffffffffffff")', tonumber("0xffffffffffffffff"), -1)
check('tonumber("0x1ffffffffffffffff")', tonumber("0x1ffffffffffffffff"), -1)
check('tonumber("1_0")', tonumber("1_0"), nil)
check('tonumber("0b1")', tonumber("0b1"), nil)
check('tonumber("0o7")', tonumber("0o7"), nil)
check('tonumber("1\\0")', tonumber("1\0"), nil)
check('tonumber("\\t1\\n")', tonumber("\t1\n"), 1)
print('bad', bad)
