local function run(path, limits)
  local lines = {}
  local env = setmetatable({print = function(...)
    local r = {} for i = 1, select('#', ...) do r[i] = tostring((select(i, ...))) end
    lines[#lines+1] = table.concat(r, '\t')
  end}, {__index = _G})
  local fh = assert(io.open(path)) local src = fh:read('a') fh:close()
  local fn = assert(load(src, '=p', 't', env))
  local ctx = runtime.callcontext({kill = limits}, fn)
  return ctx, table.concat(lines, '\n'):gsub('0x%x+', 'ADDR')
end
local bad = 0
for _, path in ipairs(arg) do
  local ctx0, out0 = run(path, {memory = 1000000000})
  if ctx0.status == 'done' then
    -- binary search the threshold
    local lo, hi = 1, 1000000000   -- lo killed, hi done
    while hi - lo > 1 do
      local mid = (lo + hi) // 2
      local c = run(path, {memory = mid})
      if c.status == 'done' then hi = mid else lo = mid end
    end
    -- around threshold: everything below killed, everything above done with same output
    for _, d in ipairs{1, 2, 3, 8, 64, 1000} do
      local c, o = run(path, {memory = hi + d})
      if c.status ~= 'done' or o ~= out0 then bad = bad + 1 print(path, 'MEM thr+' .. d, c.status, hi) end
      if lo - d > 0 then
        local c2 = run(path, {memory = lo - d})
        if c2.status ~= 'killed' then bad = bad + 1 print(path, 'MEM thr-' .. d, c2.status, lo) end
      end
    end
    for _, f in ipairs{0.1, 0.3, 0.5, 0.7, 0.9} do
      local c2 = run(path, {memory = math.floor(lo * f) + 1})
      if c2.status ~= 'killed' then bad = bad + 1 print(path, 'MEM frac' .. f, c2.status, lo) end
    end
  else print(path, 'BASE', ctx0.status) end
end
print('bad', bad)
