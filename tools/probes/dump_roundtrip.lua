local function run(fn)
  local lines = {}
  local env = setmetatable({print = function(...)
    local r = {} for i = 1, select('#', ...) do r[i] = tostring((select(i, ...))) end
    lines[#lines+1] = table.concat(r, '\t')
  end}, {__index = _G})
  debug.setupvalue(fn, 1, env)
  local ok, err = pcall(fn)
  lines[#lines+1] = tostring(ok) .. tostring(err)
  return (table.concat(lines, '\n'):gsub('0x%x+', 'ADDR'))
end
local bad = 0
for _, path in ipairs(arg) do
  local fh = assert(io.open(path)) local src = fh:read('a') fh:close()
  local f1 = assert(load(src, '=p', 't'))
  local d = string.dump(f1)
  local f2 = assert(load(d, '=p', 'b'))
  local d2 = string.dump(f2)
  if d ~= d2 then bad = bad + 1 print(path, 'DUMP NOT IDEMPOTENT', #d, #d2) end
  local o1, o2 = run(f1), run(f2)
  if o1 ~= o2 then bad = bad + 1 print(path, 'DIFF') end
  local f3 = assert(load(string.dump(f1, true), '=p', 'b'))
  local o3 = run(f3)
end
print('bad', bad)
