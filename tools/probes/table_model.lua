math.randomseed(tonumber(arg[1]) or 1)
local R = math.random
local function pick(t) return t[R(#t)] end
-- model: list of {key, value} with key normalisation
local function norm(k)
  if math.type(k) == 'float' then
    local i = math.tointeger(k)
    if i then return i end
  end
  return k
end
local keysPool = {1, 2, 3, 4, 5, 6, 7, 8, 9, 10, 16, 17, 31, 32, 33, 64, 100, 0, -1, 1.0, 2.0, 3.0, 2^53, 2^53 + 1 | 0, 1.5, -0.0, 0.0, 1e100, -1e100, 1/0, -1/0,
  "a", "b", "1", "10", "", true, false, math.maxinteger, math.mininteger, 2^63, -2^63, 2^31, 2^31 | 0, {}, print}
local bad = 0
local function report(...) bad = bad + 1 if bad < 30 then print(...) end end
for iter = 1, tonumber(arg[2]) or 2000 do
  local t, model = {}, {}
  local function mget(k) k = norm(k) for _, e in ipairs(model) do if rawequal(e[1], k) or (e[1] == k and math.type(e[1]) == math.type(k)) then return e[2], e end end return nil end
  local function mset(k, v)
    k = norm(k)
    for i, e in ipairs(model) do
      if e[1] == k and type(e[1]) == type(k) and (type(k) ~= 'number' or math.type(e[1]) == math.type(k)) then
        if v == nil then table.remove(model, i) else e[2] = v end
        return
      end
    end
    if v ~= nil then model[#model+1] = {k, v} end
  end
  local nops = R(5, 80)
  for op = 1, nops do
    local k = R(10)
    if k <= 4 then
      local key, v = pick(keysPool), pick{1, "v", true, 2.5, false}
      t[key] = v mset(key, v)
    elseif k <= 6 then
      local key = pick(keysPool)
      t[key] = nil mset(key, nil)
    elseif k == 7 then
      -- sequential fill
      local n = R(1, 20)
      for i = 1, n do t[i] = i mset(i, i) end
    elseif k == 8 then
      local n = #t
      if n > 0 then t[n] = nil mset(n, nil) end
    elseif k == 9 then
      local key = pick(keysPool)
      local a, b = t[key], mget(key)
      if a ~= b then report('GET', iter, tostring(key), math.type(key), a, b) end
    else
      -- delete some keys during traversal
      for kk in pairs(t) do if R(3) == 1 then t[kk] = nil mset(kk, nil) end end
    end
    -- invariants
    local n = #t
    if n < 0 or (n > 0 and t[n] == nil) or t[n + 1] ~= nil then report('BORDER', iter, op, n, tostring(t[n]), tostring(t[n + 1])) end
    -- traversal: every model key exactly once with the right value
    local seen, count = {}, 0
    for kk, vv in pairs(t) do
      count = count + 1
      if count > 10000 then report('PAIRS ENDLESS', iter, op, tostring(kk)) break end
      local mv = mget(kk)
      if mv ~= vv then report('PAIRS value', iter, op, tostring(kk), tostring(vv), tostring(mv)) end
      local id = (math.type(kk) or type(kk)) .. ':' .. tostring(kk)
      if seen[id] then report('PAIRS twice', iter, op, id) end
      seen[id] = true
      if math.type(kk) == 'float' and math.tointeger(kk) then report('FLOAT KEY NOT NORMALISED', iter, op, kk) end
    end
    if count ~= #model then report('PAIRS count', iter, op, count, #model) end
    for _, e in ipairs(model) do if t[e[1]] ~= e[2] then report('MODEL get', iter, op, tostring(e[1]), tostring(t[e[1]]), tostring(e[2])) end end
    if bad > 30 then break end
  end
  if bad > 30 then break end
end
print('bad', bad)
