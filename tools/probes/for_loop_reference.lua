-- reference semantics of the numeric for loop (Lua 5.4 manual 3.3.5 / lvm.c forprep), written with while loops
local maxi, mini = math.maxinteger, math.mininteger
local function forlimit(init, limit, step)
  -- returns skip, ilimit
  if math.type(limit) == 'integer' then
    return (step > 0 and init > limit) or (step < 0 and init < limit), limit
  end
  -- float limit, integer loop
  local fl = limit
  local il = nil
  if fl == fl and fl ~= 1/0 and fl ~= -1/0 then il = step < 0 and math.ceil(fl) or math.floor(fl)
  if math.type(il) ~= 'integer' then il = math.tointeger(il) end end
  if il == nil then
    -- out of integer range
    if fl > 0 then
      if step < 0 then return true end
      il = maxi
    else
      if step > 0 then return true end
      il = mini
    end
  end
  return (step > 0 and init > il) or (step < 0 and init < il), il
end
local function ref(init, limit, step, cap)
  local out = {}
  if math.type(init) == 'integer' and math.type(step) == 'integer' then
    if step == 0 then return 'error' end
    local skip, il = forlimit(init, limit, step)
    if skip then return out end
    -- iteration count as unsigned
    local count
    if step > 0 then
      count = (il - init) -- unsigned
      if step ~= 1 then count = math.ult(count, 0) and 0 or count // step  end
      if step ~= 1 then
        -- unsigned division
        local a = il - init
        if a >= 0 then count = a // step else
          -- a is large unsigned
          count = ((a >> 1) // step) << 1
          local rem = a - count * step
          if math.ult(step - 1, rem) or rem == step then count = count + 1 end
        end
      end
    else
      local a = init - il
      local s = -step
      if step == mini then s = mini end -- 2^63 as unsigned
      if s == 1 then count = a
      elseif a >= 0 and s > 0 then count = a // s
      elseif s == mini then count = (math.ult(a, s) and 0 or 1)
      else
        count = ((a >> 1) // s) << 1
        local rem = a - count * s
        if math.ult(s - 1, rem) then count = count + 1 end
      end
    end
    local i = init
    local n = 0
    while true do
      out[#out+1] = i
      n = n + 1
      if n >= cap then break end
      if count == 0 then break end
      count = count - 1
      i = i + step
    end
    return out
  else
    local finit, flimit, fstep = init + 0.0, limit + 0.0, step + 0.0
    if fstep == 0 then return 'error' end
    local skip
    if 0 < fstep then skip = flimit < finit else skip = finit < flimit end
    if skip then return out end
    local i = finit
    local n = 0
    while true do
      out[#out+1] = i
      n = n + 1
      if n >= cap then break end
      i = i + fstep
      local cont
      if 0 < fstep then cont = i <= flimit else cont = flimit <= i end
      if not cont then break end
    end
    return out
  end
end
local function actual(init, limit, step, cap)
  local out = {}
  local ok, err = pcall(function()
    for i = init, limit, step do
      out[#out+1] = i
      if #out >= cap then break end
    end
  end)
  if not ok then return 'error' end
  return out
end
local function show(v)
  if v == 'error' then return v end
  local r = {}
  for i, x in ipairs(v) do r[i] = (math.type(x) == 'integer' and 'i' or 'f') .. string.format(math.type(x) == 'integer' and '%d' or '%.17g', x) end
  return '#' .. #v .. ' ' .. table.concat(r, ',')
end
local vals = {0, 1, -1, 2, -2, 3, 7, maxi, maxi - 1, maxi - 2, mini, mini + 1, mini + 2, maxi // 2, mini // 2,
  0.0, 1.0, -1.0, 0.5, -0.5, 2.5, 1e308, -1e308, 1/0, -1/0, 0/0, 2^53, 2^63, -2^63, 2^63 + 2048, 9.2233720368547e18, -9.2233720368547e18, 1e100, 0.1, 3.0}
local bad, n = 0, 0
for _, a in ipairs(vals) do for _, b in ipairs(vals) do for _, c in ipairs(vals) do
  n = n + 1
  local r, x = show(ref(a, b, c, 6)), show(actual(a, b, c, 6))
  if r ~= x then
    bad = bad + 1
    if bad <= 100000 then print('for', a, b, c, 'ref', r, 'got', x) end
  end
end end end
print('cases', n, 'bad', bad)
