-- usage: golua mono.lua file...
local function run(path, limits)
  local lines = {}
  local env = setmetatable({print = function(...)
    local r = {} for i = 1, select('#', ...) do r[i] = tostring((select(i, ...))) end
    lines[#lines+1] = table.concat(r, '\t')
  end}, {__index = _G})
  local fh = assert(io.open(path)) local src = fh:read('a') fh:close()
  local fn = assert(load(src, '=p', 't', env))
  local ctx = runtime.callcontext({kill = limits}, fn)
  return ctx, table.concat(lines, '\n'):gsub('0x%x+', 'ADDR')
end
local bad = 0
for _, path in ipairs(arg) do
  local ctx0, out0 = run(path, {cpu = 100000000, memory = 1000000000})
  local u, m = ctx0.used.cpu, ctx0.used.memory
  if ctx0.status ~= 'done' then
    print(path, 'BASE', ctx0.status)
  else
    -- determinism
    local ctx1, out1 = run(path, {cpu = 100000000, memory = 1000000000})
    if ctx1.used.cpu ~= u or out1 ~= out0 then bad = bad + 1 print(path, 'NONDET cpu', u, ctx1.used.cpu, out1 == out0) end
    -- just enough
    for _, d in ipairs{1, 2, 10} do
      local c, o = run(path, {cpu = u + d})
      if c.status ~= 'done' or o ~= out0 then bad = bad + 1 print(path, 'CPU u+' .. d, c.status, c.used.cpu, u) end
    end
    for _, d in ipairs{0, 1, 5} do
      if u - d > 0 then
        local c, o = run(path, {cpu = u - d})
        if c.status ~= 'killed' then bad = bad + 1 print(path, 'CPU u-' .. d, c.status, c.used.cpu, u) end
        if c.used.cpu > u - d then bad = bad + 1 print(path, 'CPU OVER', c.used.cpu, u - d) end
      end
    end
  end
end
print('bad', bad)
