-- usage: golua gen3.lua seed count outdir
math.randomseed(tonumber(arg[1]) or 1)
local R = math.random
local function pick(t) return t[R(#t)] end
local depth = 0
local lab = 0
local names = {"a","b","c","d"}
local function var() return pick(names) end
local expr, block
local function atom()
  local k = R(12)
  if k == 1 then return tostring(R(-5, 20))
  elseif k == 2 then return var()
  elseif k == 3 then return "'" .. pick{"x","yy","10","0x10","1e2"," 5 "} .. "'"
  elseif k == 4 then return pick{"nil","true","false"}
  elseif k == 5 then return "(...)"
  elseif k == 6 then return "select('#', ...)"
  elseif k == 7 then return "{" .. expr() .. ", " .. expr() .. ", ...}"
  elseif k == 8 then return "#t"
  elseif k == 9 then return "t[" .. expr() .. "]"
  elseif k == 10 then return pick{"1.5","2.0","-0.0","1e15","0.1","3 // 0.0", "math.maxinteger", "math.mininteger"}
  elseif k == 11 then return "obj"
  else return "up" end
end
local binops = {"+","-","*","/","//","%","^","..","==","~=","<","<=",">",">=","and","or","&","|","~","<<",">>"}
function expr()
  depth = depth + 1
  local r
  if depth > 4 then r = atom()
  else
    local k = R(14)
    if k <= 3 then r = atom()
    elseif k == 4 or k == 5 then r = "(" .. expr() .. " " .. pick(binops) .. " " .. expr() .. ")"
    elseif k == 6 then r = pick{"-","not ","#","~"} .. "(" .. expr() .. ")"
    elseif k == 7 then r = "(function(...) local " .. var() .. " = " .. expr() .. "; return " .. expr() .. ", ... end)(" .. expr() .. ", " .. expr() .. ")"
    elseif k == 8 then r = "f(" .. expr() .. ")"
    elseif k == 9 then r = "P(pcall(f, " .. expr() .. ", ...))"
    elseif k == 10 then r = "tostring(" .. expr() .. ")"
    elseif k == 11 then r = "obj:m(" .. expr() .. ")"
    elseif k == 12 then r = pick{"math.type","tonumber","type","string.len","math.abs","math.floor","string.upper", "string.byte", "math.tointeger"} .. "(" .. expr() .. ")"
    elseif k == 13 then r = "rec(" .. R(0, 30) .. ", " .. expr() .. ")"
    else r = "string.format(" .. pick{"'%d'","'%5.2f'","'%s'","'%q'","'%x'","'%g'", "'%10s|%-5d'"} .. ", " .. expr() .. ", " .. expr() .. ")" end
  end
  depth = depth - 1
  return r
end
local stat
function block(n)
  local out = {}
  for i = 1, n do out[#out+1] = stat() end
  return table.concat(out, "\n")
end
function stat()
  depth = depth + 1
  local r
  local k = depth > 3 and R(5) or R(19)
  if k == 1 then r = "local " .. var() .. " = " .. expr()
  elseif k == 2 then r = var() .. " = " .. expr()
  elseif k == 3 then r = "t[" .. expr() .. "] = " .. expr()
  elseif k == 4 then r = var() .. ", " .. var() .. " = " .. expr() .. ", " .. expr() .. ", " .. expr()
  elseif k == 5 then r = "out(" .. expr() .. ", " .. expr() .. ")"
  elseif k == 6 then r = "if " .. expr() .. " then\n" .. block(R(2)) .. "\nelseif " .. expr() .. " then\n" .. block(1) .. "\nelse\n" .. block(R(2)) .. "\nend"
  elseif k == 7 then r = "for i = " .. pick{"1","3","-1","1.0"} .. ", " .. pick{"0","3","2.5"} .. pick{"", ", 1", ", -1", ", 2"} .. " do\n" .. block(R(2)) .. "\nfs[#fs+1] = function() up = up + 1; return i, " .. var() .. " end\nend"
  elseif k == 8 then r = "for k, v in ipairs(t) do\n" .. block(R(2)) .. "\nfs[#fs+1] = function() return k, v end\nif " .. expr() .. " then break end\nend"
  elseif k == 9 then r = "do\nlocal x <close> = setmetatable({}, {__close = function(_, e) out('close', e) end})\n" .. block(R(2)) .. "\nend"
  elseif k == 10 then r = "do local n2 = 0\nrepeat\nlocal q = n2\nn2 = n2 + 1\nfs[#fs+1] = function() return q end\n" .. block(1) .. "\nuntil q >= " .. R(0,2) .. " end"
  elseif k == 11 then lab = lab + 1; local L = "top" .. lab; r = "do\nlocal i = 0\n::" .. L .. "::\ni = i + 1\n" .. block(1) .. "\nif i < " .. R(1,3) .. " then goto " .. L .. " end\nend"
  elseif k == 12 then r = "local function " .. var() .. "(...)\n" .. block(R(2)) .. "\nreturn " .. expr() .. ", ...\nend"
  elseif k == 13 then r = "do local co = coroutine.wrap(function(...)\n" .. block(1) .. "\nout('y', coroutine.yield(" .. expr() .. "))\n" .. block(1) .. "\nreturn ...\nend)\nout(pcall(co, " .. expr() .. "))\n" .. pick{"out(pcall(co, 7))", "", "out(pcall(co, 7)) out(pcall(co))"} .. " end"
  elseif k == 14 then r = "while n < 50 do\nn = n + 1\n" .. block(1) .. "\nif " .. expr() .. " then break end\nend"
  elseif k == 15 then r = "out(pcall(function(...)\n" .. block(R(3)) .. "\nreturn " .. expr() .. "\nend, " .. expr() .. "))"
  elseif k == 16 then r = "out(select(" .. pick{"'#'", "1", "2", "-1"} .. ", " .. expr() .. ", f(" .. expr() .. ", " .. expr() .. ")))"
  elseif k == 17 then r = "error(" .. expr() .. ")"
  elseif k == 18 then r = "do return " .. pick{"f(" .. expr() .. ")", "rec(" .. R(0,50) .. ", " .. expr() .. ")", expr()} .. " end"
  else r = "f(" .. expr() .. ", " .. expr() .. ")" end
  depth = depth - 1
  return r
end
local header = [[
local function fmt(v)
  local ty = type(v)
  if ty == 'number' then
    if math.type(v) == 'integer' then return 'i' .. tostring(v) end
    return 'f' .. string.format('%.14g', v)
  elseif ty == 'string' then return 's' .. v
  elseif ty == 'table' or ty == 'function' or ty == 'thread' or ty == 'userdata' then return ty
  else return tostring(v) end
end
local function out(...)
  local r = {}
  for i = 1, select('#', ...) do r[i] = fmt((select(i, ...))) end
  print(table.concat(r, ' '))
end
local function P(ok, ...) if ok then return ... end return 'ERR' end
local up = 0
local a, b, c, d = 1, 's', nil, 2.5
local t, fs, n = {1, 2, 3, x = 1}, {}, 0
local function f(...) return ... end
local function rec(k, v) if k <= 0 then return v end if k % 3 == 0 then return rec(k - 1, v) end return (rec(k - 1, v)) end
local obj = setmetatable({v = 3}, {
  __index = function(_, k) return k end,
  __add = function(x, y) return 100 end, __concat = function(x, y) return 'cat' end,
  __call = function(self, x) return x end, __len = function() return 42 end,
  __eq = function() return true end, __lt = function() return true end, __le = function() return false end,
  __unm = function() return 'neg' end, __tostring = function() return 'OBJ' end, __name = 'Obj'})
rawset(obj, 'm', function(self, x) return self.v, x end)
local function main(...)
]]
local footer = [[
end
out('result', pcall(main, 1, 'two', 3.0))
for i, g in ipairs(fs) do if i > 20 then break end out('fs', i, pcall(g)) end
out('end', n, up, #t)
]]
local N = tonumber(arg[2]) or 100
for i = 1, N do
  depth = 0
  local src = header .. block(R(3, 8)) .. "\n" .. footer
  local fh = assert(io.open(arg[3] .. "/p" .. i .. ".lua", "w"))
  fh:write(src) fh:close()
end
print("generated", N)
