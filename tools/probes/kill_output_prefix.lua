local function run(path, limits)
  local lines = {}
  local env = setmetatable({print = function(...)
    local r = {} for i = 1, select('#', ...) do r[i] = tostring((select(i, ...))) end
    lines[#lines+1] = table.concat(r, '\t')
  end}, {__index = _G})
  local fh = assert(io.open(path)) local src = fh:read('a') fh:close()
  local fn = assert(load(src, '=p', 't', env))
  local ctx = runtime.callcontext({kill = limits}, fn)
  return ctx, (table.concat(lines, '\n'):gsub('0x%x+', 'ADDR'))
end
local bad, n = 0, 0
for _, path in ipairs(arg) do
  local ctx0, out0 = run(path, {cpu = 100000000})
  local u = ctx0.used.cpu
  if ctx0.status == 'done' then
    for _, f in ipairs{0.05, 0.1, 0.2, 0.3, 0.4, 0.5, 0.6, 0.7, 0.8, 0.9, 0.95, 0.99} do
      local L = math.floor(u * f) + 1
      local c, o = run(path, {cpu = L})
      n = n + 1
      if c.status ~= 'killed' then bad = bad + 1 print(path, 'NOTKILLED', L, u, c.status)
      elseif out0:sub(1, #o) ~= o then bad = bad + 1 print(path, 'NOT-PREFIX at L=' .. L, #o, #out0) end
    end
  end
end
print('runs', n, 'bad', bad)
