math.randomseed(tonumber(arg[1]) or 1)
local R = math.random
local function pick(t) return t[R(#t)] end
local bad = 0
local function report(...) bad = bad + 1 if bad < 40 then print(...) end end
local function bytes(s) local t = {} for i = 1, #s do t[i] = s:byte(i) end return t end
local function frombytes(t, i, j) local r = {} for k = i, j do r[#r+1] = string.char(t[k]) end return table.concat(r) end
-- reference sub per the manual
local function refsub(s, i, j)
  local l = #s
  if i < 0 then i = math.max(l + i + 1, 1) elseif i == 0 then i = 1 end
  if j < 0 then j = l + j + 1 elseif j > l then j = l end
  if i > j then return "" end
  return frombytes(bytes(s), i, j)
end
local function reffind(s, p, init)
  local l = #s
  if init < 0 then init = math.max(l + init + 1, 1) elseif init == 0 then init = 1 end
  if init > l + 1 then return nil end
  if #p == 0 then return init, init - 1 end
  for st = init, l - #p + 1 do
    local ok = true
    for k = 1, #p do if s:byte(st + k - 1) ~= p:byte(k) then ok = false break end end
    if ok then return st, st + #p - 1 end
  end
  return nil
end
local idx = {0, 1, -1, 2, -2, 3, 5, -5, 10, -10, 100, -100, math.maxinteger, math.mininteger, math.maxinteger - 1, math.mininteger + 1}
local strs = {"", "a", "ab", "hello world", "aaa", "abcabcabc", "x\0y\0z", ("ab"):rep(20), "\255\254", " pad "}
for iter = 1, tonumber(arg[2]) or 50000 do
  local s = pick(strs)
  local i, j = pick(idx), pick(idx)
  local k = R(8)
  if k == 1 then
    local a, b = s:sub(i, j), refsub(s, i, j)
    if a ~= b then report('sub', ('%q'):format(s), i, j, ('%q'):format(a), ('%q'):format(b)) end
    local a2, b2 = s:sub(i), refsub(s, i, -1)
    if a2 ~= b2 then report('sub1', ('%q'):format(s), i, ('%q'):format(a2), ('%q'):format(b2)) end
  elseif k == 2 then
    local p = pick{"", "a", "ab", "o w", "abc", "\0", "z", "aa", "b"}
    local a1, a2 = s:find(p, i, true)
    local b1, b2 = reffind(s, p, i)
    if a1 ~= b1 or a2 ~= b2 then report('find plain', ('%q'):format(s), ('%q'):format(p), i, a1, a2, b1, b2) end
  elseif k == 3 then
    local got = table.pack(pcall(string.byte, s, i, j))
    local l = #s
    local ii, jj = i, j
    if ii < 0 then ii = math.max(l + ii + 1, 1) elseif ii == 0 then ii = 1 end
    if jj < 0 then jj = l + jj + 1 elseif jj > l then jj = l end
    local exp = {}
    for q = ii, jj do exp[#exp+1] = s:sub(q, q):byte() if #exp > 300 then break end end
    if not got[1] then report('byte error', ('%q'):format(s), i, j, got[2])
    elseif got.n - 1 ~= #exp then report('byte count', ('%q'):format(s), i, j, got.n - 1, #exp)
    else for q = 1, #exp do if got[q + 1] ~= exp[q] then report('byte val', ('%q'):format(s), i, j, q) end end end
  elseif k == 4 then
    local n = pick{0, 1, 2, 3, 10}
    local sep = pick{"", ",", "--"}
    local a = s:rep(n, sep)
    local parts = {}
    for q = 1, n do parts[q] = s end
    local b = table.concat(parts, sep)
    if a ~= b then report('rep', ('%q'):format(s), n, ('%q'):format(sep), #a, #b) end
  elseif k == 5 then
    local r = s:reverse()
    local t = bytes(s) local o = {}
    for q = #t, 1, -1 do o[#o+1] = string.char(t[q]) end
    if r ~= table.concat(o) then report('reverse', ('%q'):format(s)) end
    if s:upper():lower() ~= s:lower() then report('upper/lower', ('%q'):format(s)) end
    if #s:upper() ~= #s then report('upper len') end
  elseif k == 6 then
    -- table.concat / unpack / insert / remove on small arrays against a model
    local t, m = {}, {}
    for q = 1, R(0, 6) do t[q] = q * 10 m[q] = q * 10 end
    for step = 1, R(1, 6) do
      local op = R(4)
      if op == 1 then
        local pos = R(1, #m + 1) local v = R(100)
        table.insert(t, pos, v) table.insert(m, pos, v)  -- same impl: check invariants instead
      elseif op == 2 and #m > 0 then
        local pos = R(1, #m)
        local a = table.remove(t, pos)
        local b = m[pos] for q = pos, #m do m[q] = m[q + 1] end
        if a ~= b then report('remove', pos, a, b) end
      elseif op == 3 then
        local a = table.concat(t, ",", 1, #t)
        local parts = {} for q = 1, #t do parts[q] = tostring(t[q]) end
        local b = "" for q = 1, #parts do b = b .. parts[q] .. (q < #parts and "," or "") end
        if a ~= b then report('concat', a, b) end
      else
        local n0 = #m
        local f, e, d = R(1, n0 + 1), R(0, n0), R(1, n0 + 2)
        local snap = {} for q = 1, n0 do snap[q] = t[q] end
        local exp = {} for q = 1, n0 do exp[q] = snap[q] end
        if e >= f then for q = 0, e - f do exp[d + q] = snap[f + q] end end
        table.move(t, f, e, d)
        local top = n0 + (e >= f and (e - f + 1) or 0) + 3
        for q = 1, top do if t[q] ~= exp[q] then report('move', n0, f, e, d, q, t[q], exp[q]) break end end
        -- restart with a clean sequence
        t, m = {}, {}
        for q = 1, R(0, 6) do t[q] = q * 7 m[q] = q * 7 end
      end
      if #t ~= #m then report('len after op', op, #t, #m) break end
      for q = 1, #m do if t[q] ~= m[q] then report('model mismatch', op, q, t[q], m[q]) break end end
    end
  elseif k == 7 then
    -- sort: result is sorted permutation
    local t = {} for q = 1, R(0, 40) do t[q] = pick{R(10), R(1000), -R(5), 0.5, 1e10} end
    local cnt = {} for _, v in ipairs(t) do cnt[v] = (cnt[v] or 0) + 1 end
    local desc = R(2) == 1
    if desc then table.sort(t, function(a, b) return a > b end) else table.sort(t) end
    for q = 2, #t do if (desc and t[q - 1] < t[q]) or (not desc and t[q - 1] > t[q]) then report('sort order', q) break end end
    for _, v in ipairs(t) do cnt[v] = cnt[v] - 1 end
    for v, c in pairs(cnt) do if c ~= 0 then report('sort perm', v, c) end end
  else
    -- tostring/tonumber on integers and simple floats; string comparison
    local a, b = pick(strs), pick(strs)
    local lt = a < b
    local ref
    do
      local la, lb = #a, #b
      ref = nil
      for q = 1, math.min(la, lb) do
        local x, y = a:byte(q), b:byte(q)
        if x ~= y then ref = x < y break end
      end
      if ref == nil then ref = la < lb end
    end
    if lt ~= ref then report('string <', ('%q'):format(a), ('%q'):format(b), lt, ref) end
    if (a <= b) ~= (ref or a == b) then report('string <=', ('%q'):format(a), ('%q'):format(b)) end
  end
end
print('bad', bad)
