math.randomseed(tonumber(arg[1]) or 1)
local R = math.random
local nextId = 0
local function id() nextId = nextId + 1 return nextId end
local gen
local function genBlock(ctx, depth, n)
  local b = {}
  for i = 1, n do b[#b+1] = gen(ctx, depth) end
  return b
end
function gen(ctx, depth)
  local k = depth > 4 and R(4) or R(12)
  if k == 1 then return {t='log', id=id()}
  elseif k == 2 or k == 3 then return {t='close', id=id(), failing = R(6) == 1}
  elseif k == 4 then
    local opts = {'error'}
    if ctx.canBreak then opts[#opts+1] = 'break' end
    if #ctx.labels > 0 then opts[#opts+1] = 'exit' end
    opts[#opts+1] = 'ret'
    local o = opts[R(#opts)]
    if R(3) > 1 then return {t='log', id=id()} end -- keep abrupt exits rarer
    if o == 'error' then return {t='error', id=id()}
    elseif o == 'break' then return {t='break'}
    elseif o == 'exit' then return {t='exit', label=ctx.labels[R(#ctx.labels)]}
    else return {t='ret', id=id()} end
  elseif k == 5 or k == 6 then return {t='do', body=genBlock(ctx, depth+1, R(1,4))}
  elseif k == 7 then
    local c2 = {canBreak=true, labels=ctx.labels}
    return {t='loop', n=R(1,3), body=genBlock(c2, depth+1, R(1,4))}
  elseif k == 8 or k == 9 then
    local c2 = {canBreak=false, labels={}}
    return {t='pcall', body=genBlock(c2, depth+1, R(1,5))}
  elseif k == 10 then
    local L = 'L' .. id()
    local labels = {table.unpack(ctx.labels)} labels[#labels+1] = L
    return {t='labelled', label=L, body=genBlock({canBreak=ctx.canBreak, labels=labels}, depth+1, R(1,4))}
  elseif k == 11 then
    local c2 = {canBreak=false, labels={}}
    return {t='coro', body1=genBlock(c2, depth+1, R(1,3)), body2=genBlock(c2, depth+1, R(1,3)), finish=R(3)}
  else return {t='log', id=id()} end
end
-- emit
local function emitBlock(b, out, ind)
  for _, s in ipairs(b) do
    if s.t == 'log' then out[#out+1] = ind .. "log('s" .. s.id .. "')"
    elseif s.t == 'close' then out[#out+1] = ind .. "local v" .. s.id .. " <close> = mk(" .. s.id .. ", " .. tostring(s.failing) .. ")"
    elseif s.t == 'error' then out[#out+1] = ind .. "if T then error('E" .. s.id .. "', 0) end"
    elseif s.t == 'break' then out[#out+1] = ind .. "if T then break end"
    elseif s.t == 'exit' then out[#out+1] = ind .. "if T then goto " .. s.label .. " end"
    elseif s.t == 'ret' then out[#out+1] = ind .. "if T then return 'R" .. s.id .. "' end"
    elseif s.t == 'do' then out[#out+1] = ind .. "do" emitBlock(s.body, out, ind .. "  ") out[#out+1] = ind .. "end"
    elseif s.t == 'loop' then out[#out+1] = ind .. "for i = 1, " .. s.n .. " do" emitBlock(s.body, out, ind .. "  ") out[#out+1] = ind .. "end"
    elseif s.t == 'pcall' then out[#out+1] = ind .. "log('pcall', pcall(function()" emitBlock(s.body, out, ind .. "  ") out[#out+1] = ind .. "end))"
    elseif s.t == 'labelled' then out[#out+1] = ind .. "do" emitBlock(s.body, out, ind .. "  ") out[#out+1] = ind .. "end" out[#out+1] = ind .. "::" .. s.label .. "::"
    elseif s.t == 'coro' then
      out[#out+1] = ind .. "do local co = coroutine.create(function()"
      emitBlock(s.body1, out, ind .. "  ")
      out[#out+1] = ind .. "  coroutine.yield('Y')"
      emitBlock(s.body2, out, ind .. "  ")
      out[#out+1] = ind .. "end)"
      out[#out+1] = ind .. "local ok, v = coroutine.resume(co) log('resume1', ok, v)"
      if s.finish == 1 then out[#out+1] = ind .. "if coroutine.status(co) == 'suspended' then log('resume2', coroutine.resume(co)) end"
      elseif s.finish == 2 then out[#out+1] = ind .. "if coroutine.status(co) == 'suspended' then log('closeco', coroutine.close(co)) end"
      else out[#out+1] = ind .. "log('abandon')" end
      out[#out+1] = ind .. "end"
    end
  end
end
-- simulate
local LOG
local function slog(...) local r = {} for i = 1, select('#', ...) do r[i] = tostring((select(i, ...))) end LOG[#LOG+1] = table.concat(r, ' ') end
local runBlock
local function execStmt(s, tbc)
  if s.t == 'log' then slog('s' .. s.id)
  elseif s.t == 'close' then slog('open ' .. s.id) tbc[#tbc+1] = s
  elseif s.t == 'error' then error({kind='error', val='E' .. s.id}, 0)
  elseif s.t == 'break' then error({kind='break'}, 0)
  elseif s.t == 'exit' then error({kind='exit', label=s.label}, 0)
  elseif s.t == 'ret' then error({kind='return', val='R' .. s.id}, 0)
  elseif s.t == 'do' then runBlock(s.body)
  elseif s.t == 'loop' then
    for i = 1, s.n do
      local ok, sig = pcall(runBlock, s.body)
      if not ok then
        if sig.kind == 'break' then break end
        error(sig, 0)
      end
    end
  elseif s.t == 'pcall' then
    local ok, sig = pcall(runBlock, s.body)
    if ok then slog('pcall', true)
    elseif sig.kind == 'return' then slog('pcall', true, sig.val)
    elseif sig.kind == 'error' then slog('pcall', false, sig.val)
    else error('generator bug: ' .. tostring(sig.kind)) end
  elseif s.t == 'labelled' then
    local ok, sig = pcall(runBlock, s.body)
    if not ok and not (sig.kind == 'exit' and sig.label == s.label) then error(sig, 0) end
  elseif s.t == 'coro' then
    -- the coroutine body is one function scope: body1, yield, body2
    local tbcC = {}
    local function closeAll(err, ok, sig)
      for i = #tbcC, 1, -1 do
        local c = tbcC[i]
        slog('close ' .. c.id .. ' ' .. tostring(err))
        if c.failing then err = 'CE' .. c.id ok = false sig = {kind='error', val=err} end
      end
      return ok, sig
    end
    local function phase(body)
      local ok, sig = pcall(function() for _, st in ipairs(body) do execStmt(st, tbcC) end end)
      return ok, sig
    end
    local ok, sig = phase(s.body1)
    if not ok then
      ok, sig = closeAll(sig.kind == 'error' and sig.val or nil, ok, sig)
      if sig.kind == 'error' then slog('resume1', false, sig.val) else slog('resume1', true, sig.val) end
      if s.finish == 3 then slog('abandon') end
      return
    end
    slog('resume1', true, 'Y')
    if s.finish == 1 then
      local ok2, sig2 = phase(s.body2)
      ok2, sig2 = closeAll((not ok2 and sig2.kind == 'error') and sig2.val or nil, ok2, sig2)
      if ok2 then slog('resume2', true) elseif sig2.kind == 'error' then slog('resume2', false, sig2.val) else slog('resume2', true, sig2.val) end
    elseif s.finish == 2 then
      local ok2, sig2 = closeAll(nil, true, nil)
      if ok2 then slog('closeco', true) else slog('closeco', false, sig2.val) end
    else slog('abandon') end
  end
end
function runBlock(b)
  local tbc = {}
  local ok, sig = pcall(function() for _, s in ipairs(b) do execStmt(s, tbc) end end)
  if not ok and type(sig) ~= 'table' then error(sig, 0) end
  local err = (not ok and sig.kind == 'error') and sig.val or nil
  for i = #tbc, 1, -1 do
    local c = tbc[i]
    slog('close ' .. c.id .. ' ' .. tostring(err))
    if c.failing then err = 'CE' .. c.id ok = false sig = {kind='error', val=err} end
  end
  if not ok then error(sig, 0) end
end
local bad = 0
local N = tonumber(arg[2]) or 500
for iter = 1, N do
  nextId = 0
  local ast = genBlock({canBreak=false, labels={}}, 0, R(2, 6))
  local out = {}
  emitBlock(ast, out, "  ")
  local src = [[
local LOG, T = {}, true
local function log(...) local r = {} for i = 1, select('#', ...) do r[i] = tostring((select(i, ...))) end LOG[#LOG+1] = table.concat(r, ' ') end
local function mk(id, failing)
  log('open ' .. id)
  return setmetatable({}, {__close = function(_, e) log('close ' .. id .. ' ' .. tostring(e)) if failing then error('CE' .. id, 0) end end})
end
local function main()
]] .. table.concat(out, "\n") .. [[

end
log('main', pcall(main))
return LOG
]]
  local fn, err = load(src, '=gen', 't')
  if not fn then
    -- e.g. goto jumps into the scope of a local: skip
    if not tostring(err):find('jumps into the scope') then bad = bad + 1 print('LOADERR', err) print(src) end
  else
    LOG = {}
    local ok, sig = pcall(runBlock, ast)
    if ok then slog('main', true) elseif type(sig) ~= 'table' then error(sig) elseif sig.kind == 'return' then slog('main', true, sig.val) elseif sig.kind == 'error' then slog('main', false, sig.val) else error('generator bug top ' .. sig.kind) end
    local expected = table.concat(LOG, '\n')
    local got = table.concat(fn(), '\n')
    if got ~= expected then
      bad = bad + 1
      if bad <= 3 then print('MISMATCH iter', iter) print(src) print('--- expected') print(expected) print('--- got') print(got) end
    end
  end
end
print('programs', N, 'bad', bad)
