math.randomseed(tonumber(arg and arg[1]) or 1)
local R = math.random
local depth = 0
local vars = {"a","b","c","d","e"}
local function var() return vars[R(#vars)] end
local expr
local function atom()
  local k = R(9)
  if k == 1 then return tostring(R(-3, 10))
  elseif k == 2 then return var()
  elseif k == 3 then return "'s" .. R(3) .. "'"
  elseif k == 4 then return "nil"
  elseif k == 5 then return "(...)"
  elseif k == 6 then return "select('#', ...)"
  elseif k == 7 then return "{" .. expr() .. ", " .. expr() .. ", ...}"
  elseif k == 8 then return "#t"
  else return "t[" .. expr() .. "]" end
end
function expr()
  depth = depth + 1
  local r
  if depth > 4 then r = atom()
  else
    local k = R(10)
    if k <= 3 then r = atom()
    elseif k == 4 then r = "(" .. expr() .. " " .. ({"+","-","*","//","%","..","==","<","and","or","&","|"})[R(12)] .. " " .. expr() .. ")"
    elseif k == 5 then r = "-(" .. expr() .. ")"
    elseif k == 6 then r = "not " .. expr()
    elseif k == 7 then r = "(function(...) local " .. var() .. " = " .. expr() .. "; return " .. expr() .. ", ... end)(" .. expr() .. ", " .. expr() .. ")"
    elseif k == 8 then r = "f(" .. expr() .. ")"
    elseif k == 9 then r = "pcall(f, " .. expr() .. ", ...)"
    else r = "tostring(" .. expr() .. ")" end
  end
  depth = depth - 1
  return r
end
local stat
local function block(n)
  local out = {}
  for i = 1, n do out[#out+1] = stat() end
  return table.concat(out, "\n")
end
function stat()
  depth = depth + 1
  local r
  local k = depth > 3 and R(4) or R(14)
  if k == 1 then r = "local " .. var() .. " = " .. expr()
  elseif k == 2 then r = var() .. " = " .. expr()
  elseif k == 3 then r = "t[" .. expr() .. "] = " .. expr()
  elseif k == 4 then r = var() .. ", " .. var() .. " = " .. expr() .. ", " .. expr() .. ", " .. expr()
  elseif k == 5 then r = "if " .. expr() .. " then\n" .. block(R(2)) .. "\nelse\n" .. block(R(2)) .. "\nend"
  elseif k == 6 then r = "for i = 1, " .. R(0,3) .. " do\n" .. block(R(2)) .. "\nfs[#fs+1] = function() return i, " .. var() .. " end\nend"
  elseif k == 7 then r = "for k, v in pairs(t) do\n" .. block(R(2)) .. "\nif " .. expr() .. " then break end\nend"
  elseif k == 8 then r = "do\nlocal x <close> = setmetatable({}, {__close = function() n = n + 1 end})\n" .. block(R(2)) .. "\nend"
  elseif k == 9 then r = "local n2 = 0\nrepeat\nlocal q = n2\nn2 = n2 + 1\n" .. block(1) .. "\nuntil q >= " .. R(0,2)
  elseif k == 10 then r = "do\nlocal i = 0\n::top::\ni = i + 1\n" .. block(1) .. "\nif i < " .. R(1,3) .. " then goto top end\nend"
  elseif k == 11 then r = "local function " .. var() .. "(...)\n" .. block(R(2)) .. "\nreturn " .. expr() .. ", ...\nend"
  elseif k == 12 then r = "local co = coroutine.wrap(function(...)\n" .. block(1) .. "\ncoroutine.yield(" .. expr() .. ")\nreturn ...\nend)\npcall(co, " .. expr() .. ")\npcall(co)"
  elseif k == 13 then r = "while n < 50 do\nn = n + 1\n" .. block(1) .. "\nif " .. expr() .. " then break end\nend"
  else r = "f(" .. expr() .. ", " .. expr() .. ")" end
  depth = depth - 1
  return r
end
local header = "local a, b, c, d, e = 1, 's', nil, 2.5, {}\nlocal t, fs, n = {1, 2, 3, x = 1}, {}, 0\nlocal function f(...) return ... end\n"
local N = tonumber(arg and arg[2]) or 200
for i = 1, N do
  depth = 0
  local src = header .. block(R(3, 7)) .. "\nfor _, g in ipairs(fs) do pcall(g) end\nreturn n"
  io.stderr:write("-- program ", i, "\n", src, "\n")
  local fn, err = load(src, "p" .. i, "t")
  if fn then
    local ctx = runtime.callcontext({kill={cpu=2000000, memory=50000000}}, function() return pcall(fn, 1, 2, 3) end)
  end
end
print("done", N)
