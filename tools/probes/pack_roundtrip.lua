math.randomseed(tonumber(arg[1]) or 1)
local R = math.random
local function pick(t) return t[R(#t)] end
local maxi, mini = math.maxinteger, math.mininteger
local function rint(bits, signed)
  if bits >= 64 then
    local v = pick{0, 1, -1, maxi, mini, maxi - 1, mini + 1, R(mini, maxi)}
    if not signed and v < 0 then return v end -- as unsigned 64: any pattern fits
    return v
  end
  if signed then
    local lo, hi = -(1 << (bits - 1)), (1 << (bits - 1)) - 1
    return pick{0, 1, -1, lo, hi, lo + 1, hi - 1, R(lo, hi)}
  else
    local hi = (1 << bits) - 1
    return pick{0, 1, hi, hi - 1, R(0, hi)}
  end
end
local bad, n = 0, 0
local function report(...) bad = bad + 1 if bad < 40 then print(...) end end
for iter = 1, tonumber(arg[2]) or 20000 do
  local parts, vals = {}, {}
  parts[#parts+1] = pick{"", "<", ">", "="}
  if R(3) == 1 then parts[#parts+1] = "!" .. pick{"", "1", "2", "4", "8", "16"} end
  for j = 1, R(1, 6) do
    local k = R(16)
    if k == 1 then parts[#parts+1] = "b" vals[#vals+1] = rint(8, true)
    elseif k == 2 then parts[#parts+1] = "B" vals[#vals+1] = rint(8, false)
    elseif k == 3 then parts[#parts+1] = "h" vals[#vals+1] = rint(16, true)
    elseif k == 4 then parts[#parts+1] = "H" vals[#vals+1] = rint(16, false)
    elseif k == 5 then local sz = R(1, 16) parts[#parts+1] = "i" .. sz vals[#vals+1] = rint(math.min(sz * 8, 64), true)
    elseif k == 6 then local sz = R(1, 16) parts[#parts+1] = "I" .. sz local v = rint(math.min(sz * 8, 64), false) if sz > 8 and v < 0 then v = v & maxi end vals[#vals+1] = v
    elseif k == 7 then parts[#parts+1] = "j" vals[#vals+1] = rint(64, true)
    elseif k == 8 then parts[#parts+1] = "d" vals[#vals+1] = pick{0.0, 1.5, -2.25, 1e300, 1/0, -1/0, 5e-324}
    elseif k == 9 then parts[#parts+1] = "f" vals[#vals+1] = pick{0.0, 1.5, -2.25, 1/0, -0.5}
    elseif k == 10 then parts[#parts+1] = "z" vals[#vals+1] = pick{"", "a", "hello", ("x"):rep(R(0, 40))}
    elseif k == 11 then local sz = pick{"", "1", "2", "4", "8"} parts[#parts+1] = "s" .. sz vals[#vals+1] = pick{"", "a\0b", "hello", ("y"):rep(R(0, 200))}
    elseif k == 12 then local sz = R(0, 10) parts[#parts+1] = "c" .. sz vals[#vals+1] = ("q"):rep(sz)
    elseif k == 13 then parts[#parts+1] = "x"
    elseif k == 14 then parts[#parts+1] = "X" .. pick{"i4", "i8", "h", "d", "i2"}
    elseif k == 15 then parts[#parts+1] = " "
    else parts[#parts+1] = pick{"<", ">", "="} end
  end
  local fmt = table.concat(parts)
  local ok, packed = pcall(string.pack, fmt, table.unpack(vals))
  n = n + 1
  if ok then OKP = (OKP or 0) + 1
    local res = table.pack(pcall(string.unpack, fmt, packed))
    if not res[1] then report('UNPACK FAILS', fmt, res[2])
    else
      if res.n - 2 ~= #vals then report('COUNT', fmt, res.n - 2, #vals) end
      for i = 1, #vals do
        local a, b = vals[i], res[i + 1]
        if a ~= b and not (a ~= a and b ~= b) then
          -- I<n> unsigned with n<8 reads back non-negative; rint unsigned gives non-negative already
          report('VALUE', fmt, i, a, b)
        end
      end
      if res[res.n] ~= #packed + 1 then report('NEXTPOS', fmt, res[res.n], #packed + 1) end
      -- packsize agreement for fixed formats
      if not fmt:find("[sz]") then
        local ok2, sz = pcall(string.packsize, fmt)
        if not ok2 then report('PACKSIZE FAILS', fmt, sz) elseif sz ~= #packed then report('PACKSIZE', fmt, sz, #packed) end
      end
      -- unpack at offset: prefix with junk and unpack from init (no alignment dependence only when no '!')
      if not fmt:find("!") and not fmt:find("X") then
        local res2 = table.pack(pcall(string.unpack, fmt, "JUNK" .. packed, 5))
        if not res2[1] then report('UNPACK@5 FAILS', fmt, res2[2])
        else for i = 1, #vals do if vals[i] ~= res2[i + 1] then report('VALUE@5', fmt, i, vals[i], res2[i + 1]) end end end
      end
    end
  else
    -- pack refused: should be a sensible reason
    local msg = tostring(packed)
    if not (msg:find("overflow") or msg:find("does not fit") or msg:find("out of limits") or msg:find("power of 2") or msg:find("contains zeros") or msg:find("longer than") or msg:find("wrong length") or msg:find("invalid") or msg:find("too large") or msg:find("missing size") or msg:find("expected") or msg:find("fit")) then
      report('PACK ERR?', fmt, msg)
    end
  end
end
print("cases", n, "bad", bad, "okpacks", OKP)
