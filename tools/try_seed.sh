#!/bin/sh
# usage: try_seed.sh <patch.diff> <Cxx> [more props...]
# Applies a seeded regression to /repo, runs the named checks, and undoes it.
patch="$1"; shift
export LUAVERIF_EVIDENCE=$(mktemp -d /tmp/luaverif-ev-XXXXXX)   # keep /verif/evidence for runs on the committed tree
trap 'rm -rf "$LUAVERIF_EVIDENCE"' EXIT
cd /repo || exit 2
if [ -n "$(git status --porcelain)" ]; then echo "repo not clean"; exit 2; fi
git apply "$patch" || { echo "PATCH DOES NOT APPLY"; exit 3; }
for p in "$@"; do
  echo "--- $p with $(basename $(dirname $patch))/$(basename $patch)"
  sh /verif/run.sh "$p" quick > /tmp/try_seed.out 2>&1; rc=$?
  grep -v '^    ' /tmp/try_seed.out | cut -c1-260 | tail -12
  echo "exit=$rc"
done
git -C /repo checkout -- . && git -C /repo clean -fdq
