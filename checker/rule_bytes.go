package main

import (
	"fmt"
	"go/token"
	"go/types"
	"strings"

	"golang.org/x/tools/go/ssa"
)

func init() {
	registerRule("R-BYTES", false, ruleBytes)
	registerRule("R-REBASE", false, ruleRebase)
}

// unicodeAware: standard-library functions that interpret a string as UTF-8 text.
func unicodeAware(name string) bool {
	switch name {
	case "strings.ToUpper", "strings.ToLower", "strings.ToTitle", "strings.Title", "strings.EqualFold",
		"strings.ToValidUTF8", "strings.ToUpperSpecial", "strings.ToLowerSpecial", "strings.Map", "strings.Fields",
		"strings.TrimSpace", "strings.IndexRune", "strings.IndexFunc", "strings.FieldsFunc",
		"bytes.ToUpper", "bytes.ToLower", "bytes.ToTitle", "bytes.Title", "bytes.EqualFold", "bytes.Map",
		"bytes.Runes", "bytes.TrimSpace", "bytes.Fields":
		return true
	}
	return strings.HasPrefix(name, "unicode.") || strings.HasPrefix(name, "unicode/utf8.") || strings.HasPrefix(name, "unicode/utf16.")
}

// bytesTable: accepted uses, one reason each.
var bytesTable = map[string]string{
	"luastrings.Quote:unicode.IsGraphic": "applied to one byte widened to a rune (Latin-1 range), never to decoded text: it only decides whether the byte is written raw or as an escape in a message",
}

func ruleBytes(c *Ctx) *RuleResult {
	r := newResult("R-BYTES", "Lua strings are byte strings: the functions of lib/stringlib (pattern matcher included), lib/tablelib, luastrings other than the utf8 helpers, and the literal decoders and the utf8 library (ast, scanner, parsing, lib/utf8lib — whose \\u{...} escapes and utf8.char go up to 2^31 and include surrogates, which Go's encoders replace by U+FFFD) never interpret or produce text through Go's Unicode-aware routines — no call to a Unicode-aware standard-library function (strings.ToUpper/ToLower/Title/EqualFold/Map/TrimSpace/Fields..., bytes.*, unicode.*, unicode/utf8.*), no `range` over a string, no conversion between string and []rune — except for the table-listed uses; such an operation changes or drops bytes that are not valid UTF-8 (string.upper('\\xff') became three bytes) and treats non-ASCII letters in a way the C locale does not")
	p := c.P
	nf, nsites := 0, 0
	for _, f := range p.ModFuncs() {
		rel := relPkg(funcPkgPath(f))
		if f.Blocks == nil || f.Synthetic != "" {
			continue
		}
		if !(strings.HasPrefix(rel, "lib/stringlib") || rel == "lib/tablelib" || rel == "luastrings" || rel == "lib/utf8lib" || rel == "ast" || rel == "scanner" || rel == "parsing") {
			continue
		}
		if rel == "luastrings" && strings.Contains(p.Pos(f.Pos()), "utf8.go") {
			continue // the decoding helpers behind the utf8 library
		}
		// in the decoders and the utf8 library reading text is their job; what they must
		// not do is *produce* bytes through Go's encoders, which sanitise
		producersOnly := rel == "lib/utf8lib" || rel == "ast" || rel == "scanner" || rel == "parsing"
		nf++
		owner := f
		for owner.Parent() != nil {
			owner = owner.Parent()
		}
		forEachInstr(f, func(ins ssa.Instruction) {
			what := ""
			switch x := ins.(type) {
			case ssa.CallInstruction:
				if cal := x.Common().StaticCallee(); cal != nil && !p.InModule(cal) {
					if name := fullName(cal); unicodeAware(name) {
						what = name
					}
				}
			case *ssa.Range:
				if b, ok := x.X.Type().Underlying().(*types.Basic); ok && b.Info()&types.IsString != 0 {
					what = "range-over-string"
				}
			case *ssa.Convert:
				from, to := x.X.Type().Underlying(), x.Type().Underlying()
				isStr := func(t types.Type) bool {
					b, ok := t.(*types.Basic)
					return ok && b.Info()&types.IsString != 0
				}
				isRunes := func(t types.Type) bool {
					s, ok := t.(*types.Slice)
					if !ok {
						return false
					}
					b, ok := s.Elem().Underlying().(*types.Basic)
					return ok && b.Kind() == types.Int32
				}
				if (isStr(from) && isRunes(to)) || (isRunes(from) && isStr(to)) {
					what = "string<->[]rune"
				}
				if b, ok := from.(*types.Basic); ok && b.Info()&types.IsInteger != 0 && isStr(to) {
					what = "rune->string"
				}
			}
			if producersOnly && what != "unicode/utf8.EncodeRune" && what != "unicode/utf8.AppendRune" && what != "rune->string" && what != "strings.ToValidUTF8" {
				return
			}
			if what == "" {
				return
			}
			nsites++
			key := fnKey(owner) + ":" + what
			if why, ok := bytesTable[key]; ok {
				r.Tables = append(r.Tables, key+" — "+why)
				r.ok("table: " + key)
				return
			}
			r.fail("unicode-aware-on-byte-string:"+key, p.InstrPos(ins), fmt.Sprintf("%s uses %s on a Lua string: Lua strings are sequences of bytes, and this operation decodes them as UTF-8 — bytes that are not valid UTF-8 are replaced (by U+FFFD, three bytes) or dropped, and non-ASCII letters are treated as letters, neither of which the manual's byte-string functions do (string.upper('\\xff') changed length)", fnKey(owner), what))
		})
	}
	r.count("functions_scanned", nf)
	r.count("unicode_aware_sites", nsites)
	r.floor("functions_scanned", 60)
	if nsites == 0 {
		// positive control: the detector must know the function the defect used
		if !unicodeAware("strings.ToUpper") {
			r.broken("positive control failed: strings.ToUpper is not recognised as Unicode-aware")
		}
		r.ok("no Unicode-aware operation on a Lua string in the byte-string libraries")
	}
	return r
}

// ruleRebase: a position found in s[lo:] is relative to lo.
func ruleRebase(c *Ctx) *RuleResult {
	r := newResult("R-REBASE", "a position found by searching a resliced string is relative to the reslice: for every call of strings/bytes Index, IndexByte, IndexAny, LastIndex, LastIndexByte, LastIndexAny whose subject is x[lo:...] with lo not the constant 0, every value computed from the result (through + - conversions and phis, not through comparisons) that reaches a call, a return or a store depends on lo (or, when lo is a constant k, has had a constant of at least k added): otherwise the position is reported relative to the wrong origin (string.find(s, p, init, true) returned positions before init)")
	p := c.P
	n := 0
	for _, f := range p.ModFuncs() {
		if f.Blocks == nil || !luaReachablePkg(relPkg(funcPkgPath(f))) {
			continue
		}
		forEachInstr(f, func(ins ssa.Instruction) {
			call, ok := ins.(*ssa.Call)
			if !ok {
				return
			}
			cal := call.Call.StaticCallee()
			if cal == nil {
				return
			}
			switch fullName(cal) {
			case "strings.Index", "strings.IndexByte", "strings.IndexAny", "strings.LastIndex", "strings.LastIndexByte", "strings.LastIndexAny",
				"bytes.Index", "bytes.IndexByte", "bytes.IndexAny", "bytes.LastIndex", "bytes.LastIndexByte", "bytes.LastIndexAny":
			default:
				return
			}
			sl, ok := stripConv(call.Call.Args[0]).(*ssa.Slice)
			if !ok || sl.Low == nil {
				return
			}
			lowConst, lowIsConst := constInt(sl.Low)
			if lowIsConst && lowConst == 0 {
				return
			}
			n++
			// forward closure of the result through arithmetic
			derived := map[ssa.Value]int64{call: 0} // value -> constant added so far (best effort)
			work := []ssa.Value{call}
			type sink struct {
				at  ssa.Instruction
				val ssa.Value
			}
			var sinks []sink
			for len(work) > 0 {
				v := work[len(work)-1]
				work = work[:len(work)-1]
				refs := v.Referrers()
				if refs == nil {
					continue
				}
				for _, ref := range *refs {
					switch x := ref.(type) {
					case *ssa.BinOp:
						switch x.Op {
						case token.ADD, token.SUB:
							add := derived[v]
							other := x.Y
							if x.Y == v {
								other = x.X
							}
							if k, ok := constInt(other); ok && x.Op == token.ADD {
								add += k
							}
							if _, seen := derived[x]; !seen {
								derived[x] = add
								work = append(work, x)
							}
						}
					case *ssa.Convert:
						if _, seen := derived[x]; !seen {
							derived[x] = derived[v]
							work = append(work, x)
						}
					case *ssa.ChangeType:
						if _, seen := derived[x]; !seen {
							derived[x] = derived[v]
							work = append(work, x)
						}
					case *ssa.Phi:
						if _, seen := derived[x]; !seen {
							derived[x] = derived[v]
							work = append(work, x)
						}
					case *ssa.Call:
						sinks = append(sinks, sink{x, v})
					case *ssa.Return:
						sinks = append(sinks, sink{x, v})
					case *ssa.Store:
						if x.Val == v {
							sinks = append(sinks, sink{x, v})
						}
					case *ssa.MakeInterface:
						sinks = append(sinks, sink{x, v})
					}
				}
			}
			bad := ""
			for _, s := range sinks {
				if lowIsConst {
					if derived[s.val] < lowConst {
						bad = p.InstrPos(s.at)
					}
					continue
				}
				if !backSliceAllocs(s.val, false)[sl.Low] {
					// the same variable re-read?
					found := false
					for w := range backSliceAllocs(s.val, false) {
						if w == stripConv(sl.Low) {
							found = true
						}
					}
					if !found {
						bad = p.InstrPos(s.at)
					}
				}
			}
			key := fnKey(f) + ":" + fullName(cal)
			switch {
			case len(sinks) == 0:
				r.ok(fmt.Sprintf("%s on a reslice: the result is only compared", key))
			case bad == "":
				r.ok(fmt.Sprintf("%s on a reslice: every use of the position (%d) adds the origin back", key, len(sinks)))
			default:
				r.fail("position-not-rebased:"+key, bad, fmt.Sprintf("%s searches %s[%s:] and uses the position it finds without adding %s back (at %s): the position is relative to the reslice, so the caller is told an origin-relative position where an absolute one is due — string.find('abab', 'b', 3, true) answered 2 2 instead of 4 4", fnKey(f), litName(sl.X), litName(sl.Low), litName(sl.Low), bad))
			}
		})
	}
	r.count("searches_on_a_reslice", n)
	r.floor("searches_on_a_reslice", 1)
	return r
}
