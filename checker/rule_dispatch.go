package main

import (
	"fmt"
	"go/constant"
	"go/token"
	"go/types"
	"sort"
	"strings"

	"golang.org/x/tools/go/ssa"
)

func init() {
	registerRule("R-DISPATCH", false, ruleDispatch)
	registerRule("R-NILNIL", false, ruleNilNil)
}

// constsOfType: declared constants of a named type in a package: name -> value.
func constsOfType(p *Program, rel, typeName string) map[string]int64 {
	out := map[string]int64{}
	pk := p.Pkg(rel)
	if pk == nil {
		return out
	}
	for _, n := range pk.Types.Scope().Names() {
		if cst, ok := pk.Types.Scope().Lookup(n).(*types.Const); ok {
			if r2, tn, ok := namedOf(cst.Type()); ok && tn == typeName && r2 == rel {
				if v, ok := constant.Int64Val(constant.ToInt(cst.Val())); ok {
					out[n] = v
				}
			}
		}
	}
	return out
}

// comparedConsts: constants that values of the named type are compared with
// (==) in f: the cases of its switches. Returns value -> block taken when equal.
func comparedConsts(f *ssa.Function, rel, typeName string) map[int64][]*ssa.BasicBlock {
	out := map[int64][]*ssa.BasicBlock{}
	forEachInstr(f, func(ins ssa.Instruction) {
		b, ok := ins.(*ssa.BinOp)
		if !ok || b.Op != token.EQL {
			return
		}
		r2, tn, ok := namedOf(b.X.Type())
		if !ok || tn != typeName || r2 != rel {
			return
		}
		k, isK := constInt(b.Y)
		if !isK {
			return
		}
		for _, ref := range *b.Referrers() {
			if iff, ok := ref.(*ssa.If); ok {
				out[k] = append(out[k], iff.Block().Succs[0])
			}
		}
	})
	return out
}

// mapLiteral: contents of a package-level map built in init with constant keys
// and values: key value -> value value.
func mapLiteral(p *Program, rel, name string) map[int64]int64 {
	out := map[int64]int64{}
	sp := p.SSAPkgs[modPath+"/"+rel]
	if sp == nil {
		return nil
	}
	g, _ := sp.Members[name].(*ssa.Global)
	if g == nil {
		return nil
	}
	initf := sp.Func("init")
	if initf == nil {
		return nil
	}
	// the map value stored into g
	var mk ssa.Value
	forEachInstr(initf, func(ins ssa.Instruction) {
		if st, ok := ins.(*ssa.Store); ok && st.Addr == g {
			mk = st.Val
		}
	})
	if mk == nil {
		return nil
	}
	forEachInstr(initf, func(ins ssa.Instruction) {
		if mu, ok := ins.(*ssa.MapUpdate); ok && mu.Map == mk {
			k, ok1 := constInt(mu.Key)
			v, ok2 := constInt(mu.Value)
			if ok1 && ok2 {
				out[k] = v
			}
		}
	})
	return out
}

func nameOfConst(m map[string]int64, v int64) string {
	var ns []string
	for n, x := range m {
		if x == v {
			ns = append(ns, n)
		}
	}
	sort.Strings(ns)
	return strings.Join(ns, "/")
}

func ruleDispatch(c *Ctx) *RuleResult {
	r := newResult("R-DISPATCH", "dispatch tables are total and agree with their siblings: (a) every constant of code.BinOp, UnOp, UnOpK, UnOpK16 and JumpOp that some emitter uses has a case in the interpreter loop; (b) ircomp's codeBinOp/codeUnOp map each ops.Op to the code operator of the same name, and every binary/unary ops.Op constant is either a key of those maps or rewritten by astcomp before it reaches ircomp (witnessed by a comparison with that constant in astcomp); (c) each BinOp case of the interpreter calls the runtime function that implements that operator (frozen 16-row table OpAdd->Add ...); (d) the type switches Value.AsCont/TryCont name exactly the module types that implement runtime.Cont and AsCallable/TryCallable those implementing runtime.Callable; (e) the compile-time witnesses that every AST/IR node has a handler exist (var _ ast.StatProcessor = (*compiler)(nil) ...)")
	p := c.P
	run := p.Func("runtime", "(*LuaCont).RunInThread")
	if run == nil {
		r.broken("anchor unresolved: runtime.(*LuaCont).RunInThread")
		return r
	}
	// ---- (a)
	for _, tn := range []string{"BinOp", "UnOp", "UnOpK", "UnOpK16", "JumpOp"} {
		decl := constsOfType(p, "code", tn)
		if len(decl) == 0 {
			r.broken("anchor unresolved: constants of code.%s", tn)
			continue
		}
		handled := comparedConsts(run, "code", tn)
		// emitted: referenced as an operand in package code / ircomp outside String/Disassemble
		emitted := map[int64]bool{}
		for _, f := range p.ModFuncs() {
			rel := relPkg(funcPkgPath(f))
			if rel != "code" && rel != "ircomp" {
				continue
			}
			if f.Name() == "String" || strings.Contains(f.Name(), "isassemble") {
				continue
			}
			forEachInstr(f, func(ins ssa.Instruction) {
				if b, ok := ins.(*ssa.BinOp); ok && (b.Op == token.EQL || b.Op == token.NEQ) {
					return // a test, not an emission
				}
				for _, op := range ins.Operands(nil) {
					if op == nil || *op == nil {
						continue
					}
					if k, ok := (*op).(*ssa.Const); ok {
						if r2, t2, ok := namedOf(k.Type()); ok && t2 == tn && r2 == "code" {
							if v, ok := constInt(k); ok {
								emitted[v] = true
							}
						}
					}
				}
			})
		}
		var names []string
		for n := range decl {
			names = append(names, n)
		}
		sort.Strings(names)
		for _, n := range names {
			v := decl[n]
			switch {
			case len(handled[v]) > 0:
				r.ok(fmt.Sprintf("(a) code.%s has a case in the interpreter loop", n))
			case !emitted[v]:
				r.note("code.%s (%s) is declared but no emitter uses it and the interpreter has no case for it", n, tn)
				r.ok("")
			default:
				r.fail("opcode-without-handler:"+n, p.Pos(run.Pos()), fmt.Sprintf("code.%s is emitted by the code generator but the interpreter loop has no case for it: executing it hits the 'unsupported' panic", n))
			}
		}
	}
	// ---- (b)
	opsC := constsOfType(p, "ops", "Op")
	binC := constsOfType(p, "code", "BinOp")
	unC := constsOfType(p, "code", "UnOp")
	cb := mapLiteral(p, "ircomp", "codeBinOp")
	cu := mapLiteral(p, "ircomp", "codeUnOp")
	if cb == nil || cu == nil || len(opsC) == 0 {
		r.broken("anchor unresolved: ircomp.codeBinOp / codeUnOp / ops.Op constants")
		return r
	}
	r.count("codeBinOp_entries", len(cb))
	r.count("codeUnOp_entries", len(cu))
	check := func(m map[int64]int64, target map[string]int64, what string) {
		var keys []int64
		for k := range m {
			keys = append(keys, k)
		}
		sort.Slice(keys, func(i, j int) bool { return keys[i] < keys[j] })
		for _, k := range keys {
			kn, vn := nameOfConst(opsC, k), nameOfConst(target, m[k])
			if kn != "" && kn == vn {
				r.ok(fmt.Sprintf("(b) %s: ops.%s -> code.%s", what, kn, vn))
			} else {
				r.fail("op-map-mismatch:"+what+":"+kn, "ircomp/compinstr.go", fmt.Sprintf("ircomp.%s maps ops.%s to code.%s: the operator compiled is not the operator written", what, kn, vn))
			}
		}
	}
	check(cb, binC, "codeBinOp")
	check(cu, unC, "codeUnOp")
	// totality: constants compared in astcomp are the rewrite witnesses
	rewritten := map[int64]bool{}
	for _, f := range p.ModFuncs() {
		if relPkg(funcPkgPath(f)) != "astcomp" {
			continue
		}
		for v := range comparedConsts(f, "ops", "Op") {
			rewritten[v] = true
		}
	}
	var onames []string
	for n := range opsC {
		onames = append(onames, n)
	}
	sort.Strings(onames)
	for _, n := range onames {
		v := opsC[n]
		typ := v & 0xff
		isUnary := typ == opsC["OpNeg"]&0xff
		_, inB := cb[v]
		_, inU := cu[v]
		switch {
		case isUnary && inU, !isUnary && inB:
			r.ok("(b) ops." + n + " has a code operator")
		case rewritten[v]:
			r.ok("(b) ops." + n + " is rewritten by astcomp before code generation")
		default:
			r.fail("op-unmapped:"+n, "ircomp/compinstr.go", fmt.Sprintf("ops.%s is neither a key of ircomp's operator map nor rewritten by astcomp: a program using that operator hits ircomp's 'invalid op' panic", n))
		}
	}
	// ---- (c)
	binHandlers := map[string]string{"OpAdd": "Add", "OpSub": "Sub", "OpMul": "Mul", "OpDiv": "Div", "OpFloorDiv": "Idiv", "OpMod": "Mod", "OpPow": "Pow",
		"OpBitAnd": "band", "OpBitOr": "bor", "OpBitXor": "bxor", "OpShiftL": "shl", "OpShiftR": "shr", "OpEq": "eq", "OpLt": "Lt", "OpLeq": "le", "OpConcat": "Concat"}
	unHandlers := map[string]string{"OpNeg": "Unm", "OpBitNot": "bnot", "OpLen": "Len", "OpCont": "Continue", "OpTailCont": "Continue", "OpTruth": "Truth", "OpNot": "Truth"}
	checkHandlers := func(tn string, decl map[string]int64, table map[string]string, minArgs int) {
		handled := comparedConsts(run, "code", tn)
		var ns []string
		for n := range table {
			ns = append(ns, n)
		}
		sort.Strings(ns)
		for _, n := range ns {
			fn := table[n]
			v, ok := decl[n]
			if !ok {
				r.broken("frozen table names code.%s which no longer exists", n)
				continue
			}
			found := ""
			for _, blk := range handled[v] {
				for _, ins := range blk.Instrs {
					if call, ok := ins.(*ssa.Call); ok && found == "" {
						// the operator function: the first runtime call in the case that takes the operand(s)
						if cal := call.Call.StaticCallee(); cal != nil && relPkg(funcPkgPath(cal)) == "runtime" && len(call.Call.Args) >= minArgs && cal.Name() != "getReg" && takesOperand(call) {
							found = cal.Name()
						}
					}
				}
			}
			if found == fn {
				r.ok(fmt.Sprintf("(c) case code.%s calls runtime.%s", n, fn))
			} else {
				r.fail("op-handler:"+n, p.Pos(run.Pos()), fmt.Sprintf("the interpreter's case for code.%s calls runtime.%s first, not runtime.%s which implements that operator", n, found, fn))
			}
		}
	}
	checkHandlers("BinOp", binC, binHandlers, 2)
	checkHandlers("UnOp", unC, unHandlers, 1)
	// ---- (d) implementer switches
	type sw struct {
		iface string
		funcs []string
	}
	for _, s := range []sw{{"Cont", []string{"(Value).AsCont", "(Value).TryCont"}}, {"Callable", []string{"(Value).AsCallable", "(Value).TryCallable"}}} {
		it := p.TypeNamed("runtime", s.iface)
		if it == nil {
			r.broken("anchor unresolved: runtime.%s", s.iface)
			continue
		}
		iface := it.Underlying().(*types.Interface)
		impl := map[string]bool{}
		rp := p.Pkg("runtime")
		for _, n := range rp.Types.Scope().Names() {
			tn, ok := rp.Types.Scope().Lookup(n).(*types.TypeName)
			if !ok {
				continue
			}
			if _, isIface := tn.Type().Underlying().(*types.Interface); isIface {
				continue
			}
			pt := types.NewPointer(tn.Type())
			if types.Implements(pt, iface) {
				impl[typeKey(pt)] = true
			} else if types.Implements(tn.Type(), iface) {
				impl[typeKey(tn.Type())] = true
			}
		}
		if s.iface == "Callable" {
			// a Value only ever holds a Callable put there by FunctionValue: the
			// implementers that matter are the concrete types its callers pass
			impl = map[string]bool{}
			fv := p.Func("runtime", "FunctionValue")
			if fv == nil {
				r.broken("anchor unresolved: runtime.FunctionValue")
				continue
			}
			for _, f := range p.ModFuncs() {
				forEachInstr(f, func(ins ssa.Instruction) {
					call, ok := ins.(ssa.CallInstruction)
					if !ok || call.Common().StaticCallee() != fv {
						return
					}
					for _, lf := range interfaceLeaves(call.Common().Args[0], 0) {
						impl[typeKey(lf)] = true
					}
				})
			}
			if len(impl) < 2 {
				r.broken("fewer than 2 concrete types found flowing into runtime.FunctionValue")
			}
		}
		for _, fname := range s.funcs {
			f := p.Func("runtime", fname)
			if f == nil {
				r.broken("anchor unresolved: runtime.%s", fname)
				continue
			}
			cases := map[string]bool{}
			forEachInstr(f, func(ins ssa.Instruction) {
				if ta, ok := ins.(*ssa.TypeAssert); ok {
					if _, isIface := ta.AssertedType.Underlying().(*types.Interface); !isIface {
						cases[typeKey(ta.AssertedType)] = true
					}
				}
			})
			var missing []string
			for t := range impl {
				if !cases[t] {
					missing = append(missing, t)
				}
			}
			sort.Strings(missing)
			if len(missing) == 0 {
				r.ok(fmt.Sprintf("(d) %s names all %d implementers of runtime.%s", fname, len(impl), s.iface))
			} else {
				r.fail("implementer-missing:"+fname, p.Pos(f.Pos()), fmt.Sprintf("runtime.%s has no case for %s, which implement(s) runtime.%s: a value of that type would be reported as 'not a %s'", fname, strings.Join(missing, ", "), s.iface, strings.ToLower(s.iface)))
			}
		}
	}
	// ---- (e) processor witnesses: the named types implement the processor interfaces
	type wit struct {
		ifacePkg, iface, implPkg, impl string
		ptr                            bool
	}
	for _, w := range []wit{
		{"ast", "StatProcessor", "astcomp", "compiler", true}, {"ast", "ExpProcessor", "astcomp", "expCompiler", true},
		{"ast", "TailExpProcessor", "astcomp", "tailExpCompiler", false}, {"ast", "TailExpProcessor", "astcomp", "etcExpCompiler", true}, {"ast", "VarProcessor", "astcomp", "assignCompiler", true},
		{"ir", "InstrProcessor", "ircomp", "instrCompiler", false}, {"ir", "ConstantProcessor", "ircomp", "ConstantCompiler", true},
	} {
		it := p.TypeNamed(w.ifacePkg, w.iface)
		im := p.TypeNamed(w.implPkg, w.impl)
		if it == nil || im == nil {
			r.note("witness %s.%s / %s.%s: a type no longer exists under that name (the compiler still enforces interface satisfaction wherever the value is used)", w.ifacePkg, w.iface, w.implPkg, w.impl)
			continue
		}
		var t types.Type = im
		if w.ptr {
			t = types.NewPointer(im)
		}
		if types.Implements(t, it.Underlying().(*types.Interface)) {
			r.ok(fmt.Sprintf("(e) %s.%s implements %s.%s (every node kind has a handler)", w.implPkg, w.impl, w.ifacePkg, w.iface))
		} else {
			r.fail("processor-incomplete:"+w.impl, w.implPkg, fmt.Sprintf("%s.%s no longer implements %s.%s", w.implPkg, w.impl, w.ifacePkg, w.iface))
		}
	}
	return r
}

// ruleNilNil: a Lua-callable Go function returns a continuation or an error.
func ruleNilNil(c *Ctx) *RuleResult {
	r := newResult("R-NILNIL", "no registered Go function returns the literal pair (nil, nil): RunContinuation treats a nil continuation as 'finished', which silently ends the calling Lua function; returns dominated by a call that does not come back (os.Exit, panic) are exempt")
	p := c.P
	t := c.Reg()
	if len(t.Problems) > 0 {
		for _, pr := range t.Problems {
			r.broken("%s", pr)
		}
		return r
	}
	n := 0
	seen := map[*ssa.Function]bool{}
	for _, reg := range t.Regs {
		for _, f := range reg.Funcs {
			if seen[f] || f.Blocks == nil {
				continue
			}
			seen[f] = true
			n++
			bad := ""
			forEachInstr(f, func(ins ssa.Instruction) {
				ret, ok := ins.(*ssa.Return)
				if !ok || len(ret.Results) != 2 {
					return
				}
				if !isNilConst(ret.Results[0]) || !isNilConst(ret.Results[1]) {
					return
				}
				// exempt if dominated by a no-return call
				exempt := false
				forEachInstr(f, func(o ssa.Instruction) {
					if call, ok := o.(ssa.CallInstruction); ok && instrDominates(o, ins) {
						if cal := call.Common().StaticCallee(); cal != nil {
							fn := fullName(cal)
							if fn == "os.Exit" || fn == "runtime.Goexit" || cal.Name() == "KillContext" || cal.Name() == "TerminateContext" {
								exempt = true
							}
						}
					}
				})
				if !exempt {
					bad = p.InstrPos(ins)
				}
			})
			if bad == "" {
				r.ok("")
			} else {
				r.fail("nil-nil-return:"+fnKey(f), bad, fmt.Sprintf("%s (Lua name %q) returns (nil, nil): the interpreter takes a nil continuation for 'done', so the Lua function that called it stops there and its caller sees no results, with no error", fnKey(f), reg.LuaName))
			}
		}
	}
	r.count("registered_functions_checked", n)
	r.floor("registered_functions_checked", 120)
	return r
}

// interfaceLeaves: the concrete types an interface value is made from
// (MakeInterface operands through phis and ChangeInterface).
func interfaceLeaves(v ssa.Value, depth int) []types.Type {
	if depth > 6 {
		return nil
	}
	switch x := v.(type) {
	case *ssa.MakeInterface:
		return []types.Type{x.X.Type()}
	case *ssa.ChangeInterface:
		return interfaceLeaves(x.X, depth+1)
	case *ssa.Phi:
		var out []types.Type
		for _, e := range x.Edges {
			out = append(out, interfaceLeaves(e, depth+1)...)
		}
		return out
	}
	return nil
}

// takesOperand: one argument of the call is a register operand (the result of getReg).
func takesOperand(call *ssa.Call) bool {
	for _, a := range call.Call.Args {
		if c2, ok := a.(*ssa.Call); ok {
			if cal := c2.Call.StaticCallee(); cal != nil && cal.Name() == "getReg" {
				return true
			}
		}
	}
	return false
}
