package main

import (
	"fmt"
	"go/token"
	"go/types"
	"sort"
	"strings"

	"golang.org/x/tools/go/ssa"
)

func init() {
	registerRule("R-GLOBALS", false, ruleGlobals)
}

// processWideStdlib: standard-library functions that read or write state shared
// by the whole process.
var processWideStdlib = map[string]string{
	"math/rand.Seed": "seeds the process-wide generator", "math/rand.Int": "draws from the process-wide generator", "math/rand.Intn": "draws from the process-wide generator",
	"math/rand.Int31": "draws from the process-wide generator", "math/rand.Int31n": "draws from the process-wide generator", "math/rand.Int63": "draws from the process-wide generator",
	"math/rand.Int63n": "draws from the process-wide generator", "math/rand.Uint32": "draws from the process-wide generator", "math/rand.Uint64": "draws from the process-wide generator",
	"math/rand.Float32": "draws from the process-wide generator", "math/rand.Float64": "draws from the process-wide generator", "math/rand.Perm": "draws from the process-wide generator",
	"math/rand.Shuffle": "draws from the process-wide generator", "math/rand.Read": "draws from the process-wide generator", "math/rand.NormFloat64": "draws from the process-wide generator", "math/rand.ExpFloat64": "draws from the process-wide generator",
	"runtime/debug.SetGCPercent": "changes the collector's setting for the whole process", "runtime/debug.SetMemoryLimit": "process-wide", "runtime/debug.SetMaxStack": "process-wide",
	"os.Setenv": "process environment", "os.Unsetenv": "process environment", "os.Clearenv": "process environment", "os.Chdir": "process working directory",
	"runtime.GOMAXPROCS": "process-wide", "log.SetOutput": "process-wide logger", "log.SetFlags": "process-wide logger", "log.SetPrefix": "process-wide logger",
	"flag.Parse": "process-wide flags", "time.LoadLocation": "", "syscall.Umask": "process-wide", "syscall.Setenv": "process environment",
}

func globalOf(v ssa.Value, depth int) *ssa.Global {
	if depth > 6 || v == nil {
		return nil
	}
	switch x := v.(type) {
	case *ssa.Global:
		return x
	case *ssa.UnOp:
		if x.Op == token.MUL {
			return globalOf(x.X, depth+1)
		}
	case *ssa.FieldAddr:
		return globalOf(x.X, depth+1)
	case *ssa.IndexAddr:
		return globalOf(x.X, depth+1)
	case *ssa.Field:
		return globalOf(x.X, depth+1)
	case *ssa.Index:
		return globalOf(x.X, depth+1)
	case *ssa.Slice:
		return globalOf(x.X, depth+1)
	case *ssa.ChangeType:
		return globalOf(x.X, depth+1)
	case *ssa.Phi:
		for _, e := range x.Edges {
			if g := globalOf(e, depth+1); g != nil {
				return g
			}
		}
	case *ssa.Lookup:
		return globalOf(x.X, depth+1)
	}
	return nil
}

// paramOf: which parameter (pointer-like) the address/value derives from.
func paramRoot(f *ssa.Function, v ssa.Value, depth int) int {
	if depth > 8 || v == nil {
		return -1
	}
	switch x := v.(type) {
	case *ssa.Parameter:
		return paramIndex(f, x)
	case *ssa.UnOp:
		if x.Op == token.MUL {
			return paramRoot(f, x.X, depth+1)
		}
	case *ssa.FieldAddr:
		return paramRoot(f, x.X, depth+1)
	case *ssa.IndexAddr:
		return paramRoot(f, x.X, depth+1)
	case *ssa.Slice:
		return paramRoot(f, x.X, depth+1)
	case *ssa.ChangeType:
		return paramRoot(f, x.X, depth+1)
	case *ssa.Phi:
		for _, e := range x.Edges {
			if i := paramRoot(f, e, depth+1); i >= 0 {
				return i
			}
		}
	case *ssa.Extract:
		// range over a slice parameter: next() tuple — not modelled
	}
	return -1
}

func isPointerLike(t types.Type) bool {
	switch t.Underlying().(type) {
	case *types.Pointer, *types.Slice, *types.Map:
		return true
	}
	return false
}

// writesThrough computes, to a fixpoint, which functions write through which of
// their pointer-like parameters (directly or by passing them on).
func writesThrough(p *Program) map[*ssa.Function]map[int]bool {
	wt := map[*ssa.Function]map[int]bool{}
	set := func(f *ssa.Function, i int) bool {
		if i < 0 || i >= len(f.Params) || !isPointerLike(f.Params[i].Type()) {
			return false
		}
		if wt[f] == nil {
			wt[f] = map[int]bool{}
		}
		if wt[f][i] {
			return false
		}
		wt[f][i] = true
		return true
	}
	funcs := p.ModFuncs()
	for round := 0; round < 10; round++ {
		changed := false
		for _, f := range funcs {
			if f.Blocks == nil {
				continue
			}
			forEachInstr(f, func(ins ssa.Instruction) {
				switch x := ins.(type) {
				case *ssa.Store:
					// a store to the parameter's own spill slot is not a write through it
					if _, isAlloc := x.Addr.(*ssa.Alloc); isAlloc {
						return
					}
					if i := paramRoot(f, x.Addr, 0); i >= 0 {
						if _, direct := x.Addr.(*ssa.Parameter); direct || true {
							if set(f, i) {
								changed = true
							}
						}
					}
				case *ssa.MapUpdate:
					if i := paramRoot(f, x.Map, 0); i >= 0 && set(f, i) {
						changed = true
					}
				case ssa.CallInstruction:
					cal := x.Common().StaticCallee()
					if cal == nil || wt[cal] == nil {
						return
					}
					for j, a := range x.Common().Args {
						if wt[cal][j] {
							if i := paramRoot(f, a, 0); i >= 0 && set(f, i) {
								changed = true
							}
						}
					}
				}
			})
		}
		if !changed {
			break
		}
	}
	return wt
}

func isInitFunc(f *ssa.Function) bool {
	for f.Parent() != nil {
		f = f.Parent()
	}
	return f.Name() == "init" || strings.HasPrefix(f.Name(), "init#")
}

func ruleGlobals(c *Ctx) *RuleResult {
	r := newResult("R-GLOBALS", "no mutable state is shared between runtimes: outside package initialisation, no function of the runtime, libraries or front end (a) stores to a package-level variable, (b) stores through one (a field, element or map entry of the object a package-level variable points to), (c) passes a package-level pointer to a function that writes through that parameter (mod-ref summaries to a fixpoint; variadic lists included), or (d) calls a standard-library function that acts on process-wide state (math/rand top-level functions, debug.SetGCPercent, os.Setenv/Chdir, ...). Each hit is a finding unless table-listed as per-process by nature. Reads of package-level variables that nobody writes after initialisation are fine")
	p := c.P
	wt := writesThrough(p)
	nGlobals := 0
	for _, pk := range p.Pkgs {
		rel := relPkg(pk.PkgPath)
		if !luaReachablePkg(rel) {
			continue
		}
		sp := p.SSAPkgs[pk.PkgPath]
		if sp == nil {
			continue
		}
		for _, m := range sp.Members {
			if _, ok := m.(*ssa.Global); ok {
				nGlobals++
			}
		}
	}
	r.count("package_level_variables_in_scope", nGlobals)
	r.floor("package_level_variables_in_scope", 40)
	type hit struct {
		key, pos, msg string
	}
	var hits []hit
	seen := map[string]bool{}
	add := func(key, pos, msg string) {
		if seen[key] {
			return
		}
		seen[key] = true
		hits = append(hits, hit{key, pos, msg})
	}
	gname := func(g *ssa.Global) string { return relPkg(g.Pkg.Pkg.Path()) + "." + g.Name() }
	inScopeGlobal := func(g *ssa.Global) bool {
		return g != nil && g.Pkg != nil && luaReachablePkg(relPkg(g.Pkg.Pkg.Path()))
	}
	funcsChecked := 0
	for _, f := range p.ModFuncs() {
		rel := relPkg(funcPkgPath(f))
		if !luaReachablePkg(rel) || f.Blocks == nil || isInitFunc(f) {
			continue
		}
		funcsChecked++
		forEachInstr(f, func(ins ssa.Instruction) {
			switch x := ins.(type) {
			case *ssa.Store:
				if g, ok := x.Addr.(*ssa.Global); ok && inScopeGlobal(g) {
					add("global-written:"+gname(g)+":"+fnKey(f), p.InstrPos(ins), fmt.Sprintf("%s assigns the package-level variable %s at run time: every runtime in the process sees the change", fnKey(f), gname(g)))
					return
				}
				if _, isAlloc := x.Addr.(*ssa.Alloc); isAlloc {
					return
				}
				if g := globalOf(x.Addr, 0); inScopeGlobal(g) {
					add("global-object-written:"+gname(g)+":"+fnKey(f), p.InstrPos(ins), fmt.Sprintf("%s writes into the object the package-level variable %s refers to, at run time: the object is shared by every runtime in the process", fnKey(f), gname(g)))
				}
			case *ssa.MapUpdate:
				if g := globalOf(x.Map, 0); inScopeGlobal(g) {
					add("global-map-written:"+gname(g)+":"+fnKey(f), p.InstrPos(ins), fmt.Sprintf("%s updates the package-level map %s at run time (shared, and unsynchronised, between runtimes)", fnKey(f), gname(g)))
				}
			case ssa.CallInstruction:
				cal := x.Common().StaticCallee()
				if cal == nil {
					return
				}
				if !p.InModule(cal) {
					if why, ok := processWideStdlib[fullName(cal)]; ok && why != "" {
						add("process-wide-call:"+fullName(cal)+":"+fnKey(f), p.InstrPos(ins), fmt.Sprintf("%s calls %s (%s): what one runtime does changes what another observes", fnKey(f), fullName(cal), why))
					}
					return
				}
				if wt[cal] == nil {
					return
				}
				for j, a := range x.Common().Args {
					if !wt[cal][j] {
						continue
					}
					// the argument itself, or (variadic) the elements stored into the array it slices
					var cands []ssa.Value
					cands = append(cands, a)
					if sl, ok := a.(*ssa.Slice); ok {
						if al, ok := sl.X.(*ssa.Alloc); ok {
							for _, ref := range *al.Referrers() {
								if ia, ok := ref.(*ssa.IndexAddr); ok {
									for _, r2 := range *ia.Referrers() {
										if st, ok := r2.(*ssa.Store); ok && st.Addr == ia {
											cands = append(cands, st.Val)
										}
									}
								}
							}
						}
					}
					for _, cv := range cands {
						if g := globalOf(cv, 0); inScopeGlobal(g) {
							add("global-passed-to-writer:"+gname(g)+":"+fnKey(f)+"->"+fnKey(cal), p.InstrPos(ins), fmt.Sprintf("%s passes the package-level %s to %s, which writes through that parameter: the shared object is modified at run time (a data race when two runtimes are set up or run on different goroutines)", fnKey(f), gname(g), fnKey(cal)))
						}
					}
				}
			}
		})
	}
	r.count("functions_checked", funcsChecked)
	r.floor("functions_checked", 1500)
	sort.Slice(hits, func(i, j int) bool { return hits[i].key < hits[j].key })
	usedT := map[string]bool{}
	for _, h := range hits {
		if why, ok := globalsTable[h.key]; ok {
			usedT[h.key] = true
			r.ok("table: " + h.key + " — " + why)
			continue
		}
		r.fail(h.key, h.pos, h.msg)
	}
	if len(hits) == 0 {
		r.ok("no run-time write to package-level state found")
	}
	for k := range globalsTable {
		if !usedT[k] {
			r.note("table entry unused: %s", k)
		}
	}
	// (e) a package-level value that non-initialisation code copies must not carry a
	// pointer to an object made at initialisation: every runtime that copies it gets the
	// same object (a default option, a default configuration), and whatever one runtime
	// does to that object the others see. Immutable kinds are exempt: functions, errors,
	// compiled regular expressions, strings, and *GoFunction (written only during
	// initialisation, which (a)-(c) check).
	for _, pk := range p.Pkgs {
		rel := relPkg(pk.PkgPath)
		if !luaReachablePkg(rel) {
			continue
		}
		sp := p.SSAPkgs[pk.PkgPath]
		if sp == nil {
			continue
		}
		initf := sp.Func("init")
		if initf == nil {
			continue
		}
		forEachInstr(initf, func(ins ssa.Instruction) {
			st, ok := ins.(*ssa.Store)
			if !ok {
				return
			}
			g := globalOf(st.Addr, 0)
			if g == nil || g.Pkg != sp {
				return
			}
			// the stored value: a pointer (possibly inside an interface) to something allocated here
			v := st.Val
			if mi, ok := v.(*ssa.MakeInterface); ok {
				v = mi.X
			}
			pt, isPtr := v.Type().Underlying().(*types.Pointer)
			if !isPtr {
				return
			}
			if immutablePointee(pt.Elem()) {
				return
			}
			fresh := false
			switch x := v.(type) {
			case *ssa.Alloc:
				fresh = x.Heap
			case *ssa.Call:
				fresh = true // a constructor call
			}
			if !fresh {
				return
			}
			// is the global (or the field holding the pointer) read outside init?
			readers := []string{}
			for _, f := range p.ModFuncs() {
				if isInitFunc(f) || f.Blocks == nil || !luaReachablePkg(relPkg(funcPkgPath(f))) {
					continue
				}
				forEachInstr(f, func(o ssa.Instruction) {
					if u, ok := o.(*ssa.UnOp); ok && u.Op == token.MUL && globalOf(u.X, 0) == g {
						readers = append(readers, fnKey(f))
					}
				})
			}
			if len(readers) == 0 {
				return
			}
			key := "shared-default-object:" + gname(g) + ":" + typeKey(pt.Elem())
			if seen[key] {
				return
			}
			seen[key] = true
			if why, ok := globalsTable[key]; ok {
				r.ok("table: " + key + " — " + why)
				return
			}
			r.fail(key, p.InstrPos(ins), fmt.Sprintf("the package-level %s holds a pointer to a %s made at initialisation and is copied at run time by %s: every runtime that copies it shares that one object, so state one runtime puts into it (and any unsynchronised access) is visible to the others", gname(g), typeKey(pt.Elem()), readers[0]))
		})
	}
	// positive control: the summary machinery must know that SolemnlyDeclareCompliance writes through its receiver
	if decl := p.Func("runtime", "(*GoFunction).SolemnlyDeclareCompliance"); decl == nil || !wt[decl][0] {
		r.broken("positive control failed: (*GoFunction).SolemnlyDeclareCompliance is not recognised as writing through its receiver")
	}
	return r
}

// immutablePointee: types whose values are not modified after construction.
func immutablePointee(t types.Type) bool {
	switch typeKey(t) {
	case "regexp.Regexp", "errors.errorString", "fmt.wrapError", "runtime.GoFunction", "runtime.Error":
		return true
	}
	if _, ok := t.Underlying().(*types.Signature); ok {
		return true
	}
	return false
}
