package main

var propTable = map[string]*propSpec{
	"C02": {
		ID:          "C02",
		Rules:       []string{"R-REGTABLE", "R-DISPATCH", "R-OPNAMES", "R-ARITHKIND", "R-DIVZERO"},
		Explanation: "Decides only the pairing part of 'every arithmetic, bitwise and relational operator returns the result the manual defines': each operator of the source reaches the runtime function of that operator and no other — ops.Op to code operator (same-name maps, total over what astcomp lets through), code operator to its case in the interpreter loop, the case to the runtime function that implements it (R-DISPATCH b, c), the metamethod name each arithmetic case, each bitwise helper and each string-arithmetic metamethod passes on (R-OPNAMES) — and every integer division and modulo has a divisor excluded from zero on every path (R-DIVZERO: n // 0 and n % 0 are Lua errors, not Go panics). (R-ARITHKIND) The six type-dispatched arithmetic functions have, arm by arm, the result kind and the Go operator or helper of the manual's table: integer with integer stays an int64 computed with + - * (wrapping modulo 2^64 is then Go's own semantics), any float operand makes a float, / is always a float quotient, // and % go to the integer helpers only for two integers; operands are taken from the first and second parameter in that order.",
		NotDecided:  "everything the property is really about: the values computed by the arithmetic helpers over the int64 x float64 operand space (wrap-around, floor division and modulo signs, exact mixed comparison, conversions, numeral decoding, the math library). Those are value-level; a sound argument would be an abstract-interpretation or solver proof, which is a different family. Known value-level defects seen while reading are listed in DESIGN.md and are not findings of this check.",
		Assumptions: []string{"the frozen operator tables (operator - runtime function - metamethod name) were transcribed from the manual and confirmed by reading"},
	},
	"C19": {
		ID:          "C19",
		Rules:       []string{"R-REGTABLE", "R-ARITY", "R-POS", "R-ALLOC", "R-SIZECAP", "R-METER", "R-INDEX", "R-BYTES", "R-REBASE"},
		Scope:       []string{"lib/stringlib/", "lib/tablelib/", "luastrings/"},
		Explanation: "Decides only the 'never crashes, never runs away' corners of the string and table library functions, restricted to findings located in lib/stringlib, lib/tablelib and luastrings (the same rules run unrestricted under C04, C05 and C06): every argument read is within the declared arity or guarded (R-ARITY); every position normalised by StringNormPos is proved in range before it indexes or slices the subject — negative, zero and beyond-the-end positions, mininteger and maxinteger included (R-POS); sizes computed from counts (string.rep with separator, table functions) are tested for a wrapped negative result and compared with a bound (R-ALLOC sign, R-SIZECAP); every loop of these functions is metered, bounded by a held length, or table-listed with its bound (R-METER), so extreme ranges cannot spin unmetered.",
		NotDecided:  "what the functions compute: sub, byte, char, rep, reverse, upper, lower, len, plain find, insert, remove, move, concat, unpack, pack and sort are laws about results for every argument tuple (position normalisation arithmetic, which elements move where, sort being a permutation) and are value-level. Known value-level defects seen while reading (plain find offsets, string.rep with a negative count) are listed in DESIGN.md and are not findings of this check.",
		Assumptions: []string{"as for C04 (R-ARITY, R-POS, R-ALLOC, R-SIZECAP) and C05 (R-METER)"},
	},
	"C15": {
		ID:          "C15",
		Rules:       []string{"R-REGTABLE", "R-PATTERN", "R-METER", "R-WRAP"},
		Explanation: "Decides the structural part of 'pattern matching follows the manual; a malformed pattern raises a Lua error, never a Go panic; matching work is charged': (R-PATTERN) every item type the pattern compiler can emit has a case in the matcher, nothing reachable from pattern.New panics and every error a compiler helper returns is propagated, and find/match/gmatch/gsub cannot return successfully without going through pattern.New except on the listed branches (find: plain flag, empty pattern, init past the end) — so no shortcut decides on its own what counts as a special character; (R-METER) the matcher's private budget is fed from the quota, what it consumed is charged back, and the matcher's cursor only advances where budget is consumed.",
		NotDecided:  "the match semantics themselves (leftmost, greedy/lazy, backtracking, captures, %b, %f, gsub/gmatch over empty matches): these quantify over pattern x subject and are value-level. Out-of-range positions handed to the matcher are decided under C04 (R-POS).",
		Assumptions: []string{"the bypass exemptions for string.find were confirmed against the manual", "R-METER's loop table entries for the matcher (amortised cursor argument) were confirmed by reading"},
	},
	"C17": {
		ID:          "C17",
		Rules:       []string{"R-PACK", "R-QUOTE"},
		Explanation: "Decides the sibling-agreement part of 'pack/unpack/packsize round-trip and reject malformed formats': the three format interpreters handle the same option characters, agree option by option on alignment, size, default size and (pack vs unpack) the Go type put on the wire, and their align() methods raise the same errors.",
		NotDecided:  "round-trip equality for variable-width integers (sign extension, truncation, 9..16-byte fields), %q, tostring/tonumber and printf-compatibility of string.format: value-level. The hostile length prefix of unpack's 's' option is decided under C04/C06 (R-ALLOC).",
		Assumptions: []string{"an option's behaviour is characterised by its first align/write/read/inc call and smallOptSize default; helper bodies (packInt, readVarInt, ...) are not compared"},
	},
	"C13": {
		ID:          "C13",
		Rules:       []string{"R-SCHEMA", "R-MAPORDER"},
		Explanation: "Decides the structural part of 'string.dump followed by load reproduces the function': (R-SCHEMA) the item sequence writeCode puts on the wire (fields, Go wire types, length prefixes, nested constant and upvalue-name loops) equals the sequence readCode takes off it, together they cover every field of runtime.Code, the constant tags of writeConst and readConst coincide with equal payload types, and writer, reader and sniffer share one magic prefix; (R-MAPORDER) nothing reachable from string.dump iterates over a Go map, so no run-to-run ordering can reach the bytes.",
		NotDecided:  "observational equivalence of the reloaded function (that RefactorCodeConsts re-indexes constants correctly, that the closure is rebuilt with the right upvalues) and every other source of nondeterminism than map order.",
		Assumptions: []string{"binary.Write/Read with the same Go type and byte order are inverse (standard library)", "the order of items is the source order of the write/read calls in the two straight-line functions (their loops are the two element loops only)"},
	},
	"C01": {
		ID:    "C01",
		Rules: []string{"R-REGTABLE", "R-BITS", "R-DISPATCH", "R-NILNIL", "R-SCOPE", "R-PRIVREG", "R-PAREN", "R-EVALALL", "R-ACC"},
		Explanation: "Decides structural necessary conditions of 'compiled programs behave as the manual prescribes' — the agreements between the stages of the compile pipeline that must hold for every program, each of which, if broken, miscompiles some program: " +
			"(R-BITS) every opcode field written by a code.mkType* constructor is read back bit-for-bit by its Get* decoder, fields are disjoint from each other and from the type prefix (symbolic bit-vector evaluation of the constructors and decoders); " +
			"(R-DISPATCH) every operator constant an emitter can produce has a case in the interpreter loop, ircomp's operator maps send each ops.Op to the code operator of the same name and are total over what astcomp lets through, each interpreter case calls the runtime function of that operator, the Cont/Callable type switches name every implementer, and the compile-time processor witnesses exist; " +
			"(R-NILNIL) no Lua-callable Go function returns (nil, nil), which the interpreter takes for 'finished'; " +
			"(R-SCOPE) leaving a scope — by falling out of it, by break or by goto — emits a clear for every register captured as an upvalue, and the VM's clear installs a fresh cell (fresh variables per loop iteration); " +
			"(R-PRIVREG) a register holding a value the program cannot name is never captured and never handed out twice; " +
			"(R-PAREN) parentheses truncate every multi-valued expression type (call, '...') to one value; (R-EVALALL) an expression list is compiled in full, also the expressions beyond the number of targets; (R-ACC) the vararg accumulator, whose backing array a frame's '...' shares, is only ever reset to nil or extended by append.",
		NotDecided: "agreement of the implemented semantics with the manual's over all programs (values, evaluation order, the push/receive call protocol, register allocation correctness in general, jump resolution, metamethod selection and coercions): these quantify over program behaviour and are out of reach of a static argument here.",
		Assumptions: []string{
			"the frozen tables (operator ↔ runtime function, token ↔ operator) were transcribed from the manual and the code and confirmed by reading",
			"enum operands of the opcode constructors are within the width implied by their largest declared constant (every conversion to those types is from a constant or a masked decoder expression — checked by R-BITS)",
		},
	},
	"C12": {
		ID:    "C12",
		Rules: []string{"R-PREC", "R-LITERAL", "R-BLAME", "R-SCANPOS", "R-PAREN", "R-BYTES"},
		Explanation: "Decides the table-shaped and shape-visible part of 'the front end accepts Lua 5.4 syntax and decodes it faithfully': (R-PREC) the scanner's keyword and symbol maps are exactly the manual's, the parser's operator maps send each token to the operator of the same symbol and cover exactly the tokens the scanner classifies as operators, ops.Op.Precedence orders all 300 operator pairs as §3.4.8, and the associativity exceptions are exactly .. and ^; " +
			"(R-LITERAL) literal decoding never indexes past the token's bytes (an empty long string is valid); (R-BLAME) a syntax error raised after a failed test of a token's type blames that token, so the reported line is the offending token's; (R-SCANPOS) the scanner's cursor is moved only by next()/backup(), where lines are counted and line ends normalised.",
		NotDecided:  "that every valid chunk is accepted (the grammar as a whole), the denotation of numerals and escape sequences (value-level: e.g. 9223372036854775808 is read as an integer), multi-value truncation by parentheses, line-end normalisation, spelling invariance.",
		Assumptions: []string{"the literalTable entries (7) rest on the scanner's grammar for STRING/LONGSTRING tokens and on the escapeSeqs regular expression, confirmed by reading"},
	},
	"C08": {
		ID:    "C08",
		Rules: []string{"R-REGTABLE", "R-IOSAFE", "R-GATE"},
		Explanation: "Decides, from the type-checked SSA program and the VTA call graph of /repo's current source, the structural content of 'compliance flags gate every Go function; iosafe means no access to the outside': " +
			"(1) every Go function installed into a Lua-callable GoFunction is known with its declared flags (R-REGTABLE, cross-checked against the call graph's callee set of the dispatch site); " +
			"(2) the only call through GoFunction.f is dominated by the flag check and unreachable from its failure branch, flags are only ever or-ed (R-GATE a,b); " +
			"(3) every safeio gate tests ComplyIoSafe before its sink, and no module code outside the gates/host tools calls a sink (R-GATE c,d); " +
			"(4) no call path from an iosafe-declared function reaches a sink (R-IOSAFE). This is a statement about all call paths in the source, which an over-approximate call graph decides.",
		NotDecided: "the behaviour of the operating system behind a sink; effects through an already-open file handle obtained before the restricted context was entered (a capability the host handed over); reading the environment or the clock; functions registered by embedders outside this repository.",
		Assumptions: []string{
			"VTA+CHA call graph over-approximates calls for this code: no cgo/assembly in the module, reflect only in lib/golib (which declares no flags), go:linkname only for two hash leaves",
			"the sink list (tables.go ioSinks) enumerates the standard-library entry points for the effects the property lists",
			"the flag-gated dynamic dispatch c.f(t,c) may be cut from reachability because R-GATE proves the flag check dominates it",
		},
	},
	"C04": {
		ID:    "C04",
		Rules: []string{"R-REGTABLE", "R-ARITY", "R-POS", "R-DIVZERO", "R-PANIC", "R-NARROW", "R-RECURSION", "R-ALLOC", "R-SIZECAP", "R-ENCBUF", "R-INDEX", "R-WRAP"},
		Explanation: "Decides structural necessary conditions of 'no Lua source or program can crash the embedding Go process', each of which flags a construct that is a Go panic or a fatal error for some input: " +
			"(R-ARITY) no registered Go function reads an argument slot beyond its declared arity without a guard; (R-POS) every normalised string position is proved in range before it indexes/slices the subject or is handed to the matcher/unpacker; " +
			"(R-DIVZERO) every integer division has a divisor excluded from zero on every path; (R-PANIC) every explicit panic is below a recover that keeps its type on every call chain from the API, or is a table-listed internal invariant; " +
			"(R-NARROW) every integer narrowing in the code generator is range-checked (implementation limits become compile errors, not wrapped encodings); (R-RECURSION) every call-graph cycle reachable from the API passes a structurally recognised depth guard or is table-listed with its bound; " +
			"(R-ALLOC) every computed-size allocation is bounded by memory held, charged first, and — for lengths decoded from input — compared with the input left; a size the program chooses, or computes with + * <<, is proved non-negative on every path to the allocation (through callers and closure captures), since make/Grow/Repeat panic on a negative count; (R-SIZECAP) and it is compared with a constant or a held length on every path, because a charge bounds nothing in a context without a memory limit; (R-ENCBUF) callers of the UTF-8 encoder, which writes without checking, give it room for the longest (6-byte) encoding; (R-INDEX) when a library function compares an index with a length somewhere, no use of that index can be reached around all of those comparisons.",
		NotDecided: "absence of every Go run-time error (nil dereference, arbitrary index expressions, map writes): Go's type system does not give that and a general bounds prover is out of reach; what the VM does with a hand-forged binary chunk that decodes successfully (there is no bytecode verifier in the repository); out-of-memory caused by a legitimately huge program-chosen size in a context without limits.",
		Assumptions: []string{
			"VTA+CHA call graph over-approximates calls; callbacks from standard-library frames are followed only when the entering module function can have supplied the callee (it converts a value of that type to an interface, references the function, or forwards interface/function parameters)",
			"table entries (internalPanics, recursionTable, narrowTable, allocTable, nonZeroFields) were each confirmed by reading; entries with a structural precondition have it re-verified on every run",
			"nothing recovers Go run-time errors between the VM and the host, so an index out of range or a negative make() is a crash",
		},
	},
	"C05": {
		ID:    "C05",
		Rules: []string{"R-REGTABLE", "R-METER", "R-KILL", "R-CONTEXT", "R-WRAP"},
		Explanation: "Decides the structural content of 'a CPU limit is a hard and uninterceptable bound; no operation runs unmetered': " +
			"(R-METER) every loop and every call-graph cycle reachable from a cpusafe-declared Go function or the VM core carries a charging call on every cycle, or is bounded by a constant / a length already held / an iterator over a held collection / a pre-charge on its bound, or is table-listed with its bound argument; the dispatch points named by the quota design charge before they work; private budgets are fed from the quota and what they consume is charged; the matcher's cursor only advances where budget is consumed. " +
			"(R-KILL) no frame other than the designated owners can keep a ContextTerminationError while protecting code that can hit a limit; the error is built only in TerminateContext after the status store; the coroutine forwarding chain is intact; CallContext's kill path runs no Lua code. (R-CONTEXT) CallContext marks the context finished only after everything that can still run Lua (close handlers, finalisers): TerminateContext does nothing for a context that is not live, so an earlier setStatus would let that code run with the limit off.",
		NotDecided: "the exact, deterministic tick counts and 'killed exactly for L <= u' (value-level); wall-clock bounds; that the constant in 'constant times memory' is small; nested bounded loops are accepted as bounded (polynomial, not linear).",
		Assumptions: []string{
			"a loop bounded by a held length, a constant or an iterator over a held collection does work proportional to memory the context holds (the property's own allowance)",
			"loop-table entries (25) and recursion-table entries were confirmed by reading; the amortised argument for the pattern matcher is backed by the cursor-writer sub-rule",
			"compile time is linear in source length, which LinearRequire(4, len(source)) pre-charges (the compile pipeline's loops are outside this rule)",
		},
	},
	"C06": {
		ID:    "C06",
		Rules: []string{"R-REGTABLE", "R-ALLOC", "R-NEWSTR", "R-RELEASE", "R-TABLESET", "R-KILL", "R-CONTEXT", "R-ACC"},
		Explanation: "Decides the structural content of 'every operation whose allocation depends on program-chosen sizes charges memory before allocating, and releasing never drives the counter below zero': " +
			"(R-ALLOC) every computed-size allocation is bounded by memory held or dominated by a charge on the same size; (R-NEWSTR) every fresh program-sized Lua string is preceded by a memory charge; " +
			"(R-RELEASE) on every path no amount is released more often than it was acquired/inherited, destructors release exactly what constructors required under the same flags, and every release site names its require; (R-TABLESET) table growth is charged through the only caller of (*Table).Set. The termination itself is uninterceptable and the status is set last (R-KILL, R-CONTEXT, shared with C05): a memory kill that a recover frame turns into a Lua error, or a context marked finished before its handlers ran, leaves code running with the limit off. (R-ACC) Extra arguments accumulated for a vararg function are charged before they are appended.",
		NotDecided: "monotonicity of 'killed' in M and the constant in 'heap <= constant x M' (value-level); allocations hidden inside the standard library (append growth, map buckets, fmt); over-accounting (memory charged and never released, e.g. stringlib.Format's deferred ReleaseMem(tmpMem) evaluated at defer time).",
		Assumptions: []string{
			"a charge 'on the same size' is recognised by def-use (the charged amount's expression shares the allocation's unbounded leaf) — arithmetic equality of the two amounts is not proved",
			"private budgets (consumeBudget) count as charges because R-METER(c) proves what they consume is charged by the caller",
			"tables (allocTable, newStrTable, releaseTable) were confirmed by reading",
		},
	},
	"C09": {
		ID:    "C09",
		Rules: []string{"R-HANDOFF", "R-LOCKSET", "R-GO", "R-KILL", "R-CLOSE"},
		Explanation: "Decides the protocol-shape content of 'coroutines: one thread at a time, control always comes back, no goroutine left behind': " +
			"(R-HANDOFF) after a hand-off a thread only blocks on its own channel or unlocks; (R-LOCKSET) thread status/caller/closeErr are written under the thread's mutex, each status constant only by the functions owning that transition, mutexes are taken receiver-first, no Lua code can run under a thread mutex, the finaliser pool's lists are touched only under its mutex, and Lua-callable functions pass their own thread as the caller of Resume/Close; " +
			"(R-GO) the only go statement is Thread.Start's and its goroutine always ends through t.end; (R-KILL c) the chain forwarding a termination from a coroutine to its resumer is intact.",
		NotDecided: "exact value transfer through resume/yield, the full status legality table, deadlock freedom and race freedom under every schedule (the race detector is a dynamic tool); only the structural preconditions are decided.",
		Assumptions: []string{
			"lockset analysis is intraprocedural on the SSA CFG (must-held at joins); helper functions that lock on behalf of a caller would need a summary (none today)",
			"the status-writer table (who may store which status) was confirmed by reading",
		},
	},
	"C18": {
		ID:          "C18",
		Rules:       []string{"R-FINALIZE", "R-LOCKSET"},
		Explanation: "Decides the ordering/ownership content of 'finalisers and resource release run exactly once, in order, inside their context': finalise-extraction precedes release-extraction in PopContext, runPendingFinalizers and Runtime.Close; extracted releases always reach releaseResources and never depend on the context status; CallContext runs an isolated context's finalisers before popping it; ClonePool hands out an entry for finalising/release only under the 'not yet' flag test and marks it in the same step; its lists are touched only under its mutex (the Go finaliser runs on another goroutine). (g) Marking: a table or userdata only gets a non-nil metatable through (*Runtime).SetRawMetatable, which registers it with the finaliser pool on every path (the one exemption being a metatable without __gc), userdata born with a metatable come from NewUserDataValue which marks them, and the Lua-callable setmetatable functions cannot return successfully without having gone through the marking call — a second setmetatable re-marks.",
		NotDecided:  "exactly-once over histories that involve Go's garbage collector (which objects become unreachable when), reverse marking order (sort key values), and that a value is never finalised while still reachable.",
		Assumptions: []string{"the default pool in every build configuration is one of the two analysed implementations (ClonePool; UnsafePool is selected only by a build tag and is out of the claim)"},
	},
	"C03": {
		ID:          "C03",
		Rules:       []string{"R-TABLEKEY", "R-ARITHKIND"},
		Explanation: "Decides structural necessary conditions of 'tables behave as a map with normalised keys; metamethods only see absent keys': the five mixedTable operations hand the hash part only the normalised key (cross-checked siblings); types with delegated equality have a matching Hash case; removal never rewrites a slot's key (tombstones keep traversal positioned); insertNewKeyValue overwrites a slot only when it is free or after relocating its occupant; SetIndex/Index consult __newindex/__index only after the raw operation found nothing.",
		NotDecided:  "the collision-chain invariants I1-I3 over all histories, border validity of the length operator, traversal completeness, and value-level equality corners (e.g. integer/float equality near 2^53): these quantify over operation histories and operand values.",
		Assumptions: []string{"the five operations named are the only entry points from mixedTable into the hash part (checked: each must contain at least one such call)"},
	},
	"C07": {
		ID:          "C07",
		Rules:       []string{"R-REGTABLE", "R-CONTEXT", "R-GATE", "R-KILL", "R-CTXSTACK"},
		Explanation: "Decides dependency-presence conditions of 'nested contexts conserve budgets and report status truthfully': a child's hard limits are computed from the parent's hard limits, its used resources (refreshed when time is tracked) and the request; soft limits from the child's new hard limits; PopContext re-charges the parent before restoring it; the status field has exactly its four owners, and CallContext sets the final status only on the error branch after everything that can still run Lua; Due() depends on stopLevel, softLimits and usedResources; required flags only grow (R-GATE b); a termination cannot be kept by a recover frame other than its owners and is forwarded from a dying coroutine to its resumer, including when it is raised by the coroutine's own __close handlers (R-KILL): otherwise the resumer carries on in a context already marked killed, whose limits are no longer enforced; the one-per-runtime context stack is handed over consistently when a coroutine yields inside a push/pop bracket (R-CTXSTACK: it is not — a known finding).",
		NotDecided:  "the '0 = unlimited' arithmetic of Remove/Merge/atLimit/smallerLimit over uint64 (value-level; a solver or exhaustive argument is a different family); that used never exceeds kill numerically.",
		Assumptions: []string{"dependency presence is checked on SSA def-use slices (through calls), deliberately not expression shape, so inlining or renaming locals does not fire it; that the dependency is the *right* function of its inputs is not decided"},
	},
	"C10": {
		ID:          "C10",
		Rules:       []string{"R-CLOSE", "R-KILL"},
		Explanation: "Decides the completeness of the to-be-closed plumbing: every compile-time scope exit (block end, goto/break) passes through a close-stack truncation to the right scope; the compile-time height is maintained only by its owners; 'close' locals and the generic for push a close action; pending close actions disable tail calls; at run time the close stack is cleaned on return, on explicit truncation, around protected calls and when a coroutine ends; a failing handler does not stop the others; declaration and closing agree on which values have a handler; nothing runs handlers after a kill (R-KILL).",
		NotDecided:  "exactly-once and reverse order over all nestings and exits (needs the heights to be right, not merely maintained); the error object passed to handlers.",
		Assumptions: []string{"anchors (PopContext, EmitJump, emitTruncate, cleanupCloseStack, OpClStack) are resolved by symbol; a rename fails the check rather than passing"},
	},
	"C16": {
		ID:          "C16",
		Rules:       []string{"R-FOR", "R-PRIVREG", "R-SCOPE", "R-ARITHKIND"},
		Explanation: "Decides the structural part of 'numeric for loops iterate the manual's sequence and terminate': the three control expressions are held in private registers (evaluated once), the loop variable is a fresh register per iteration copied from the hidden counter, non-numbers and a zero step are errors, and every store to the hidden counter in the advance step depends on a limit comparison and an overflow comparison; the per-iteration scope is popped before the back jump (R-SCOPE). (R-ARITHKIND) The comparison the loop step uses (numIsLessThan) compares an integer with a float through the exact helpers, never through a float64 conversion of the integer, which rounds beyond 2^53 and would let the loop run past its limit.",
		NotDecided:  "that the comparisons compare the right operands in the right direction: the iteration sequence, clipping of float limits and the iteration count are functions of the operand values.",
		Assumptions: []string{"the numeric-for opcode block is located structurally (the block reading A, B, C and branching on F with three register reads)"},
	},
	"C11": {
		ID:          "C11",
		Rules:       []string{"R-ERRFLOW", "R-KILL", "R-POOL", "R-RECURSION"},
		Explanation: "Decides structural necessary conditions of 'errors reach exactly the nearest protected call, with their value and position intact': no Lua-error-returning runtime operation has its error discarded (table-listed debug-hook triggers aside); every error return of the interpreter loop stores the program counter first (line attribution); a Go function's error is returned unchanged; the only frames that stop panics are the inventoried ones (pcall/xpcall/coroutine functions contain no recover and reach protected execution through CallContext) and none of them can swallow a termination; a continuation is not recycled on the error path (it is still needed for the traceback / message handler). (R-RECURSION, guard shape only) The call-depth counters that a caught 'stack overflow' must leave balanced are decremented by a deferred call on every exit after their increment.",
		NotDecided:  "identity of the error value through every path, the exact message prefixes, xpcall handler semantics, and consistency of the program state after a caught error.",
		Assumptions: []string{"the list of Lua-error-returning runtime operations (luaErrorFuncs) was compiled by reading runtime/lib.go and thread.go"},
	},
	"C14": {
		ID:          "C14",
		Rules:       []string{"R-CONFIGS", "R-POOL", "R-FINALIZE", "R-RELEASE"},
		Explanation: "Decides structural necessary conditions of 'performance build options never change behaviour': every build configuration type-checks (same API for the same callers); the noquotas manager's metering methods are pure no-ops and its push/pop handle non-quota state like the default one; pooled objects are released only by their owners, never from a deferred function, only on the no-error path, and not used afterwards (what distinguishes the pooled from the unpooled builds); the two finaliser-pool implementations agree that every mark re-stamps the mark order; constructors and destructors of continuations mirror each other (R-RELEASE pairs), under every configuration in the thorough tier.",
		NotDecided:  "equality of behaviour across configurations over all programs; that a recycled register set is indistinguishable from a fresh one (zeroing is checked only as 'released objects are not used again').",
		Assumptions: []string{"the noscalar tag is not a configuration: at the pinned commit runtime/value_noscalar.go does not compile, and the property does not list it"},
	},
	"C20": {
		ID:          "C20",
		Rules:       []string{"R-GLOBALS", "R-GO"},
		Explanation: "Decides the structural content of 'two Runtime values share no mutable state': outside package initialisation nothing in the runtime, libraries or front end stores to a package-level variable, into the object one refers to, passes one to a function that writes through that parameter (mod-ref summaries), or calls a standard-library function acting on process-wide state; and nothing but Thread.Start starts a goroutine. Each remaining hit is a listed finding or a table entry.",
		NotDecided:  "behavioural equality of interleaved runs; race freedom in general (state reachable only through a *Runtime that the host itself shares between goroutines is the host's responsibility).",
		Assumptions: []string{"mod-ref summaries follow static calls; a write through an interface method or function value stored in a package-level variable is not followed", "the process-wide standard-library list was compiled by hand (math/rand top level, debug.Set*, os.Setenv/Chdir, log.Set*)"},
	},
}
