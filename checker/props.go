package main

var propTable = map[string]*propSpec{
	"C08": {
		ID:    "C08",
		Rules: []string{"R-REGTABLE", "R-IOSAFE", "R-GATE"},
		Explanation: "Decides, from the type-checked SSA program and the VTA call graph of /repo's current source, the structural content of 'compliance flags gate every Go function; iosafe means no access to the outside': " +
			"(1) every Go function installed into a Lua-callable GoFunction is known with its declared flags (R-REGTABLE, cross-checked against the call graph's callee set of the dispatch site); " +
			"(2) the only call through GoFunction.f is dominated by the flag check and unreachable from its failure branch, flags are only ever or-ed (R-GATE a,b); " +
			"(3) every safeio gate tests ComplyIoSafe before its sink, and no module code outside the gates/host tools calls a sink (R-GATE c,d); " +
			"(4) no call path from an iosafe-declared function reaches a sink (R-IOSAFE). This is a statement about all call paths in the source, which an over-approximate call graph decides.",
		NotDecided: "the behaviour of the operating system behind a sink; effects through an already-open file handle obtained before the restricted context was entered (a capability the host handed over); reading the environment or the clock; functions registered by embedders outside this repository.",
		Assumptions: []string{
			"VTA+CHA call graph over-approximates calls for this code: no cgo/assembly in the module, reflect only in lib/golib (which declares no flags), go:linkname only for two hash leaves",
			"the sink list (tables.go ioSinks) enumerates the standard-library entry points for the effects the property lists",
			"the flag-gated dynamic dispatch c.f(t,c) may be cut from reachability because R-GATE proves the flag check dominates it",
		},
	},
}
