package main

import (
	"fmt"
	"go/token"
	"go/types"
	"os"
	"sort"

	"golang.org/x/tools/go/ssa"
)

func init() { registerRule("R-INDEX", false, ruleIndex) }

// indexTable: variable-index accesses that no branch decision bounds, with the invariant that does.
var indexTable = map[string]string{
	"(*lib/stringlib.unpacker).readSignExt:u.pack[u.j]": "j is the old value of u.j; the test n > 0 && u.j <= len(u.pack) on the new value (old + n) bounds it",
}

// ruleIndex: a slice or string indexed with a computed position is bounded on the way there.
func ruleIndex(c *Ctx) *RuleResult {
	r := newResult("R-INDEX", "a contradiction rule for the runtime, the front end and the Lua-callable library functions (runtime, scanner, parsing, ast, astcomp, ir, ircomp, code, lib/*, luastrings): when a function compares an index i with len(x) (or with the length of a slice made with the same length) somewhere, its author holds that i can run past the end of x; every path from the point where i gets its value to a use x[i] must then cross the in-range edge of one of those comparisons (or the use is proved in range by the branch decisions on the way, or table-listed). A use reachable around all of them is reached with an unchecked index: a Go run-time panic that no pcall catches")
	p := c.P
	type site struct {
		f   *ssa.Function
		ins ssa.Instruction
		x   ssa.Value
		idx ssa.Value
	}
	var sites []site
	for _, f := range p.ModFuncs() {
		rel := relPkg(funcPkgPath(f))
		if !(len(rel) > 4 && rel[:4] == "lib/") && rel != "luastrings" && rel != "runtime" && rel != "ast" && rel != "scanner" && rel != "parsing" && rel != "code" && rel != "ir" && rel != "ircomp" && rel != "astcomp" {
			continue
		}
		if rel == "lib/golib" || rel == "lib/golib/goimports" || f.Blocks == nil {
			continue
		}
		forEachInstr(f, func(ins ssa.Instruction) {
			switch x := ins.(type) {
			case *ssa.IndexAddr:
				if _, ok := x.X.Type().Underlying().(*types.Slice); !ok {
					return
				}
				if _, isK := constInt(x.Index); isK {
					return
				}
				sites = append(sites, site{f, ins, x.X, x.Index})
			case *ssa.Lookup:
				if _, isMap := x.X.Type().Underlying().(*types.Map); isMap {
					return
				}
				if _, isK := constInt(x.Index); isK {
					return
				}
				sites = append(sites, site{f, ins, x.X, x.Index})
			}
		})
	}
	r.count("computed_index_sites", len(sites))
	sameLen := func(a, b ssa.Value) bool {
		a, b = stripConv(a), stripConv(b)
		if a == b || sameValue(a, b) {
			return true
		}
		// b made with len(a) or both made with the same length
		lenSrc := func(v ssa.Value) ssa.Value {
			if mk, ok := v.(*ssa.MakeSlice); ok {
				if lc, ok := stripConv(mk.Len).(*ssa.Call); ok && isLenCall(lc) {
					return stripConv(lc.Call.Args[0])
				}
			}
			return nil
		}
		if s := lenSrc(a); s != nil && (s == b || sameValue(s, b)) {
			return true
		}
		if s := lenSrc(b); s != nil && (s == a || sameValue(s, a)) {
			return true
		}
		if sa, sb := lenSrc(a), lenSrc(b); sa != nil && sb != nil && (sa == sb || sameValue(sa, sb)) {
			return true
		}
		return false
	}
	var keys []string
	byKey := map[string]site{}
	for _, s := range sites {
		idx := stripConv(s.idx)
		// range loop index: extract #0 of a Next, or the rotated range-over-slice induction
		if ex, ok := idx.(*ssa.Extract); ok {
			if _, isNext := ex.Tuple.(*ssa.Next); isNext {
				r.ok("")
				continue
			}
		}
		bounded := false
		gc := newGuardCtx(s.f)
		gc.ExcludeErrorPaths(s.ins.Block())
		for _, ge := range gc.MustEdges(s.ins.Block()) {
			rel, ok := ge.Relation()
			if !ok {
				continue
			}
			a, b, op := stripConv(rel.A), stripConv(rel.B), rel.Op
			isIdx := func(v ssa.Value) bool {
				if v == idx {
					return true
				}
				// idx = v + const or v - const with the guard on v: accept only i-1 style when guard is on i with strict >
				return false
			}
			if isIdx(b) {
				a, b, op = b, a, flipOp(op)
			}
			if !isIdx(a) {
				continue
			}
			if op != token.LSS && op != token.LEQ && op != token.NEQ && op != token.EQL {
				continue
			}
			// b is len(y) with y of the same length as x, possibly +/- const
			lb := b
			if bo, ok := lb.(*ssa.BinOp); ok && (bo.Op == token.SUB || bo.Op == token.ADD) {
				lb = stripConv(bo.X)
			}
			if lc, ok := lb.(*ssa.Call); ok && isLenCall(lc) && sameLen(lc.Call.Args[0], s.x) {
				bounded = true
			}
		}
		if !bounded {
			// induction variable of a loop whose exit test compares it with len of x (rotated loops)
			if phi, ok := idx.(*ssa.Phi); ok {
				for _, ref := range *phi.Referrers() {
					if b, ok := ref.(*ssa.BinOp); ok && (b.Op == token.LSS || b.Op == token.GEQ || b.Op == token.LEQ || b.Op == token.GTR) && b.Block().Dominates(s.ins.Block()) {
						other := b.Y
						if stripConv(b.Y) == ssa.Value(phi) {
							other = b.X
						}
						if lc, ok := stripConv(other).(*ssa.Call); ok && isLenCall(lc) && sameLen(lc.Call.Args[0], s.x) {
							bounded = true
						}
					}
				}
			}
		}
		if bounded {
			r.ok("")
			continue
		}
		// contradiction form: the function does compare this index with the length of the
		// indexed value (or of a slice of the same length) somewhere — so its author holds
		// that it can run past the end — yet this use is not behind any of those tests
		believed := false
		type edge struct {
			from *ssa.BasicBlock
			idx  int
		}
		safe := map[edge]bool{}
		forEachInstr(s.f, func(o ssa.Instruction) {
			b, ok := o.(*ssa.BinOp)
			if !ok {
				return
			}
			var other ssa.Value
			idxLeft := false
			if x := stripConv(b.X); x == idx || sameValue(x, idx) {
				other, idxLeft = b.Y, true
			} else if y := stripConv(b.Y); y == idx || sameValue(y, idx) {
				other = b.X
			} else {
				return
			}
			lc, ok := stripConv(other).(*ssa.Call)
			if !ok || !isLenCall(lc) || !sameLen(lc.Call.Args[0], s.x) {
				return
			}
			op := b.Op
			if !idxLeft {
				op = flipOp(op)
			}
			// now the comparison reads `idx op len`: which edge means idx < len ?
			safeIdx := -1
			switch op {
			case token.LSS:
				safeIdx = 0
			case token.GEQ:
				safeIdx = 1
			default:
				return
			}
			believed = true
			for _, ref := range *b.Referrers() {
				if iff, ok := ref.(*ssa.If); ok {
					safe[edge{iff.Block(), safeIdx}] = true
				}
			}
		})
		if !believed {
			r.ok("")
			continue
		}
		// is the use reachable from where the index gets its value without crossing a safe edge?
		var start *ssa.BasicBlock
		if di, ok := idx.(*ssa.Phi); ok && di.Block() != nil {
			start = di.Block() // the value is (re)defined at the loop header
		} else {
			start = s.f.Blocks[0] // a parameter, or a field re-read on the way: from the entry
		}
		seenB := map[*ssa.BasicBlock]bool{start: true}
		q := []*ssa.BasicBlock{start}
		unguarded := start == s.ins.Block()
		for len(q) > 0 && !unguarded {
			b := q[0]
			q = q[1:]
			for i, sc := range b.Succs {
				if safe[edge{b, i}] || seenB[sc] {
					continue
				}
				if sc == s.ins.Block() {
					unguarded = true
					if os.Getenv("LUAVERIF_DEBUG") != "" {
						fmt.Fprintf(os.Stderr, "R-INDEX %s: reached block %d from block %d (%s)\n", fnKey(s.f), sc.Index, b.Index, p.InstrPos(firstPositioned(b)))
					}
					break
				}
				seenB[sc] = true
				q = append(q, sc)
			}
		}
		if !unguarded {
			r.ok("")
			continue
		}
		key := fnKey(s.f) + ":" + litName(s.x) + "[" + litName(s.idx) + "]"
		if _, dup := byKey[key]; !dup {
			keys = append(keys, key)
			byKey[key] = s
		}
	}
	sort.Strings(keys)
	for _, k := range keys {
		s := byKey[k]
		if why, ok := indexTable[k]; ok {
			r.ok("table: " + k + " — " + why)
			continue
		}
		r.fail("unbounded-index:"+k, p.InstrPos(s.ins), fmt.Sprintf("%s compares this index with the length elsewhere, but this use can be reached without passing the in-range side of any of those tests: %s", fnKey(s.f), k))
	}

	// A bound that is a sum must not be the thing compared with the length: `pos + n >
	// len(x)` wraps around when n is near the largest integer and the test passes; the
	// safe form compares one term with the difference (`n > len(x) - pos`). A slice or
	// index bound of the form a + b, neither a constant, is accepted only if some branch
	// decision on the way bounds a or b from above on its own.
	nSum := 0
	for _, f := range p.ModFuncs() {
		if f.Blocks == nil || f.Synthetic != "" || !luaReachablePkg(relPkg(funcPkgPath(f))) {
			continue
		}
		var gc *GuardCtx
		forEachInstr(f, func(ins ssa.Instruction) {
			var bounds []ssa.Value
			switch x := ins.(type) {
			case *ssa.Slice:
				if _, isStrOrSlice := x.X.Type().Underlying().(*types.Pointer); isStrOrSlice {
					return // slicing an array through a pointer: fixed size
				}
				bounds = []ssa.Value{x.Low, x.High}
			case *ssa.IndexAddr:
				if _, ok := x.X.Type().Underlying().(*types.Slice); ok {
					bounds = []ssa.Value{x.Index}
				}
			}
			for _, b := range bounds {
				if b == nil {
					continue
				}
				add, ok := stripConv(b).(*ssa.BinOp)
				if !ok || add.Op != token.ADD {
					continue
				}
				if bt, ok := add.Type().Underlying().(*types.Basic); !ok || bt.Info()&types.IsInteger == 0 {
					continue
				}
				if _, c1 := constInt(add.X); c1 {
					continue
				}
				if _, c2 := constInt(add.Y); c2 {
					continue
				}
				if gc == nil {
					gc = newGuardCtx(f)
				}
				// is the sum itself what gets compared, and is no term bounded on its own?
				sumCompared, termBounded := false, false
				for _, ge := range gc.MustEdges(ins.Block()) {
					rel, ok := ge.Relation()
					if !ok {
						continue
					}
					a, bb := stripConv(rel.A), stripConv(rel.B)
					if a == ssa.Value(add) || bb == ssa.Value(add) {
						sumCompared = true
					}
					for _, term := range []ssa.Value{stripConv(add.X), stripConv(add.Y)} {
						// term < K, term <= K (term on the small side) with K anything but the sum
						if (a == term && (rel.Op == token.LSS || rel.Op == token.LEQ) && bb != ssa.Value(add)) ||
							(bb == term && (rel.Op == token.GTR || rel.Op == token.GEQ) && a != ssa.Value(add)) {
							termBounded = true
						}
					}
				}
				if !sumCompared {
					continue // not the pattern (other rules look at unproved bounds)
				}
				nSum++
				key := fnKey(f) + ":" + litName(add)
				switch {
				case termBounded:
					r.ok("sum bound " + key + ": a term is bounded from above on its own")
				case sumTable[key] != "":
					r.ok("table: " + key + " — " + sumTable[key])
				default:
					r.fail("sum-compared-with-length:"+key, p.InstrPos(ins), fmt.Sprintf("%s uses %s as a bound after comparing the sum itself with a length, and nothing bounds either term from above: when one term is dictated by the program (a size read from the format or from the data) the sum wraps around, the comparison passes and the slice expression panics (string.unpack with a length prefix of 0x7ffffffffffffff8 killed the host); compare one term with the difference instead", fnKey(f), litName(add)))
				}
			}
		})
	}
	r.count("sum_bounds_compared_with_length", nSum)
	return r
}

// sumTable: accepted sums, one reason each.
var sumTable = map[string]string{}
