package main

import (
	"fmt"
	"sort"
	"strings"

	"golang.org/x/tools/go/callgraph"
	"golang.org/x/tools/go/ssa"
)

func init() {
	registerRule("R-REGTABLE", true, ruleRegTable)
	registerRule("R-IOSAFE", true, ruleIOSafe)
}

// ruleRegTable: every GoFunction construction is resolved to compile-time
// facts, and the table agrees with the call graph's view of the dispatch site.
func ruleRegTable(c *Ctx) *RuleResult {
	r := newResult("R-REGTABLE", "every construction of a *runtime.GoFunction (SetEnvGoFunc / NewGoFunction) resolves on SSA to {Go function(s), constant arity, constant hasEtc, constant compliance flags}; the functions in the table cover every callee the call graph finds at the dispatch site c.f(t,c) in (*GoCont).RunInThread; GoFunction values are built nowhere else")
	p := c.P
	t := c.Reg()
	for _, pr := range t.Problems {
		r.broken("%s", pr)
	}
	if len(t.Problems) > 0 {
		return r
	}
	r.count("registrations", len(t.Regs))
	withFlags := 0
	for _, reg := range t.Regs {
		if !reg.Resolved {
			r.fail("unresolved:"+reg.Key(), p.InstrPos(reg.Site), "registration not resolvable statically: "+reg.Why)
			continue
		}
		if !reg.FlagsOK {
			r.fail("flags-nonconstant:"+reg.Key(), p.InstrPos(reg.Site), "compliance flags declared with a non-constant expression")
			continue
		}
		if reg.Flags != 0 {
			withFlags++
		}
		r.ok(fmt.Sprintf("%s nArgs=%d etc=%v flags=%s", reg.Key(), reg.NArgs, reg.HasEtc, t.Bits.String(reg.Flags)))
	}
	r.count("registrations_with_flags", withFlags)
	r.floor("registrations", 120)
	r.floor("registrations_with_flags", 100)

	// Cross-check with the call graph: callees of c.f(t, c).
	run := p.Func("runtime", "(*GoCont).RunInThread")
	if run == nil {
		r.broken("anchor unresolved: runtime.(*GoCont).RunInThread")
		return r
	}
	g := p.CallGraph()
	n := g.Nodes[run]
	callees := map[*ssa.Function]bool{}
	if n != nil {
		for _, e := range n.Out {
			if p.isGatedDispatch(e) {
				callees[e.Callee.Func] = true
			}
		}
	}
	r.count("vta_dispatch_callees", len(callees))
	r.floor("vta_dispatch_callees", 100)
	var missing []string
	for f := range callees {
		if len(t.ByFunc[f]) == 0 {
			missing = append(missing, fnKey(f))
		}
	}
	sort.Strings(missing)
	for _, m := range missing {
		r.fail("dispatch-callee-not-in-table:"+m, "runtime/gocont.go", "the call graph finds "+m+" as a possible callee of c.f(t,c) but no registration installs it: the registration table is incomplete")
	}
	if len(missing) == 0 {
		r.ok(fmt.Sprintf("all %d VTA callees of c.f(t,c) are in the registration table", len(callees)))
	}

	// GoFunction values are constructed only in SetEnvGoFunc and NewGoFunction.
	gft := p.TypeNamed("runtime", "GoFunction")
	if gft == nil {
		r.broken("anchor unresolved: runtime.GoFunction")
		return r
	}
	for _, f := range p.ModFuncs() {
		for _, b := range f.Blocks {
			for _, ins := range b.Instrs {
				al, ok := ins.(*ssa.Alloc)
				if !ok {
					continue
				}
				if _, name, ok := namedOf(al.Type()); ok && name == "GoFunction" {
					rel, _, _ := namedOf(al.Type())
					if rel != "runtime" {
						continue
					}
					if f == t.SetEnvGo || f == t.NewGoFunc {
						r.ok("GoFunction allocated in " + fnKey(f))
					} else {
						r.fail("goFunction-constructed-elsewhere:"+fnKey(f), p.InstrPos(al), "a GoFunction value is constructed outside SetEnvGoFunc/NewGoFunction; the registration table does not see it")
					}
				}
			}
		}
	}
	return r
}

func isIOSink(f *ssa.Function) (string, bool) {
	n := fullName(f)
	what, ok := ioSinks[n]
	return what, ok
}

// ruleIOSafe: no path from an iosafe-declared Go function to an OS primitive
// except through a safeio gate.
func ruleIOSafe(c *Ctx) *RuleResult {
	r := newResult("R-IOSAFE", "for every Go function registered with ComplyIoSafe: no call path (VTA call graph; the flag-gated dispatch edge c.f(t,c) cut; package safeio not entered) reaches a sink of the frozen list (os/io/ioutil/filepath/os/exec/plugin/net/net/http/syscall entry points that open, read, create, modify or delete files or directories, start processes, load plugins or open connections), whether called directly from module code or through a chain of static calls inside the standard library")
	p := c.P
	t := c.Reg()
	if len(t.Problems) > 0 {
		for _, pr := range t.Problems {
			r.broken("%s", pr)
		}
		return r
	}
	r.Tables = append(r.Tables, fmt.Sprintf("ioSinks (%d symbols)", len(ioSinks)), fmt.Sprintf("ioSinkExceptionEdges (%d)", len(ioSinkExceptionEdges)))
	type src struct {
		fn  *ssa.Function
		reg *Registration
	}
	var sources []src
	seenSrc := map[*ssa.Function]bool{}
	for _, reg := range t.Regs {
		if reg.Flags&t.Bits.Io == 0 {
			continue
		}
		for _, f := range reg.Funcs {
			if !seenSrc[f] {
				seenSrc[f] = true
				sources = append(sources, src{f, reg})
			}
		}
	}
	r.count("iosafe_declared_functions", len(sources))
	r.floor("iosafe_declared_functions", 90)
	usedExceptions := map[string]bool{}
	totalReached := map[*ssa.Function]bool{}
	skipSafeio := func(callee *ssa.Function) bool { return relPkg(funcPkgPath(callee)) == "safeio" }
	type hit struct {
		e  *callgraph.Edge
		st searchState
	}
	collect := func(reach *Reach, srcs []*ssa.Function) []hit {
		var hits []hit
		reach.Run(srcs, func(e *callgraph.Edge, cur searchState) {
			if cur.mode == modeExtDynamic || p.InModule(e.Callee.Func) {
				return
			}
			if _, ok := isIOSink(e.Callee.Func); ok {
				hits = append(hits, hit{e, cur})
			}
		})
		return hits
	}
	// pass 1: all sources at once; only when a non-exception sink is reachable
	// from somewhere is the per-source search (which attributes paths) needed.
	var all []*ssa.Function
	for _, s := range sources {
		all = append(all, s.fn)
	}
	multi := &Reach{p: p, Skip: skipSafeio}
	needPerSource := false
	for _, h := range collect(multi, all) {
		lastMod, boundary := boundaryOf(p, multi, h.st, h.e)
		edgeKey := fnKey(lastMod) + "->" + fullName(boundary)
		if _, ok := ioSinkExceptionEdges[edgeKey]; ok {
			usedExceptions[edgeKey] = true
			continue
		}
		needPerSource = true
	}
	for _, f := range multi.ReachedModuleFuncs() {
		totalReached[f] = true
	}
	for _, s := range sources {
		if !needPerSource {
			r.ok(fmt.Sprintf("%s (%q): no sink reachable", fnKey(s.fn), s.reg.LuaName))
			continue
		}
		reach := &Reach{p: p, Skip: skipSafeio}
		hits := collect(reach, []*ssa.Function{s.fn})
		reported := map[string]bool{}
		for _, h := range hits {
			path := reach.PathTo(h.st, h.e)
			// find the boundary: last module function and the first external callee after it
			lastMod, boundary := boundaryOf(p, reach, h.st, h.e)
			edgeKey := fnKey(lastMod) + "->" + fullName(boundary)
			if _, ok := ioSinkExceptionEdges[edgeKey]; ok {
				usedExceptions[edgeKey] = true
				continue
			}
			key := fnKey(s.fn) + "=>" + edgeKey
			if reported[key] {
				continue
			}
			reported[key] = true
			what, _ := isIOSink(h.e.Callee.Func)
			r.fail(key, p.InstrPos(s.reg.Site),
				fmt.Sprintf("%s (Lua name %q) is declared iosafe but reaches %s (%s) without passing a safeio gate", fnKey(s.fn), s.reg.LuaName, fullName(h.e.Callee.Func), what),
				path...)
		}
		if len(reported) == 0 {
			r.ok(fmt.Sprintf("%s (%q): no sink reachable", fnKey(s.fn), s.reg.LuaName))
		}
	}
	r.count("module_functions_reachable_from_iosafe_sources", len(totalReached))
	for k := range usedExceptions {
		r.note("exception edge used: %s — %s", k, ioSinkExceptionEdges[k])
	}
	// Positive control: the search machinery must find os.OpenFile from safeio.OpenFile.
	if so := p.Func("safeio", "OpenFile"); so != nil {
		found := false
		reach := &Reach{p: p}
		reach.Run([]*ssa.Function{so}, func(e *callgraph.Edge, m searchState) {
			if fullName(e.Callee.Func) == "os.OpenFile" {
				found = true
			}
		})
		if !found {
			r.broken("positive control failed: sink os.OpenFile not found from safeio.OpenFile")
		}
	} else {
		r.broken("anchor unresolved: safeio.OpenFile")
	}
	return r
}

// boundaryOf walks the path backwards from the sink edge to find the last
// module function and the first external function called from it.
func boundaryOf(p *Program, reach *Reach, st searchState, last *callgraph.Edge) (*ssa.Function, *ssa.Function) {
	boundary := last.Callee.Func
	cur := st
	for !p.InModule(cur.fn) {
		h, ok := reach.prev[cur]
		if !ok || !h.valid {
			break
		}
		boundary = cur.fn
		cur = h.prev
	}
	return cur.fn, boundary
}

func shortList(xs []string, n int) string {
	if len(xs) > n {
		return strings.Join(xs[:n], ", ") + fmt.Sprintf(", … (%d more)", len(xs)-n)
	}
	return strings.Join(xs, ", ")
}
