package main

import (
	"go/token"
	"go/types"

	"golang.org/x/tools/go/ssa"
)

// guardEdge: an If whose successor `Taken` (true/false branch) lies on every
// path from the function entry to some target.
type guardEdge struct {
	If    *ssa.If
	Taken bool
}

// relation `A Op B` that holds on a guard edge, normalised (negation applied).
type relation struct {
	Op   token.Token
	A, B ssa.Value
}

func negateOp(op token.Token) token.Token {
	switch op {
	case token.LSS:
		return token.GEQ
	case token.LEQ:
		return token.GTR
	case token.GTR:
		return token.LEQ
	case token.GEQ:
		return token.LSS
	case token.EQL:
		return token.NEQ
	case token.NEQ:
		return token.EQL
	}
	return token.ILLEGAL
}

func flipOp(op token.Token) token.Token {
	switch op {
	case token.LSS:
		return token.GTR
	case token.LEQ:
		return token.GEQ
	case token.GTR:
		return token.LSS
	case token.GEQ:
		return token.LEQ
	}
	return op
}

func (g guardEdge) Relation() (relation, bool) {
	return relationOfCond(g.If.Cond, g.Taken, 0)
}

// relationOfCond: the comparison known to hold when cond evaluates to `holds`.
// Handles !x, comparisons, and boolean phis materialised for && / || with a
// single non-constant operand edge (x || y false => y false; x && y true => y true).
func relationOfCond(c ssa.Value, holds bool, depth int) (relation, bool) {
	if depth > 4 {
		return relation{}, false
	}
	for {
		if u, ok := c.(*ssa.UnOp); ok && u.Op == token.NOT {
			holds = !holds
			c = u.X
			continue
		}
		break
	}
	if phi, ok := c.(*ssa.Phi); ok {
		var nonConst ssa.Value
		n := 0
		for _, e := range phi.Edges {
			if k, isC := e.(*ssa.Const); isC {
				if v, ok := constInt(k); ok && (v != 0) == holds {
					return relation{}, false // a constant edge could explain the value
				}
				continue
			}
			nonConst = e
			n++
		}
		if n == 1 {
			return relationOfCond(nonConst, holds, depth+1)
		}
		return relation{}, false
	}
	b, ok := c.(*ssa.BinOp)
	if !ok {
		return relation{}, false
	}
	cb := condBranch{Op: b.Op, X: b.X, Y: b.Y}
	op := cb.Op
	if !holds {
		op = negateOp(op)
	}
	if op == token.ILLEGAL {
		return relation{}, false
	}
	switch op {
	case token.LSS, token.LEQ, token.GTR, token.GEQ, token.EQL, token.NEQ:
		return relation{Op: op, A: cb.X, B: cb.Y}, true
	}
	return relation{}, false
}

// GuardCtx answers "which branch decisions must have been taken to get here"
// for one function, optionally with some blocks excluded (proved not on the
// path, e.g. blocks that set an error which is later known to be nil).
type GuardCtx struct {
	f        *ssa.Function
	excluded map[*ssa.BasicBlock]bool
	cache    map[*ssa.BasicBlock][]guardEdge
}

func newGuardCtx(f *ssa.Function) *GuardCtx {
	return &GuardCtx{f: f, excluded: map[*ssa.BasicBlock]bool{}, cache: map[*ssa.BasicBlock][]guardEdge{}}
}

// reach reports whether `to` is reachable from the entry when the edge
// (cutFrom -> successor index cutIdx) is removed and excluded blocks are
// skipped. If viaFrom != nil, the question is whether the *edge* viaFrom->to is
// reachable (i.e. viaFrom reachable).
func (g *GuardCtx) reach(to *ssa.BasicBlock, cutFrom *ssa.BasicBlock, cutIdx int) bool {
	if len(g.f.Blocks) == 0 {
		return false
	}
	seen := map[*ssa.BasicBlock]bool{}
	stack := []*ssa.BasicBlock{g.f.Blocks[0]}
	for len(stack) > 0 {
		b := stack[len(stack)-1]
		stack = stack[:len(stack)-1]
		if seen[b] || g.excluded[b] {
			continue
		}
		seen[b] = true
		if b == to {
			return true
		}
		for i, s := range b.Succs {
			if b == cutFrom && i == cutIdx {
				continue
			}
			stack = append(stack, s)
		}
	}
	return false
}

// MustEdges returns the If-edges every path from entry to block `target` takes.
func (g *GuardCtx) MustEdges(target *ssa.BasicBlock) []guardEdge {
	if r, ok := g.cache[target]; ok {
		return r
	}
	var out []guardEdge
	for _, b := range g.f.Blocks {
		if len(b.Instrs) == 0 || g.excluded[b] {
			continue
		}
		iff, ok := b.Instrs[len(b.Instrs)-1].(*ssa.If)
		if !ok {
			continue
		}
		if b.Succs[0] == b.Succs[1] {
			continue
		}
		for i := 0; i < 2; i++ {
			// Is target unreachable without edge i? then edge i is a must-edge.
			if !g.reach(target, b, i) {
				// but only meaningful if target is reachable at all
				out = append(out, guardEdge{If: iff, Taken: i == 0})
			}
		}
	}
	if !g.reach(target, nil, -1) {
		out = nil // unreachable target: no facts (callers treat as vacuous)
	}
	g.cache[target] = out
	return out
}

// MustEdgesForEdge: facts that hold when control flows along from->to.
func (g *GuardCtx) MustEdgesForEdge(from, to *ssa.BasicBlock) []guardEdge {
	out := append([]guardEdge(nil), g.MustEdges(from)...)
	if len(from.Instrs) > 0 {
		if iff, ok := from.Instrs[len(from.Instrs)-1].(*ssa.If); ok && from.Succs[0] != from.Succs[1] {
			if from.Succs[0] == to {
				out = append(out, guardEdge{If: iff, Taken: true})
			} else if from.Succs[1] == to {
				out = append(out, guardEdge{If: iff, Taken: false})
			}
		}
	}
	return out
}

// definitelyNonNilError: v is a freshly made error value.
func definitelyNonNilError(v ssa.Value) bool {
	switch x := v.(type) {
	case *ssa.Call:
		if cal := x.Call.StaticCallee(); cal != nil {
			n := fullName(cal)
			if n == "errors.New" || n == "fmt.Errorf" {
				return true
			}
		}
	case *ssa.MakeInterface:
		if _, ok := x.X.(*ssa.Const); ok {
			return false
		}
		return true
	case *ssa.UnOp:
		// load of a package-level error variable (errPosOutOfRange): initialised
		// with errors.New at package init; treated as non-nil.
		if g, ok := x.X.(*ssa.Global); ok && x.Op == token.MUL {
			_ = g
			return true
		}
	}
	return false
}

// ExcludeErrorPaths: for the given target block, find must-edges of the form
// `err == nil` where err is a phi; the predecessor blocks that feed the phi a
// definitely-non-nil error cannot be on the path, so they are excluded (when
// they have the phi block as only successor). Iterates to a small fixpoint.
func (g *GuardCtx) ExcludeErrorPaths(target *ssa.BasicBlock) {
	for iter := 0; iter < 4; iter++ {
		changed := false
		for _, ge := range g.MustEdges(target) {
			rel, ok := ge.Relation()
			if !ok || rel.Op != token.EQL {
				continue
			}
			var ev ssa.Value
			if isNilConst(rel.B) {
				ev = rel.A
			} else if isNilConst(rel.A) {
				ev = rel.B
			} else {
				continue
			}
			phi, ok := ev.(*ssa.Phi)
			if !ok {
				continue
			}
			for i, e := range phi.Edges {
				pred := phi.Block().Preds[i]
				if definitelyNonNilError(e) && len(pred.Succs) == 1 && !g.excluded[pred] {
					g.excluded[pred] = true
					changed = true
				}
			}
		}
		if !changed {
			break
		}
		g.cache = map[*ssa.BasicBlock][]guardEdge{}
	}
}

func stripConv(v ssa.Value) ssa.Value {
	for {
		switch x := v.(type) {
		case *ssa.Convert:
			// only integer<->integer or string<->string conversions preserve the value
			if !sameKindConv(x) {
				return v
			}
			v = x.X
			continue
		case *ssa.ChangeType:
			v = x.X
			continue
		}
		return v
	}
}

func sameKindConv(c *ssa.Convert) bool {
	a, ok1 := c.X.Type().Underlying().(*types.Basic)
	b, ok2 := c.Type().Underlying().(*types.Basic)
	if !ok1 || !ok2 {
		return false
	}
	if a.Info()&types.IsInteger != 0 && b.Info()&types.IsInteger != 0 {
		return true
	}
	return a.Info()&types.IsString != 0 && b.Info()&types.IsString != 0
}
