package main

import (
	"fmt"
	"go/types"
	"sort"
	"strings"

	"golang.org/x/tools/go/ssa"
)

func init() {
	registerRule("R-PANIC", false, rulePanic)
}

// recoverInfo describes a function whose frame stops panics: it defers a
// function that calls recover().
type recoverInfo struct {
	Frame     *ssa.Function // the function that defers
	Handler   *ssa.Function // the deferred function calling recover()
	Repanics  bool          // the handler re-panics (some) recovered values
	Accepts   []types.Type  // with Repanics: the types it keeps; without: everything
	AcceptAll bool
}

func derivesFromRecover(v ssa.Value, depth int) bool {
	if depth > 6 || v == nil {
		return false
	}
	switch x := v.(type) {
	case *ssa.Call:
		if b, ok := x.Call.Value.(*ssa.Builtin); ok && b.Name() == "recover" {
			return true
		}
	case *ssa.Phi:
		for _, e := range x.Edges {
			if derivesFromRecover(e, depth+1) {
				return true
			}
		}
	case *ssa.MakeInterface:
		return derivesFromRecover(x.X, depth+1)
	case *ssa.ChangeInterface:
		return derivesFromRecover(x.X, depth+1)
	case *ssa.TypeAssert:
		return derivesFromRecover(x.X, depth+1)
	case *ssa.Extract:
		return derivesFromRecover(x.Tuple, depth+1)
	case *ssa.UnOp:
		// load of a local the recovered value was stored into
		if a, ok := x.X.(*ssa.Alloc); ok {
			for _, r := range *a.Referrers() {
				if st, ok := r.(*ssa.Store); ok && st.Addr == a && derivesFromRecover(st.Val, depth+1) {
					return true
				}
			}
		}
		if fv, ok := x.X.(*ssa.FreeVar); ok {
			_ = fv
		}
	case *ssa.Parameter:
		// a handler helper that receives the recovered value (t.end(..., r))
		return false
	}
	return false
}

func collectRecovers(p *Program) []*recoverInfo {
	handlers := map[*ssa.Function]*recoverInfo{}
	for _, f := range p.ModFuncs() {
		has := false
		forEachInstr(f, func(ins ssa.Instruction) {
			if c, ok := ins.(*ssa.Call); ok {
				if b, ok := c.Call.Value.(*ssa.Builtin); ok && b.Name() == "recover" {
					has = true
				}
			}
		})
		if !has {
			continue
		}
		ri := &recoverInfo{Handler: f}
		forEachInstr(f, func(ins ssa.Instruction) {
			switch x := ins.(type) {
			case *ssa.Panic:
				if derivesFromRecover(x.X, 0) {
					ri.Repanics = true
				}
			case *ssa.TypeAssert:
				if derivesFromRecover(x.X, 0) {
					ri.Accepts = append(ri.Accepts, x.AssertedType)
				}
			case ssa.CallInstruction:
				// the recovered value handed to another function that may re-panic it
				// (Thread.Start: t.end(..., r) forwards to the resumer): treated as a forwarder
				for _, a := range x.Common().Args {
					if derivesFromRecover(a, 0) {
						if cal := x.Common().StaticCallee(); cal != nil && p.InModule(cal) {
							ri.Repanics = true
						}
					}
				}
			}
		})
		ri.AcceptAll = !ri.Repanics
		handlers[f] = ri
	}
	var out []*recoverInfo
	for _, f := range p.ModFuncs() {
		forEachInstr(f, func(ins ssa.Instruction) {
			d, ok := ins.(*ssa.Defer)
			if !ok {
				return
			}
			var h *ssa.Function
			if sc := d.Call.StaticCallee(); sc != nil {
				h = sc
			} else if mc, ok := d.Call.Value.(*ssa.MakeClosure); ok {
				h = mc.Fn.(*ssa.Function)
			}
			if ri := handlers[h]; ri != nil {
				cp := *ri
				cp.Frame = f
				out = append(out, &cp)
			}
		})
	}
	sort.Slice(out, func(i, j int) bool { return fnKey(out[i].Frame) < fnKey(out[j].Frame) })
	return out
}

func typeKey(t types.Type) string {
	s := types.TypeString(t, func(p *types.Package) string { return relPkg(p.Path()) })
	return s
}

func (ri *recoverInfo) accepts(t types.Type) bool {
	if ri.AcceptAll {
		return true
	}
	for _, a := range ri.Accepts {
		if types.Identical(a, t) {
			return true
		}
		if it, ok := a.Underlying().(*types.Interface); ok && types.Implements(t, it) {
			return true
		}
	}
	return false
}

type panicSite struct {
	Fn   *ssa.Function
	Ins  *ssa.Panic
	Type types.Type
	Desc string
}

func rulePanic(c *Ctx) *RuleResult {
	r := newResult("R-PANIC", "every explicit panic(x) in the compile pipeline, runtime and libraries whose value is not a re-panic of a recovered value is, on every call chain from an embedding-API entry point or a Lua-callable Go function, below a frame whose deferred recover() keeps values of x's static type (swallows/convert everything, or type-asserts that type before re-panicking the rest); otherwise the site must be table-listed as an internal invariant with the reason no input reaches it. Escaping panics crash the host")
	p := c.P
	recs := collectRecovers(p)
	r.count("recover_frames", len(recs))
	r.floor("recover_frames", 12)
	for _, ri := range recs {
		acc := "everything"
		if !ri.AcceptAll {
			var ts []string
			for _, a := range ri.Accepts {
				ts = append(ts, typeKey(a))
			}
			acc = "only " + strings.Join(ts, ", ") + " (re-panics the rest)"
		}
		r.note("recover frame %s (handler %s) keeps %s", fnKey(ri.Frame), fnKey(ri.Handler), acc)
	}
	// panic sites
	var sites []panicSite
	for _, f := range p.ModFuncs() {
		if !luaReachablePkg(relPkg(funcPkgPath(f))) {
			continue
		}
		forEachInstr(f, func(ins ssa.Instruction) {
			pn, ok := ins.(*ssa.Panic)
			if !ok {
				return
			}
			if derivesFromRecover(pn.X, 0) {
				return
			}
			var t types.Type = pn.X.Type()
			desc := ""
			if mi, ok := pn.X.(*ssa.MakeInterface); ok {
				t = mi.X.Type()
				if s, ok := constString(mi.X); ok {
					desc = fmt.Sprintf("%q", s)
				}
			}
			if prm, ok := pn.X.(*ssa.Parameter); ok {
				_ = prm
				desc = "(parameter)"
			}
			sites = append(sites, panicSite{Fn: f, Ins: pn, Type: t, Desc: desc})
		})
	}
	r.count("explicit_panic_sites", len(sites))
	r.floor("explicit_panic_sites", 40)

	// roots: embedding API (exported functions/methods of package runtime and the
	// compile front ends) and every registered Go function.
	var roots []*ssa.Function
	t := c.Reg()
	for _, reg := range t.Regs {
		roots = append(roots, reg.Funcs...)
	}
	for _, f := range p.ModFuncs() {
		rel := relPkg(funcPkgPath(f))
		if f.Parent() != nil || f.Synthetic != "" {
			continue
		}
		if rel == "runtime" {
			if o := f.Object(); o != nil && o.Exported() {
				// methods: receiver type must be exported too
				if recv := f.Signature.Recv(); recv != nil {
					_, tn, ok := namedOf(recv.Type())
					if !ok || !isExportedName(tn) {
						continue
					}
				}
				roots = append(roots, f)
			}
		}
	}
	r.count("roots", len(roots))

	// group sites by type; for each type compute reachability avoiding frames that keep it
	byType := map[string][]panicSite{}
	typeOf := map[string]types.Type{}
	for _, s := range sites {
		k := typeKey(s.Type)
		byType[k] = append(byType[k], s)
		typeOf[k] = s.Type
	}
	var tkeys []string
	for k := range byType {
		tkeys = append(tkeys, k)
	}
	sort.Strings(tkeys)
	used := map[string]int{}
	for _, tk := range tkeys {
		keepers := map[*ssa.Function]bool{}
		for _, ri := range recs {
			if ri.accepts(typeOf[tk]) {
				keepers[ri.Frame] = true
			}
		}
		reach := &Reach{p: p, PreciseCallbacks: true}
		reach.Skip = func(callee *ssa.Function) bool {
			return keepers[callee] || (p.InModule(callee) && !luaReachablePkg(relPkg(funcPkgPath(callee))))
		}
		var rts []*ssa.Function
		for _, rt := range roots {
			if !keepers[rt] && luaReachablePkg(relPkg(funcPkgPath(rt))) {
				rts = append(rts, rt)
			}
		}
		reach.Run(rts, nil)
		if tk == "runtime.ContextTerminationError" {
			for range byType[tk] {
				r.ok("panic(runtime.ContextTerminationError): termination of a resource-limited context is an ordinary outcome by design (kept by CallContext; reaches the host only for a limit the host itself set on the root context)")
			}
			continue
		}
		for _, s := range byType[tk] {
			st := searchState{fn: s.Fn, mode: modeModule}
			_, escaping := reach.prev[st]
			key := fnKey(s.Fn) + ":" + tk
			if !escaping {
				r.ok(fmt.Sprintf("panic(%s %s) in %s is always below a recover that keeps it", tk, s.Desc, fnKey(s.Fn)))
				continue
			}
			if why, ok := internalPanics[key]; ok {
				used[key]++
				if used[key] <= why.count {
					r.ok(fmt.Sprintf("table: panic(%s %s) in %s — %s", tk, s.Desc, fnKey(s.Fn), why.reason))
					continue
				}
				r.fail("panic-escapes:"+key+":extra", p.InstrPos(s.Ins), fmt.Sprintf("%s has more panic(%s) sites than the %d the internal-invariant table accounts for", fnKey(s.Fn), tk, why.count))
				continue
			}
			path := reach.PathTo(st, nil)
			if len(path) > 10 {
				path = append(path[:4], append([]string{"…"}, path[len(path)-5:]...)...)
			}
			r.fail("panic-escapes:"+key, p.InstrPos(s.Ins), fmt.Sprintf("panic(%s %s) in %s can propagate to the embedding caller: some call chain from an entry point reaches it without a frame whose recover keeps %s", tk, s.Desc, fnKey(s.Fn), tk), path...)
		}
	}
	for k, e := range internalPanics {
		if used[k] == 0 {
			r.note("table entry unused (site gone or now protected): %s", k)
		}
		_ = e
	}
	r.Tables = append(r.Tables, fmt.Sprintf("internalPanics (%d entries)", len(internalPanics)))
	return r
}

func isExportedName(n string) bool {
	return n != "" && n[0] >= 'A' && n[0] <= 'Z'
}
