package main

import (
	"bufio"
	"encoding/json"
	"fmt"
	"os"
	"path/filepath"
	"sort"
	"strings"
)

// Finding is one violated obligation: a specific construct that breaks a rule.
type Finding struct {
	Rule   string   `json:"rule"`
	Key    string   `json:"key"` // rule + construct, never a line number
	Pos    string   `json:"pos"`
	Msg    string   `json:"msg"`
	Path   []string `json:"path,omitempty"`
	Config string   `json:"config,omitempty"`
}

// RuleResult is what one rule reports about one load of the repository.
type RuleResult struct {
	Rule        string         `json:"rule"`
	Text        string         `json:"text"` // the rule applied, in words
	Counters    map[string]int `json:"analysed"`
	Obligations int            `json:"obligations"`
	Discharged  int            `json:"discharged"`
	Samples     []string       `json:"samples,omitempty"`
	Findings    []Finding      `json:"findings,omitempty"`
	Broken      []string       `json:"broken,omitempty"` // anchors unresolved, floors missed, undecided machinery
	Notes       []string       `json:"notes,omitempty"`
	Tables      []string       `json:"tables_applied,omitempty"`
}

func newResult(rule, text string) *RuleResult {
	return &RuleResult{Rule: rule, Text: text, Counters: map[string]int{}}
}

func (r *RuleResult) count(k string, n int) { r.Counters[k] += n }

// ok records a discharged obligation (and keeps a few as samples).
func (r *RuleResult) ok(sample string) {
	r.Obligations++
	r.Discharged++
	if sample != "" && len(r.Samples) < 12 {
		r.Samples = append(r.Samples, sample)
	}
}

// fail records a violated obligation.
func (r *RuleResult) fail(key, pos, msg string, path ...string) {
	r.Obligations++
	r.Findings = append(r.Findings, Finding{Rule: r.Rule, Key: r.Rule + "|" + strings.ReplaceAll(key, " ", "_"), Pos: pos, Msg: msg, Path: path})
}

func (r *RuleResult) broken(format string, a ...interface{}) {
	r.Broken = append(r.Broken, fmt.Sprintf(format, a...))
}

func (r *RuleResult) note(format string, a ...interface{}) {
	r.Notes = append(r.Notes, fmt.Sprintf(format, a...))
}

// floor fails the rule as broken (not as violated) when fewer instances than
// the hand-confirmed floor were found: a rule matching nothing must not pass.
func (r *RuleResult) floor(counter string, min int) {
	if r.Counters[counter] < min {
		r.broken("floor: %s=%d < %d (rule would pass vacuously; anchors moved?)", counter, r.Counters[counter], min)
	}
}

// ---------------------------------------------------------------------------
// known findings

type knownEntry struct {
	Kind     string // "known" or "fixed"
	Property string
	Key      string
	Text     string
	Commit   string
}

func verifDir() string {
	if d := os.Getenv("LUAVERIF_HOME"); d != "" {
		return d
	}
	return "/verif"
}

// evidenceDir: where evidence is written. The checker's own test scripts (seeded
// regressions applied to /repo) redirect it so that /verif/evidence only ever
// holds results of runs against /repo as committed.
func evidenceDir() string {
	if d := os.Getenv("LUAVERIF_EVIDENCE"); d != "" {
		return d
	}
	return filepath.Join(verifDir(), "evidence")
}

// loadKnown parses /verif/known-findings.txt. Lines:
//
//	known: property=C08 key=<rule|construct> :: <what fails>
//	fixed: property=C08 <commit> key=<rule|construct> :: <what failed>
func loadKnown() ([]knownEntry, error) {
	f, err := os.Open(filepath.Join(verifDir(), "known-findings.txt"))
	if err != nil {
		if os.IsNotExist(err) {
			return nil, nil
		}
		return nil, err
	}
	defer f.Close()
	var out []knownEntry
	sc := bufio.NewScanner(f)
	sc.Buffer(make([]byte, 1<<20), 1<<20)
	ln := 0
	for sc.Scan() {
		ln++
		line := strings.TrimSpace(sc.Text())
		if line == "" || strings.HasPrefix(line, "#") {
			continue
		}
		var e knownEntry
		switch {
		case strings.HasPrefix(line, "known:"):
			e.Kind = "known"
			line = strings.TrimSpace(line[len("known:"):])
		case strings.HasPrefix(line, "fixed:"):
			e.Kind = "fixed"
			line = strings.TrimSpace(line[len("fixed:"):])
		default:
			return nil, fmt.Errorf("known-findings.txt:%d: unrecognised line", ln)
		}
		head, text, _ := strings.Cut(line, "::")
		e.Text = strings.TrimSpace(text)
		for _, w := range strings.Fields(head) {
			switch {
			case strings.HasPrefix(w, "property="):
				e.Property = w[len("property="):]
			case strings.HasPrefix(w, "key="):
				e.Key = w[len("key="):]
			default:
				e.Commit = w
			}
		}
		if e.Property == "" || e.Key == "" {
			return nil, fmt.Errorf("known-findings.txt:%d: needs property= and key=", ln)
		}
		out = append(out, e)
	}
	return out, sc.Err()
}

// ---------------------------------------------------------------------------
// evidence

type evidence struct {
	PropertyID  string                 `json:"property_id"`
	Tier        string                 `json:"tier"`
	Seed        int                    `json:"seed"`
	Level       string                 `json:"level"`
	Coverage    map[string]interface{} `json:"coverage"`
	Assumptions []string               `json:"assumptions"`
	WallS       float64                `json:"wall_s"`
	Violations  int                    `json:"violations"`
}

func writeJSON(path string, v interface{}) error {
	if err := os.MkdirAll(filepath.Dir(path), 0o755); err != nil {
		return err
	}
	b, err := json.MarshalIndent(v, "", " ")
	if err != nil {
		return err
	}
	return os.WriteFile(path, append(b, '\n'), 0o644)
}

func sortFindings(fs []Finding) {
	sort.SliceStable(fs, func(i, j int) bool {
		if fs[i].Key != fs[j].Key {
			return fs[i].Key < fs[j].Key
		}
		return fs[i].Config < fs[j].Config
	})
}
