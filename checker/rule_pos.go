package main

import (
	"fmt"
	"go/token"
	"go/types"

	"golang.org/x/tools/go/ssa"
)

func init() {
	registerRule("R-POS", false, rulePos)
}

// relBound: v >= lb (absolute) and v <= len(s)+ub. self marks a loop-carried
// recursive occurrence (neutral in joins).
type relBound struct {
	lbKnown, ubKnown bool
	lb, ub           int64
	self             bool
}

func (b relBound) String() string {
	s := ""
	if b.lbKnown {
		s += fmt.Sprintf(">=%d", b.lb)
	} else {
		s += ">=?"
	}
	if b.ubKnown {
		s += fmt.Sprintf(" <=len%+d", b.ub)
	} else {
		s += " <=?"
	}
	return s
}

type posAnalysis struct {
	p      *Program
	f      *ssa.Function
	s      ssa.Value // the subject string
	gc     *GuardCtx
	taint  map[ssa.Value]bool
	clamps map[*ssa.Function]string // "min" / "max"
}

// clampKind recognises `func(a, b int) int { if a OP b { return a }; return b }`.
func clampKind(f *ssa.Function) string {
	if f == nil || len(f.Params) != 2 || f.Signature.Results().Len() != 1 || len(f.Blocks) == 0 || len(f.Blocks) > 4 {
		return ""
	}
	iff, ok := f.Blocks[0].Instrs[len(f.Blocks[0].Instrs)-1].(*ssa.If)
	if !ok {
		return ""
	}
	cb, ok := condOf(iff)
	if !ok || cb.Neg {
		return ""
	}
	a, b := f.Params[0], f.Params[1]
	retOf := func(blk *ssa.BasicBlock) ssa.Value {
		for d := 0; d < 3 && blk != nil; d++ {
			for _, ins := range blk.Instrs {
				if r, ok := ins.(*ssa.Return); ok && len(r.Results) == 1 {
					return r.Results[0]
				}
			}
			if len(blk.Succs) == 1 {
				blk = blk.Succs[0]
			} else {
				break
			}
		}
		return nil
	}
	tv, fv := retOf(f.Blocks[0].Succs[0]), retOf(f.Blocks[0].Succs[1])
	if tv == nil || fv == nil {
		// single return through a phi
		return ""
	}
	var x, y ssa.Value = cb.X, cb.Y
	op := cb.Op
	if x == b && y == a {
		x, y = a, b
		op = flipOp(op)
	}
	if x != a || y != b {
		return ""
	}
	// a OP b: true -> tv, false -> fv
	switch op {
	case token.LSS, token.LEQ:
		if tv == a && fv == b {
			return "min"
		}
		if tv == b && fv == a {
			return "max"
		}
	case token.GTR, token.GEQ:
		if tv == a && fv == b {
			return "max"
		}
		if tv == b && fv == a {
			return "min"
		}
	}
	return ""
}

func (a *posAnalysis) isLenS(v ssa.Value) bool {
	v = stripConv(v)
	call, ok := v.(*ssa.Call)
	if !ok {
		return false
	}
	b, ok := call.Call.Value.(*ssa.Builtin)
	if !ok || b.Name() != "len" || len(call.Call.Args) != 1 {
		return false
	}
	return stripConv(call.Call.Args[0]) == stripConv(a.s)
}

func joinUB(x, y relBound) relBound { // for phi: weakest
	if x.self {
		return y
	}
	if y.self {
		return x
	}
	r := relBound{}
	if x.lbKnown && y.lbKnown {
		r.lbKnown = true
		r.lb = x.lb
		if y.lb < r.lb {
			r.lb = y.lb
		}
	}
	if x.ubKnown && y.ubKnown {
		r.ubKnown = true
		r.ub = x.ub
		if y.ub > r.ub {
			r.ub = y.ub
		}
	}
	return r
}

func tighten(x *relBound, lbKnown bool, lb int64, ubKnown bool, ub int64) {
	if lbKnown && (!x.lbKnown || lb > x.lb) {
		x.lbKnown, x.lb = true, lb
	}
	if ubKnown && (!x.ubKnown || ub < x.ub) {
		x.ubKnown, x.ub = true, ub
	}
}

// eval computes the bound of v under the facts `facts` (guard edges that hold).
func (a *posAnalysis) eval(v ssa.Value, facts []guardEdge, depth int, onstack map[ssa.Value]bool) relBound {
	if depth > 12 {
		return relBound{}
	}
	v0 := v
	v = stripConv(v)
	var b relBound
	if onstack[v] {
		return relBound{self: true}
	}
	switch x := v.(type) {
	case *ssa.Const:
		if k, ok := constInt(x); ok {
			b = relBound{lbKnown: true, lb: k, ubKnown: true, ub: k}
		}
	case *ssa.Call:
		if a.isLenS(x) {
			b = relBound{lbKnown: true, lb: 0, ubKnown: true, ub: 0}
			break
		}
		if bi, ok := x.Call.Value.(*ssa.Builtin); ok && bi.Name() == "len" {
			b = relBound{lbKnown: true, lb: 0}
			break
		}
		cal := x.Call.StaticCallee()
		if kind := a.clamps[cal]; kind != "" && len(x.Call.Args) == 2 {
			l := a.eval(x.Call.Args[0], facts, depth+1, onstack)
			r := a.eval(x.Call.Args[1], facts, depth+1, onstack)
			if kind == "min" {
				if l.ubKnown || r.ubKnown {
					b.ubKnown = true
					switch {
					case l.ubKnown && r.ubKnown:
						b.ub = l.ub
						if r.ub < b.ub {
							b.ub = r.ub
						}
					case l.ubKnown:
						b.ub = l.ub
					default:
						b.ub = r.ub
					}
				}
				if l.lbKnown && r.lbKnown {
					b.lbKnown = true
					b.lb = l.lb
					if r.lb < b.lb {
						b.lb = r.lb
					}
				}
			} else {
				if l.lbKnown || r.lbKnown {
					b.lbKnown = true
					switch {
					case l.lbKnown && r.lbKnown:
						b.lb = l.lb
						if r.lb > b.lb {
							b.lb = r.lb
						}
					case l.lbKnown:
						b.lb = l.lb
					default:
						b.lb = r.lb
					}
				}
				if l.ubKnown && r.ubKnown {
					b.ubKnown = true
					b.ub = l.ub
					if r.ub > b.ub {
						b.ub = r.ub
					}
				}
			}
		}
	case *ssa.BinOp:
		if x.Op == token.ADD || x.Op == token.SUB {
			if k, ok := constInt(x.Y); ok {
				if x.Op == token.SUB {
					k = -k
				}
				onstack[v] = true
				l := a.eval(x.X, facts, depth+1, onstack)
				delete(onstack, v)
				if l.self {
					// loop-carried increment: neutral for the side it moves away from
					b = relBound{self: true}
					return b
				}
				b = l
				b.lb += k
				b.ub += k
			} else if k, ok := constInt(x.X); ok && x.Op == token.ADD {
				l := a.eval(x.Y, facts, depth+1, onstack)
				if l.self {
					return relBound{self: true}
				}
				b = l
				b.lb += k
				b.ub += k
			}
		}
	case *ssa.Phi:
		onstack[v] = true
		first := true
		any := false
		for i, e := range x.Edges {
			if !a.taint[stripConv(e)] {
				if _, isConst := stripConv(e).(*ssa.Const); !isConst {
					continue // loop arithmetic that is no longer "the normalised position"
				}
			}
			pred := x.Block().Preds[i]
			if a.gc.excluded[pred] {
				continue
			}
			ef := a.gc.MustEdgesForEdge(pred, x.Block())
			eb := a.eval(e, ef, depth+1, onstack)
			any = true
			if first {
				b = eb
				first = false
			} else {
				b = joinUB(b, eb)
			}
		}
		delete(onstack, v)
		if !any {
			b = relBound{}
		}
		if b.self {
			b = relBound{}
		}
	}
	// refine with facts about v (or its converted form)
	for _, ge := range facts {
		rel, ok := ge.Relation()
		if !ok {
			continue
		}
		A, B := stripConv(rel.A), stripConv(rel.B)
		op := rel.Op
		var other ssa.Value
		switch {
		case A == v || A == v0:
			other = B
		case B == v || B == v0:
			other = A
			op = flipOp(op)
		default:
			continue
		}
		// v op other
		var ob relBound
		if a.isLenS(other) {
			ob = relBound{lbKnown: true, lb: 0, ubKnown: true, ub: 0}
		} else if k, ok := constInt(other); ok {
			ob = relBound{lbKnown: true, lb: k, ubKnown: true, ub: k}
		} else if depth < 6 {
			if onstack[other] {
				continue
			}
			onstack[v] = true
			ob = a.eval(other, facts, depth+4, onstack)
			delete(onstack, v)
		}
		switch op {
		case token.LSS:
			tighten(&b, false, 0, ob.ubKnown, ob.ub-1)
		case token.LEQ:
			tighten(&b, false, 0, ob.ubKnown, ob.ub)
		case token.GTR:
			tighten(&b, ob.lbKnown, ob.lb+1, false, 0)
		case token.GEQ:
			tighten(&b, ob.lbKnown, ob.lb, false, 0)
		case token.EQL:
			tighten(&b, ob.lbKnown, ob.lb, ob.ubKnown, ob.ub)
		}
	}
	return b
}

func rulePos(c *Ctx) *RuleResult {
	r := newResult("R-POS", "every value derived from luastrings.StringNormPos(s, …) (through ±const, min/max clamp helpers, conversions, phi) that reaches an index or slice bound on the same string s, or the init argument of pattern.(*Pattern).MatchFromStart / stringlib.UnpackString, is proved within range at that use (0 <= x < len(s) for an index; 0 <= lo, hi <= len(s) for slice bounds; 0 <= init <= len(s) for init) from the branch decisions that every path to the use must have taken")
	p := c.P
	norm := p.Func("luastrings", "StringNormPos")
	if norm == nil {
		r.broken("anchor unresolved: luastrings.StringNormPos")
		return r
	}
	mfs := p.Func("lib/stringlib/pattern", "(*Pattern).MatchFromStart")
	ups := p.Func("lib/stringlib", "UnpackString")
	if mfs == nil || ups == nil {
		r.broken("anchor unresolved: pattern.(*Pattern).MatchFromStart / stringlib.UnpackString")
		return r
	}
	// the contract of the sinks: (anchor check) MatchFromStart stores init in
	// patternMatcher.si without a range test
	clamps := map[*ssa.Function]string{}
	for _, f := range p.ModFuncs() {
		if k := clampKind(f); k != "" {
			clamps[f] = k
		}
	}
	r.count("clamp_helpers_recognised", len(clamps))
	sites := 0
	sinks := 0
	for _, f := range p.ModFuncs() {
		var normCalls []*ssa.Call
		forEachInstr(f, func(ins ssa.Instruction) {
			if call, ok := ins.(*ssa.Call); ok && call.Call.StaticCallee() == norm {
				normCalls = append(normCalls, call)
			}
		})
		if len(normCalls) == 0 {
			continue
		}
		sites += len(normCalls)
		// group by subject string
		bySubject := map[ssa.Value][]*ssa.Call{}
		for _, nc := range normCalls {
			s := stripConv(nc.Call.Args[0])
			bySubject[s] = append(bySubject[s], nc)
		}
		for s, calls := range bySubject {
			// taint: forward closure through ±const, clamps, conv, phi
			taint := map[ssa.Value]bool{}
			var work []ssa.Value
			for _, nc := range calls {
				taint[nc] = true
				work = append(work, nc)
			}
			for len(work) > 0 {
				v := work[len(work)-1]
				work = work[:len(work)-1]
				refs := v.Referrers()
				if refs == nil {
					continue
				}
				for _, ref := range *refs {
					var nv ssa.Value
					switch x := ref.(type) {
					case *ssa.BinOp:
						if x.Op == token.ADD || x.Op == token.SUB {
							if _, ok := constInt(x.Y); ok && x.X == v {
								nv = x
							} else if _, ok := constInt(x.X); ok && x.Y == v && x.Op == token.ADD {
								nv = x
							}
						}
					case *ssa.Convert:
						if sameKindConv(x) {
							nv = x
						}
					case *ssa.ChangeType:
						nv = x
					case *ssa.Phi:
						nv = x
					case *ssa.Call:
						if clamps[x.Call.StaticCallee()] != "" {
							nv = x
						}
					}
					if nv != nil && !taint[nv] {
						taint[nv] = true
						work = append(work, nv)
					}
				}
			}
			// sinks
			check := func(ins ssa.Instruction, v ssa.Value, what string, needLB int64, needUB int64) {
				if v == nil || !taint[stripConv(v)] {
					return
				}
				sinks++
				gc := newGuardCtx(f)
				gc.ExcludeErrorPaths(ins.Block())
				a := &posAnalysis{p: p, f: f, s: s, gc: gc, taint: taint, clamps: clamps}
				facts := gc.MustEdges(ins.Block())
				b := a.eval(v, facts, 0, map[ssa.Value]bool{})
				okLB := b.lbKnown && b.lb >= needLB
				okUB := b.ubKnown && b.ub <= needUB
				desc := fmt.Sprintf("%s: %s of %s proved %s (needs >=%d, <=len%+d)", fnKey(f), what, valName(v), b, needLB, needUB)
				if okLB && okUB {
					r.ok(desc + " at " + p.InstrPos(ins))
					return
				}
				miss := "upper"
				if !okLB && okUB {
					miss = "lower"
				} else if !okLB {
					miss = "lower+upper"
				}
				r.fail(fmt.Sprintf("%s:%s:%s-bound", fnKey(f), what, miss), p.InstrPos(ins),
					fmt.Sprintf("a position derived from StringNormPos reaches %s without being proved in range on every path: %s. Out-of-range positions are a Go slice/index panic reachable from Lua (e.g. a huge or very negative init)", what, desc))
			}
			forEachInstr(f, func(ins ssa.Instruction) {
				switch x := ins.(type) {
				case *ssa.Lookup:
					if bt, ok := x.X.Type().Underlying().(*types.Basic); ok && bt.Info()&types.IsString != 0 && stripConv(x.X) == s {
						check(ins, x.Index, "index s[i]", 0, -1)
					}
				case *ssa.Index:
					if bt, ok := x.X.Type().Underlying().(*types.Basic); ok && bt.Info()&types.IsString != 0 && stripConv(x.X) == s {
						check(ins, x.Index, "index s[i]", 0, -1)
					}
				case *ssa.Slice:
					if stripConv(x.X) == s {
						if x.Low != nil {
							check(ins, x.Low, "slice low bound s[lo:]", 0, 0)
						}
						if x.High != nil {
							check(ins, x.High, "slice high bound s[:hi]", 0, 0)
						}
					}
				case *ssa.Call:
					cal := x.Call.StaticCallee()
					if cal == mfs && len(x.Call.Args) == 4 && stripConv(x.Call.Args[1]) == s {
						check(ins, x.Call.Args[2], "init of MatchFromStart", 0, 0)
					}
					if cal == ups && len(x.Call.Args) == 4 && stripConv(x.Call.Args[1]) == s {
						check(ins, x.Call.Args[2], "init of UnpackString", 0, 0)
					}
				}
			})
		}
	}
	r.count("StringNormPos_call_sites", sites)
	r.count("position_uses_checked", sinks)
	r.floor("StringNormPos_call_sites", 10)
	r.floor("position_uses_checked", 8)
	r.note("closures capturing a normalised position by reference (gmatch's iterator) are not followed; its sink pattern.(*Pattern).Match loops `for si := m.si; si <= len(m.s)` and is safe for any init")
	return r
}

func valName(v ssa.Value) string {
	if v == nil {
		return "<nil>"
	}
	return v.Name()
}
