package main

import (
	"fmt"
	"go/token"
	"go/types"

	"golang.org/x/tools/go/ssa"
)

func init() {
	registerRule("R-TABLEKEY", false, ruleTableKey)
}

func ruleTableKey(c *Ctx) *RuleResult {
	r := newResult("R-TABLEKEY", "key normalisation and raw-before-meta ordering: (a) in each of mixedTable.{get,insert,reset,remove,next} every key handed to the hash part is IntValue(i) of the ToIntNoString result, or the raw key only on paths where that very result said 'not an integer' (or the key is nil) — the five siblings must agree; (b) for every dynamic type whose Value.Equals case delegates to another comparison (coarser than identity), Value.Hash has a case for the same type; (c) removeKey/resetKeyValue never store to hashTableSlot.key (tombstones keep next() positioned); (d) in SetIndex the lookup of __newindex is reachable only after Table.Reset returned false, and in Index the lookup of __index only after the raw get returned nil")
	p := c.P
	toInt := p.Func("runtime", "ToIntNoString")
	intValue := p.Func("runtime", "IntValue")
	if toInt == nil || intValue == nil {
		r.broken("anchor unresolved: runtime.ToIntNoString / IntValue")
		return r
	}
	hashMethods := map[string]bool{"find": true, "set": true, "reset": true, "removeKey": true, "next": true}
	// ---- (a)
	for _, name := range []string{"get", "insert", "reset", "remove", "next"} {
		f := p.Func("runtime", "(*mixedTable)."+name)
		if f == nil {
			r.broken("anchor unresolved: runtime.(*mixedTable).%s", name)
			continue
		}
		k := f.Params[1]
		var okV, iV ssa.Value
		forEachInstr(f, func(ins ssa.Instruction) {
			call, ok := ins.(*ssa.Call)
			if !ok || call.Call.StaticCallee() != toInt || stripConv(call.Call.Args[0]) != k {
				return
			}
			for _, ref := range *call.Referrers() {
				if ex, ok := ref.(*ssa.Extract); ok {
					if ex.Index == 0 {
						iV = ex
					} else {
						okV = ex
					}
				}
			}
		})
		if iV == nil || okV == nil {
			r.fail("no-normalisation:mixedTable."+name, p.Pos(f.Pos()), "mixedTable."+name+" no longer normalises its key with ToIntNoString: float keys with an integer value would address a different slot than the integer key")
			continue
		}
		gc := newGuardCtx(f)
		var normalised func(v ssa.Value, facts []guardEdge, depth int) (bool, string)
		normalised = func(v ssa.Value, facts []guardEdge, depth int) (bool, string) {
			if depth > 6 {
				return false, "too deep"
			}
			switch x := v.(type) {
			case *ssa.Call:
				if x.Call.StaticCallee() == intValue {
					for w := range backSlice(x.Call.Args[0], false) {
						if w == iV {
							return true, ""
						}
					}
					return false, "IntValue of something that is not the normalised integer"
				}
			case *ssa.UnOp:
				if g, ok := x.X.(*ssa.Global); ok && g.Name() == "NilValue" {
					return true, ""
				}
			case *ssa.Phi:
				for i, e := range x.Edges {
					pred := x.Block().Preds[i]
					if ok, why := normalised(e, gc.MustEdgesForEdge(pred, x.Block()), depth+1); !ok {
						return false, why
					}
				}
				return true, ""
			}
			if v == k {
				for _, ge := range facts {
					cnd := ge.If.Cond
					holds := ge.Taken
					for {
						if u, ok := cnd.(*ssa.UnOp); ok && u.Op == token.NOT {
							holds = !holds
							cnd = u.X
							continue
						}
						break
					}
					if impliesNotInteger(cnd, okV, 0) && !holds {
						return true, ""
					}
					if call, ok := cnd.(*ssa.Call); ok && calleeNamed(call, "IsNil") && holds && len(call.Call.Args) > 0 && call.Call.Args[0] == k {
						return true, ""
					}
				}
				return false, "the raw key reaches the hash part on a path where ToIntNoString's own verdict was not 'not an integer' (the flag tested was overwritten or never tested)"
			}
			return false, fmt.Sprintf("unrecognised key expression %s", v.Name())
		}
		n := 0
		forEachInstr(f, func(ins ssa.Instruction) {
			call, ok := ins.(ssa.CallInstruction)
			if !ok {
				return
			}
			cal := call.Common().StaticCallee()
			if cal == nil || !isMethodOf(cal, "runtime", "hashTable", cal.Name()) || !hashMethods[cal.Name()] {
				return
			}
			n++
			kv := call.Common().Args[1]
			if ok, why := normalised(kv, gc.MustEdges(ins.Block()), 0); ok {
				r.ok(fmt.Sprintf("(a) mixedTable.%s -> hashTable.%s receives a normalised key", name, cal.Name()))
			} else {
				r.fail("raw-key-to-hash:mixedTable."+name+"->"+cal.Name(), p.InstrPos(ins), fmt.Sprintf("mixedTable.%s passes a key to hashTable.%s that is not normalised on every path: %s. A float key with an integer value (t[100.0]) then misses the entry stored under the integer key", name, cal.Name(), why))
			}
		})
		if n == 0 {
			r.broken("mixedTable.%s makes no call into the hash part (anchor moved?)", name)
		}
	}
	// ---- (b) Equals vs Hash
	eq := p.Func("runtime", "(Value).Equals")
	hs := p.Func("runtime", "(Value).Hash")
	if eq == nil || hs == nil {
		r.broken("anchor unresolved: runtime.(Value).Equals / Hash")
		return r
	}
	hashCases := map[string]bool{}
	forEachInstr(hs, func(ins ssa.Instruction) {
		if ta, ok := ins.(*ssa.TypeAssert); ok {
			hashCases[typeKey(ta.AssertedType)] = true
		}
	})
	deleg := 0
	seenDeleg := map[string]bool{}
	forEachInstr(eq, func(ins ssa.Instruction) {
		ta, ok := ins.(*ssa.TypeAssert)
		if !ok || ta.Referrers() == nil {
			return
		}
		// does the asserted value (comma-ok: extract #0) flow into a call (delegated equality)?
		delegates := false
		var check func(v ssa.Value, d int)
		check = func(v ssa.Value, d int) {
			if d > 3 || v.Referrers() == nil {
				return
			}
			for _, ref := range *v.Referrers() {
				switch x := ref.(type) {
				case *ssa.Extract:
					if x.Index == 0 {
						check(x, d+1)
					}
				case ssa.CallInstruction:
					if cal := x.Common().StaticCallee(); cal != nil && p.InModule(cal) {
						delegates = true
					}
				}
			}
		}
		check(ta, 0)
		if !delegates {
			return
		}
		tk := typeKey(ta.AssertedType)
		if seenDeleg[tk] {
			return
		}
		seenDeleg[tk] = true
		deleg++
		if _, isBasic := ta.AssertedType.Underlying().(*types.Basic); isBasic {
			return
		}
		if hashCases[tk] {
			r.ok("(b) Equals delegates for " + tk + " and Hash has a case for it")
		} else {
			r.fail("hash-ignores-delegated-equality:"+tk, p.Pos(hs.Pos()), fmt.Sprintf("Value.Equals treats two distinct %s values as equal when their own Equals says so, but Value.Hash hashes the pointer: equal keys land in different slots once the table has more than a handful of entries (t[f1]=1; t[f2] is nil although f1 == f2)", tk))
		}
	})
	r.count("delegating_cases_in_Equals", deleg)
	// ---- (c) tombstones
	for _, name := range []string{"removeKey", "resetKeyValue"} {
		f := p.Func("runtime", name)
		if f == nil {
			r.broken("anchor unresolved: runtime.%s", name)
			continue
		}
		bad := false
		forEachInstr(f, func(ins ssa.Instruction) {
			if st, ok := ins.(*ssa.Store); ok {
				if fa, ok := st.Addr.(*ssa.FieldAddr); ok {
					if _, tn, fn := fieldOfAddr(fa); tn == "hashTableSlot" && fn == "key" {
						bad = true
						r.fail("tombstone-key-overwritten:"+name, p.InstrPos(ins), "runtime."+name+" stores to hashTableSlot.key: a removed entry must keep its key so that next(k) still finds its position during a traversal that clears fields")
					}
				}
				// whole-slot store
				if _, tn, ok := namedOf(st.Val.Type()); ok && tn == "hashTableSlot" {
					bad = true
					r.fail("tombstone-slot-overwritten:"+name, p.InstrPos(ins), "runtime."+name+" overwrites a whole hashTableSlot (key included)")
				}
			}
		})
		if !bad {
			r.ok("(c) runtime." + name + " never writes a slot's key")
		}
	}
	// ---- (c') an occupied slot is overwritten only after its content was relocated
	if ins := p.Func("runtime", "insertNewKeyValue"); ins != nil {
		n := 0
		var slotStores []*ssa.Store
		forEachInstr(ins, func(i ssa.Instruction) {
			st, ok := i.(*ssa.Store)
			if !ok {
				return
			}
			if _, tn, ok := namedOf(st.Val.Type()); !ok || tn != "hashTableSlot" {
				return
			}
			if _, isIdx := st.Addr.(*ssa.IndexAddr); isIdx {
				slotStores = append(slotStores, st)
			}
		})
		gc := newGuardCtx(ins)
		for _, st := range slotStores {
			ia := st.Addr.(*ssa.IndexAddr)
			// stores of the *new* item (a value built in this function, not a copy of a loaded slot)
			if derivesFromSlotLoad(st.Val, nil) {
				continue // relocation of an existing slot's content
			}
			n++
			// guarded by isEmpty() == true, or small-table fill, or dominated by a relocation store
			okStore := false
			for _, ge := range gc.MustEdges(st.Block()) {
				cnd := ge.If.Cond
				holds := ge.Taken
				for {
					if u, ok := cnd.(*ssa.UnOp); ok && u.Op == token.NOT {
						holds = !holds
						cnd = u.X
						continue
					}
					break
				}
				if call, ok := cnd.(*ssa.Call); ok && calleeNamed(call, "isEmpty") && holds {
					okStore = true
				}
				if rel, ok := ge.Relation(); ok && rel.Op == token.LSS {
					if _, isK := constInt(rel.B); isK {
						okStore = true // mask < smallHashTableSize: the slot is nextFree, which is free
					}
				}
			}
			for _, other := range slotStores {
				if other == st {
					continue
				}
				if u, ok := other.Val.(*ssa.UnOp); ok {
					if src, fromIdx := u.X.(*ssa.IndexAddr); fromIdx && src.Index == ia.Index && instrDominates(other, st) {
						okStore = true // the occupant was copied elsewhere first
					}
				}
				// the occupant (cit, loaded earlier from items[i]) stored to another index
				if other.Addr.(*ssa.IndexAddr).Index != ia.Index && instrDominates(other, st) {
					if derivesFromSlotLoad(other.Val, ia.Index) {
						okStore = true
					}
				}
			}
			if okStore {
				r.ok("(c') insertNewKeyValue overwrites a slot only when it is free or after relocating its occupant")
			} else {
				r.fail("occupied-slot-overwritten:insertNewKeyValue", p.InstrPos(st), "insertNewKeyValue writes the new item over a slot that is neither known to be free (isEmpty) nor relocated first: a removed-but-chained entry (tombstone) or a live colliding entry loses its place in its collision chain, so keys behind it become unreachable")
			}
		}
		if n == 0 {
			r.broken("no slot store found in insertNewKeyValue (anchor moved?)")
		}
	} else {
		r.broken("anchor unresolved: runtime.insertNewKeyValue")
	}
	// ---- (d) raw before meta
	metaGet := p.Func("runtime", "(*Runtime).metaGetS")
	checkOrder := func(fname, rawName string, wantNilTest bool) {
		f := p.Func("runtime", fname)
		if f == nil || metaGet == nil {
			r.broken("anchor unresolved: runtime.%s / metaGetS", fname)
			return
		}
		gc := newGuardCtx(f)
		forEachInstr(f, func(ins ssa.Instruction) {
			call, ok := ins.(*ssa.Call)
			if !ok || call.Call.StaticCallee() != metaGet {
				return
			}
			// the raw operation's result must have been tested on every path that had a table
			// find the raw call
			var raw *ssa.Call
			forEachInstr(f, func(o ssa.Instruction) {
				if c2, ok := o.(*ssa.Call); ok && calleeNamed(c2, rawName) {
					raw = c2
				}
			})
			if raw == nil {
				r.fail("raw-op-missing:"+fname, p.Pos(f.Pos()), "runtime."+fname+" no longer performs the raw "+rawName+" before consulting the metamethod")
				return
			}
			// no path from the raw call's "present" outcome to the metamethod lookup:
			// the metaGet block must not be reachable from the branch where the raw result says present
			okOrder := true
			for _, b := range f.Blocks {
				if len(b.Instrs) == 0 {
					continue
				}
				iff, isIf := b.Instrs[len(b.Instrs)-1].(*ssa.If)
				if !isIf {
					continue
				}
				dep := false
				for v := range backSlice(iff.Cond, true) {
					if v == raw {
						dep = true
					}
				}
				if !dep {
					continue
				}
				// which successor means "present"? Reset()==true / !val.IsNil()
				presentIdx := 0
				cnd := iff.Cond
				for {
					if u, ok := cnd.(*ssa.UnOp); ok && u.Op == token.NOT {
						presentIdx = 1 - presentIdx
						cnd = u.X
						continue
					}
					break
				}
				if wantNilTest {
					// cond is IsNil(val) possibly negated: IsNil true => absent
					presentIdx = 1 - presentIdx
				}
				if blockReaches(b.Succs[presentIdx], call.Block()) && !blockReachesAvoiding(b.Succs[presentIdx], call.Block(), b) {
					// reachable only by going around the loop through b again: fine
				} else if blockReaches(b.Succs[presentIdx], call.Block()) {
					okOrder = false
				}
			}
			_ = gc
			if okOrder {
				r.ok(fmt.Sprintf("(d) runtime.%s consults the metamethod only when the raw %s found nothing", fname, rawName))
			} else {
				r.fail("meta-before-raw:"+fname, p.InstrPos(ins), fmt.Sprintf("runtime.%s can consult the metamethod although the raw %s found the key: __index/__newindex must only see absent keys", fname, rawName))
			}
		})
	}
	checkOrder("SetIndex", "Reset", false)
	checkOrder("Index", "RawGet", true)
	// (e) the array part's methods agree on which integer keys it owns: every method
	// that takes an index tests it against the capacity len(a.values). A sibling that
	// tests against the current length a.len instead disowns keys the others put there
	// (a key cleared during a traversal stays a valid argument of next)
	arrT := p.TypeNamed("runtime", "array")
	if arrT == nil {
		r.broken("anchor unresolved: runtime.array")
		return r
	}
	nArr := 0
	for _, f := range p.ModFuncs() {
		if relPkg(funcPkgPath(f)) != "runtime" || f.Signature.Recv() == nil || f.Synthetic != "" || f.Blocks == nil {
			continue
		}
		if _, tn, ok := namedOf(f.Signature.Recv().Type()); !ok || tn != "array" {
			continue
		}
		// an int64 index parameter
		var idx *ssa.Parameter
		for _, prm := range f.Params[1:] {
			if bt, ok := prm.Type().Underlying().(*types.Basic); ok && bt.Kind() == types.Int64 {
				idx = prm
				break
			}
		}
		if idx == nil {
			continue
		}
		nArr++
		usesCap, usesLen := false, false
		forEachInstr(f, func(ins ssa.Instruction) {
			b, ok := ins.(*ssa.BinOp)
			if !ok {
				return
			}
			switch b.Op {
			case token.LEQ, token.LSS, token.GEQ, token.GTR:
			default:
				return
			}
			other := b.Y
			if stripConv(b.Y) == ssa.Value(idx) {
				other = b.X
			} else if stripConv(b.X) != ssa.Value(idx) {
				return
			}
			other = stripConv(other)
			if call, ok := other.(*ssa.Call); ok && isLenCall(call) {
				if u, ok := call.Call.Args[0].(*ssa.UnOp); ok {
					if fa, ok := u.X.(*ssa.FieldAddr); ok {
						if _, _, fld := fieldOfAddr(fa); fld == "values" {
							usesCap = true
						}
					}
				}
			}
			if u, ok := other.(*ssa.UnOp); ok {
				if fa, ok := u.X.(*ssa.FieldAddr); ok {
					if _, _, fld := fieldOfAddr(fa); fld == "len" {
						usesLen = true
					}
				}
			}
		})
		switch {
		case usesCap:
			r.ok(fmt.Sprintf("(e) %s tests its index against the array's capacity", fnKey(f)))
		case usesLen:
			r.fail("array-ownership-by-length:"+fnKey(f), p.Pos(f.Pos()), fmt.Sprintf("%s decides whether an integer key belongs to the array part by comparing it with the current length a.len only, while its siblings (get, setValue, resetValue, remove) compare with the capacity len(a.values): a key the array owns is treated as foreign once a removal has shrunk the length — next() then looks it up in the hash part and raises 'invalid key', e.g. when a traversal clears the fields it visits", fnKey(f)))
		default:
			r.note("%s takes an index but compares it with neither the capacity nor the length", fnKey(f))
		}
	}
	r.count("array_methods_with_index", nArr)
	r.floor("array_methods_with_index", 4)

	// (f) the array part owns the integer keys from 1 upwards: the smallest index each
	// method accepts is read off its comparisons with constants. A method that accepts
	// less than its siblings (next takes 0 for "before the first item") takes a
	// sentinel, and a sentinel must not be producible from a key of the program: at
	// each call the argument is that constant, or is proved to be at least the
	// siblings' bound by the branch decisions on the way (per incoming edge of a phi,
	// edges on which the call's own guard is known false being left out).
	lower := map[*ssa.Function]int64{}
	var idxParam = map[*ssa.Function]*ssa.Parameter{}
	for _, f := range p.ModFuncs() {
		if relPkg(funcPkgPath(f)) != "runtime" || f.Signature.Recv() == nil || f.Synthetic != "" || f.Blocks == nil {
			continue
		}
		if _, tn, ok := namedOf(f.Signature.Recv().Type()); !ok || tn != "array" {
			continue
		}
		var idx *ssa.Parameter
		for _, prm := range f.Params[1:] {
			if bt, ok := prm.Type().Underlying().(*types.Basic); ok && bt.Kind() == types.Int64 {
				idx = prm
				break
			}
		}
		if idx == nil {
			continue
		}
		found := false
		var lb int64
		forEachInstr(f, func(ins ssa.Instruction) {
			b, ok := ins.(*ssa.BinOp)
			if !ok {
				return
			}
			var c int64
			var okc bool
			var bound int64
			switch {
			case stripConv(b.Y) == ssa.Value(idx):
				if c, okc = constInt(stripConv(b.X)); !okc {
					return
				}
				switch b.Op {
				case token.LEQ: // c <= i
					bound = c
				case token.LSS: // c < i
					bound = c + 1
				default:
					return
				}
			case stripConv(b.X) == ssa.Value(idx):
				if c, okc = constInt(stripConv(b.Y)); !okc {
					return
				}
				switch b.Op {
				case token.GEQ: // i >= c
					bound = c
				case token.GTR: // i > c
					bound = c + 1
				default:
					return
				}
			default:
				return
			}
			if !found || bound < lb {
				lb = bound
			}
			found = true
		})
		if found {
			lower[f] = lb
			idxParam[f] = idx
		}
	}
	// the siblings' bound: the most common one
	votes := map[int64]int{}
	for _, lb := range lower {
		votes[lb]++
	}
	var common int64
	best := 0
	for lb, n := range votes {
		if n > best || (n == best && lb > common) {
			common, best = lb, n
		}
	}
	r.count("array_methods_with_lower_bound", len(lower))
	r.floor("array_methods_with_lower_bound", 4)
	provesAtLeast := func(facts []guardEdge, v ssa.Value, bound int64) bool {
		for _, ge := range facts {
			rel, ok := ge.Relation()
			if !ok {
				continue
			}
			a, b := stripConv(rel.A), stripConv(rel.B)
			if a == v {
				if c, ok := constInt(b); ok {
					if (rel.Op == token.GTR && c+1 >= bound) || (rel.Op == token.GEQ && c >= bound) {
						return true
					}
				}
			}
			if b == v {
				if c, ok := constInt(a); ok {
					if (rel.Op == token.LSS && c+1 >= bound) || (rel.Op == token.LEQ && c >= bound) {
						return true
					}
				}
			}
		}
		return false
	}
	nSent := 0
	for f, lb := range lower {
		if lb >= common {
			continue
		}
		// f takes a sentinel below the siblings' bound
		for _, g := range p.ModFuncs() {
			if g.Blocks == nil {
				continue
			}
			gc := newGuardCtx(g)
			forEachInstr(g, func(ins ssa.Instruction) {
				call, ok := ins.(ssa.CallInstruction)
				if !ok || call.Common().StaticCallee() != f {
					return
				}
				nSent++
				args := call.Common().Args
				var arg ssa.Value
				for i, prm := range f.Params {
					if prm == idxParam[f] && i < len(args) {
						arg = stripConv(args[i])
					}
				}
				if arg == nil {
					r.broken("cannot locate the index argument of the call to %s in %s", fnKey(f), fnKey(g))
					return
				}
				where := fmt.Sprintf("%s -> %s at %s", fnKey(g), fnKey(f), p.InstrPos(ins))
				bad := ""
				if c, ok := constInt(arg); ok {
					if c < lb {
						bad = fmt.Sprintf("constant %d below the method's own bound", c)
					}
				} else if phi, ok := arg.(*ssa.Phi); ok {
					// guards of the call that are phis of the same block
					var guardPhis []*ssa.Phi
					for _, ge := range gc.MustEdges(ins.Block()) {
						if gp, ok := ge.If.Cond.(*ssa.Phi); ok && gp.Block() == phi.Block() && ge.Taken {
							guardPhis = append(guardPhis, gp)
						}
					}
					for k, e := range phi.Edges {
						ev := stripConv(e)
						if c, ok := constInt(ev); ok && c >= lb {
							continue
						}
						facts := gc.MustEdgesForEdge(phi.Block().Preds[k], phi.Block())
						if provesAtLeast(facts, ev, common) {
							continue
						}
						infeasible := false
						for _, gp := range guardPhis {
							w := gp.Edges[k]
							for _, ge := range facts {
								if ge.If.Cond == w && !ge.Taken {
									infeasible = true
								}
							}
							if cb, ok := w.(*ssa.Const); ok {
								if v, ok := constInt(cb); ok && v == 0 {
									infeasible = true
								}
							}
						}
						if !infeasible {
							bad = fmt.Sprintf("the value arriving from block %d is not proved to be at least %d", phi.Block().Preds[k].Index, common)
						}
					}
				} else if !provesAtLeast(gc.MustEdges(ins.Block()), arg, common) {
					bad = fmt.Sprintf("the argument is not proved to be at least %d", common)
				}
				if bad == "" {
					r.ok("(f) " + where + ": the argument is the sentinel constant or at least " + fmt.Sprint(common))
				} else {
					r.fail("array-sentinel-reachable-from-key:"+fnKey(g), p.InstrPos(ins), fmt.Sprintf("%s accepts index %d, which its siblings (bound %d) do not own: it is a sentinel ('before the first item'), and at %s %s — an integer key of that value, which lives in the hash part, is then taken for the sentinel: t = {1,2,3}; t[0] = 'x'; for k in pairs(t) do end restarts at the first array item for ever", fnKey(f), lb, common, where, bad))
				}
			})
		}
	}
	r.count("array_sentinel_call_sites", nSent)
	return r
}

// blockReachesAvoiding: `to` reachable from `from` without passing through `avoid`.
func blockReachesAvoiding(from, to, avoid *ssa.BasicBlock) bool {
	seen := map[*ssa.BasicBlock]bool{avoid: true}
	stack := []*ssa.BasicBlock{from}
	for len(stack) > 0 {
		b := stack[len(stack)-1]
		stack = stack[:len(stack)-1]
		if b == to {
			return true
		}
		if seen[b] {
			continue
		}
		seen[b] = true
		stack = append(stack, b.Succs...)
	}
	return false
}

// impliesNotInteger: cnd being false implies okV (ToIntNoString's verdict) is
// false: cnd is okV itself, or a phi all of whose other edges are the constant
// true (isInt := true when the key is nil and there is an array part).
func impliesNotInteger(cnd, okV ssa.Value, depth int) bool {
	if cnd == okV {
		return true
	}
	if depth > 3 {
		return false
	}
	phi, ok := cnd.(*ssa.Phi)
	if !ok {
		return false
	}
	seenOk := false
	for _, e := range phi.Edges {
		if k, isC := constInt(e); isC {
			if k == 0 {
				return false
			}
			continue
		}
		if impliesNotInteger(e, okV, depth+1) {
			seenOk = true
			continue
		}
		return false
	}
	return seenOk
}

// derivesFromSlotLoad: v is (a possibly field-updated copy of) the value loaded
// from items[idx].
func derivesFromSlotLoad(v ssa.Value, idx ssa.Value) bool {
	for w := range backSlice(v, false) {
		if u, ok := w.(*ssa.UnOp); ok {
			if ia, ok := u.X.(*ssa.IndexAddr); ok && (idx == nil || ia.Index == idx) {
				return true
			}
			// local copy `cit` kept in an Alloc: loads of the alloc whose stores come from items[idx]
			if al, ok := u.X.(*ssa.Alloc); ok {
				for _, ref := range *al.Referrers() {
					if st, ok := ref.(*ssa.Store); ok && st.Addr == al {
						if u2, ok := st.Val.(*ssa.UnOp); ok {
							if ia, ok := u2.X.(*ssa.IndexAddr); ok && (idx == nil || ia.Index == idx) {
								return true
							}
						}
					}
				}
			}
		}
	}
	return false
}
