package main

import (
	"fmt"
	"sort"
	"strings"
	"sync"

	"golang.org/x/tools/go/ssa"
)

func init() {
	registerRule("R-CONFIGS", false, ruleConfigs)
}

// ruleConfigs: every build configuration type-checks, and the noquotas context
// manager is a pure no-op for metering while handling non-quota state like the
// default one.
func ruleConfigs(c *Ctx) *RuleResult {
	r := newResult("R-CONFIGS", "the performance build options are drop-in variants: (a) the repository type-checks under every build configuration (default, noquotas, noregpool, nocontpool, noregpool+nocontpool, safepool, GOOS=windows), so the variant files offer the same API to the same callers; (b) in the noquotas context manager the metering methods (Require*, Release*, Linear*, Unused*) contain no calls and no stores — they only return zero values — while PushContext still records the message handler and links the parent, and PopContext restores *m = *m.parent like the default manager")
	// (a)
	type res struct {
		cfg BuildConfig
		err error
		n   int
	}
	out := make([]res, len(allConfigs))
	var wg sync.WaitGroup
	sem := make(chan struct{}, 4)
	for i, cfg := range allConfigs {
		wg.Add(1)
		go func(i int, cfg BuildConfig) {
			defer wg.Done()
			sem <- struct{}{}
			defer func() { <-sem }()
			if cfg.Name == c.P.Config.Name {
				out[i] = res{cfg: cfg, n: len(c.P.Pkgs)}
				return
			}
			p, err := Load(cfg, false)
			out[i] = res{cfg: cfg, err: err}
			if p != nil {
				out[i].n = len(p.Pkgs)
			}
		}(i, cfg)
	}
	wg.Wait()
	for _, x := range out {
		if x.err != nil {
			msg := x.err.Error()
			if len(msg) > 600 {
				msg = msg[:600]
			}
			r.fail("config-does-not-typecheck:"+x.cfg.Name, "(build configuration "+x.cfg.Name+")", "the repository does not type-check under build configuration "+x.cfg.Name+": "+msg)
		} else {
			r.ok(fmt.Sprintf("(a) configuration %s type-checks (%d module packages)", x.cfg.Name, x.n))
		}
	}
	// (b) noquotas manager, analysed on SSA of that configuration
	nq, ok := configByName("noquotas")
	if !ok {
		r.broken("no noquotas configuration")
		return r
	}
	var p *Program
	if c.P.Config.Name == "noquotas" {
		p = c.P
	} else {
		var err error
		p, err = Load(nq, true)
		if err != nil {
			r.broken("cannot load noquotas configuration with SSA: %v", err)
			return r
		}
	}
	metering := []string{"RequireCPU", "RequireMem", "RequireSize", "RequireArrSize", "RequireBytes", "ReleaseMem", "ReleaseSize", "ReleaseArrSize", "ReleaseBytes", "LinearUnused", "LinearRequire", "UnusedCPU", "UnusedMem"}
	sort.Strings(metering)
	for _, name := range metering {
		f := p.Func("runtime", "(*runtimeContextManager)."+name)
		if f == nil {
			r.fail("noquotas-method-missing:"+name, "runtime/runtimecontextmanager_noquotas.go", "the noquotas context manager has no method "+name)
			continue
		}
		bad := ""
		forEachInstr(f, func(ins ssa.Instruction) {
			switch x := ins.(type) {
			case ssa.CallInstruction:
				bad = "a call"
			case *ssa.Store:
				if _, isAlloc := x.Addr.(*ssa.Alloc); !isAlloc {
					bad = "a store"
				}
			case *ssa.Panic:
				bad = "a panic"
			}
		})
		// results must be zero constants
		forEachInstr(f, func(ins ssa.Instruction) {
			if ret, ok := ins.(*ssa.Return); ok {
				for _, v := range ret.Results {
					if k, ok := constInt(v); !ok || k != 0 {
						if u, isLoad := v.(*ssa.UnOp); isLoad {
							if _, isAl := u.X.(*ssa.Alloc); isAl {
								continue // named zero result
							}
						}
						bad = "a non-zero result"
					}
				}
			}
		})
		if bad == "" {
			r.ok("(b) noquotas " + name + " is a no-op returning zero")
		} else {
			r.fail("noquotas-method-not-noop:"+name, p.Pos(f.Pos()), fmt.Sprintf("in the noquotas build (*runtimeContextManager).%s contains %s: the build option would change behaviour, not just skip accounting", name, bad))
		}
	}
	// the query methods answer with constants: a context without quotas has no state of
	// its own that an answer could depend on (GCPolicy in particular: every context shares
	// the root's pool, so CallContext must never take a context for an isolated one)
	for _, name := range []string{"HardLimits", "SoftLimits", "UsedResources", "Status", "RequiredFlags", "CheckRequiredFlags", "Due", "GCPolicy"} {
		f := p.Func("runtime", "(*runtimeContextManager)."+name)
		if f == nil {
			r.fail("noquotas-method-missing:"+name, "runtime/runtimecontextmanager_noquotas.go", "the noquotas context manager has no method "+name)
			continue
		}
		reads := ""
		forEachInstr(f, func(ins ssa.Instruction) {
			if fa, ok := ins.(*ssa.FieldAddr); ok && len(f.Params) > 0 && fa.X == ssa.Value(f.Params[0]) {
				_, _, fld := fieldOfAddr(fa)
				reads = fld
			}
		})
		if reads == "" {
			r.ok("(b) noquotas " + name + " answers with a constant")
		} else {
			r.fail("noquotas-query-reads-state:"+name, p.Pos(f.Pos()), fmt.Sprintf("in the noquotas build (*runtimeContextManager).%s reads the field %s of the manager: its answer can now differ from context to context, which the build without quotas has no means to keep consistent (a child context copies its parent)", name, reads))
		}
	}
	// PushContext / PopContext shape
	push := p.Func("runtime", "(*runtimeContextManager).PushContext")
	pop := p.Func("runtime", "(*runtimeContextManager).PopContext")
	if push == nil || pop == nil {
		r.broken("anchor unresolved: noquotas PushContext/PopContext")
		return r
	}
	stores := map[string]bool{}
	forEachInstr(push, func(ins ssa.Instruction) {
		if st, ok := ins.(*ssa.Store); ok {
			if fa, ok := st.Addr.(*ssa.FieldAddr); ok {
				_, _, fn := fieldOfAddr(fa)
				stores[fn] = true
			}
		}
	})
	if stores["messageHandler"] && stores["parent"] {
		r.ok("(b) noquotas PushContext records the message handler and links the parent")
	} else {
		var have []string
		for k := range stores {
			have = append(have, k)
		}
		r.fail("noquotas-pushcontext", p.Pos(push.Pos()), "noquotas PushContext no longer stores both messageHandler and parent (stores: "+strings.Join(have, ",")+"): xpcall handlers or context nesting would behave differently from the default build")
	}
	restores := false
	forEachInstr(pop, func(ins ssa.Instruction) {
		if st, ok := ins.(*ssa.Store); ok {
			if _, tn, ok := namedOf(st.Val.Type()); ok && tn == "runtimeContextManager" {
				if _, isAlloc := st.Addr.(*ssa.Alloc); !isAlloc {
					for w := range backSlice(st.Val, false) {
						if fa, ok := w.(*ssa.FieldAddr); ok {
							if _, _, fn := fieldOfAddr(fa); fn == "parent" {
								restores = true
							}
						}
					}
				}
			}
		}
	})
	if restores {
		r.ok("(b) noquotas PopContext restores *m from m.parent")
	} else {
		r.fail("noquotas-popcontext", p.Pos(pop.Pos()), "noquotas PopContext no longer restores the parent manager")
	}
	return r
}
