package main

// Frozen tables. Every entry was confirmed by reading the repository and carries
// its reason. They are compared with *resolved symbols*, never with text or
// positions.

// ioSinks: standard-library entry points through which a program can open, read,
// create, modify or delete files or directories, start processes, load plugins
// or open network connections (property C08). Matched by exact full name
// (types.Func.FullName). A method call on an already-open *os.File is use of a
// capability and is not a sink.
var ioSinks = map[string]string{
	"os.Open": "open file", "os.OpenFile": "open file", "os.Create": "create file", "os.CreateTemp": "create file",
	"os.Remove": "delete", "os.RemoveAll": "delete", "os.Rename": "rename", "os.Mkdir": "create dir", "os.MkdirAll": "create dir",
	"os.MkdirTemp": "create dir", "os.ReadFile": "read file", "os.WriteFile": "write file", "os.ReadDir": "read dir",
	"os.Chdir": "chdir", "os.Chmod": "modify", "os.Chown": "modify", "os.Lchown": "modify", "os.Chtimes": "modify", "os.Link": "create link", "os.Symlink": "create link",
	"os.Truncate": "modify", "os.StartProcess": "start process", "os.Pipe": "create pipe for a child process", "os.Readlink": "read link",
	"os.DirFS": "filesystem handle", "os.NewFile": "file from raw descriptor", "os.OpenInRoot": "open file", "os.OpenRoot": "open dir", "os.CopyFS": "write files",
	"os.FindProcess": "process handle", "(*os.Process).Kill": "signal process", "(*os.Process).Signal": "signal process",
	"io/ioutil.ReadFile": "read file", "io/ioutil.WriteFile": "write file", "io/ioutil.ReadDir": "read dir",
	"io/ioutil.TempFile": "create file", "io/ioutil.TempDir": "create dir",
	"path/filepath.Glob": "read dir", "path/filepath.Walk": "read dir", "path/filepath.WalkDir": "read dir", "path/filepath.EvalSymlinks": "read links",
	"os/exec.Command": "process", "os/exec.CommandContext": "process", "os/exec.LookPath": "locate program",
	"(*os/exec.Cmd).Start": "start process", "(*os/exec.Cmd).Run": "start process", "(*os/exec.Cmd).Output": "start process",
	"(*os/exec.Cmd).CombinedOutput": "start process",
	"plugin.Open":                   "load plugin",
	"net.Dial":                      "network", "net.DialTimeout": "network", "net.DialTCP": "network", "net.DialUDP": "network", "net.DialIP": "network", "net.DialUnix": "network",
	"(*net.Dialer).Dial": "network", "(*net.Dialer).DialContext": "network",
	"net.Listen": "network", "net.ListenPacket": "network", "net.ListenTCP": "network", "net.ListenUDP": "network", "net.ListenIP": "network", "net.ListenUnix": "network", "net.ListenUnixgram": "network", "net.ListenMulticastUDP": "network",
	"(*net.ListenConfig).Listen": "network", "(*net.ListenConfig).ListenPacket": "network",
	"net.LookupHost": "network", "net.LookupIP": "network", "net.LookupAddr": "network", "net.LookupCNAME": "network", "net.LookupMX": "network", "net.LookupNS": "network", "net.LookupPort": "network", "net.LookupSRV": "network", "net.LookupTXT": "network",
	"net.FileConn": "network", "net.FileListener": "network", "net.FilePacketConn": "network",
	"net/http.Get": "network", "net/http.Head": "network", "net/http.Post": "network", "net/http.PostForm": "network",
	"(*net/http.Client).Do": "network", "(*net/http.Client).Get": "network", "(*net/http.Client).Head": "network", "(*net/http.Client).Post": "network", "(*net/http.Client).PostForm": "network",
	"net/http.ListenAndServe": "network", "net/http.ListenAndServeTLS": "network", "net/http.Serve": "network", "net/http.ServeTLS": "network",
	"(*net/http.Server).ListenAndServe": "network", "(*net/http.Server).ListenAndServeTLS": "network", "(*net/http.Server).Serve": "network",
	"(*net/http.Transport).RoundTrip": "network",
	"syscall.Open":                    "open file", "syscall.Openat": "open file", "syscall.Creat": "create file", "syscall.Exec": "exec", "syscall.ForkExec": "start process", "syscall.StartProcess": "start process",
	"syscall.Socket": "network", "syscall.Connect": "network", "syscall.Bind": "network", "syscall.Unlink": "delete", "syscall.Unlinkat": "delete", "syscall.Rename": "rename", "syscall.Renameat": "rename",
	"syscall.Mkdir": "create dir", "syscall.Mkdirat": "create dir", "syscall.Rmdir": "delete", "syscall.Chmod": "modify", "syscall.Chown": "modify", "syscall.Truncate": "modify", "syscall.Link": "create link", "syscall.Symlink": "create link", "syscall.Chdir": "chdir", "syscall.Chroot": "chroot", "syscall.Mknod": "create node", "syscall.Readlink": "read link", "syscall.Kill": "signal process",
	"syscall.CreateFile": "open file (windows)", "syscall.CreateProcess": "start process (windows)", "syscall.DeleteFile": "delete (windows)", "syscall.MoveFile": "rename (windows)", "syscall.CreateDirectory": "create dir (windows)", "syscall.RemoveDirectory": "delete (windows)",
}

// ioSinkExceptionEdges: module-function -> sink edges that are legitimate,
// keyed "<caller key>-><sink>". One line of reason each.
var ioSinkExceptionEdges = map[string]string{
	"(*lib/iolib.File).cleanup->os.Remove": "removes the temp file this very handle created through the safeio.TempFile gate (io.tmpfile); reachable from every continuation via runPendingFinalizers->releaseResources, so the exception has to be an edge, not a source",
}

// ioHostPackages: module packages that may call sinks directly without a gate
// because they are host-side tools or are never declared iosafe.
var ioHostPackages = map[string]string{
	"safeio":                     "the gates themselves (checked by R-GATE c)",
	"lib/golib":                  "Go interop; declares no compliance flags at all (checked: a flagless function is refused in any flag-requiring context)",
	"lib/golib/goimports":        "Go interop plugin loader, host side",
	"lib/packagelib":             "require/searchers; declared cpu/mem only, never iosafe (checked by R-IOSAFE from its registrations)",
	"cmd/golua-repl":             "host tool",
	".":                          "the golua command (host tool)",
	"luatesting":                 "test harness",
	"examples/embed":             "example host program",
	"examples/extend":            "example host program",
	"examples/userdata":          "example host program",
	"examples/userdata/regexlib": "example host program",
}

// ioUngatedPrimitives: Lua-callable functions whose very purpose is one of the
// effects and which therefore call a sink directly. They are legitimate exactly
// as long as they are never declared iosafe, which R-IOSAFE decides.
var ioUngatedPrimitives = map[string]string{
	"lib/iolib.popen": "io.popen spawns a process by definition; it must never be declared iosafe (R-IOSAFE checks that)",
}

// divZeroTable: integer divisions whose divisor is non-zero for a reason the
// analysis cannot see; keyed by function.
var divZeroTable = map[string]string{}

// nonZeroFields: struct fields that never hold zero, with the reason (all
// stores are checked by R-DIVZERO to be non-zero constants or values guarded by
// the named range checker).
var nonZeroFields = map[string]string{
	"lib/stringlib.packFormatReader.maxAlignment": "initialised to the constant defaultMaxAlignement and otherwise only assigned optSize after smallOptSize() accepted it (1..16)",
}

type internalPanic struct {
	count  int
	reason string
}

// internalPanics: explicit panic sites that can propagate to the host but that
// no input reaches, keyed "<function>:<static type of the value>", with the
// number of such sites in the function and the reason. (DESIGN.md Appendix A.)
var internalPanics = map[string]internalPanic{}

func init() {
	ip := func(key string, n int, reason string) { internalPanics[key] = internalPanic{n, reason} }
	// --- front end
	ip("(*scanner.Scanner).emit:string", 1, "reached only with token.INVALID, i.e. a symbol lexeme missing from the scanner's symbol table; every lexeme scanToken can form is a key")
	ip("(ast.NoTableKey).ProcessExp:string", 1, "astcomp tests for NoTableKey before compiling a table key")
	ip("(*astcomp.compiler).getEllipsisReg:string", 1, "name lookup climbs to the main chunk, which always declares '...'")
	ip("(*astcomp.compiler).getCallerReg:string", 1, "compileFunctionBody declares the caller register first thing")
	ip("astcomp.must:astcomp.compilerBug", 1, "labels passed to must() are fresh (GetNewLabel) or <break>, which no source identifier can spell")
	ip("(*astcomp.compiler).ProcessLocalStat:astcomp.compilerBug", 1, "the parser only produces the three known attribs")
	ip("(*ir.CodeBuilder).ReleaseRegister:string", 1, "relies on Take/ReleaseRegister pairing inside astcomp (assumed, not proven)")
	ip("(*ir.CodeBuilder).PopContext:string", 1, "relies on Push/PopContext pairing inside astcomp (assumed, not proven)")
	ip("(ircomp.instrCompiler).ProcessCombineInstr:string", 1, "invalid op: excluded by R-SIBLING (codeBinOp total over ops astcomp emits)")
	ip("(ircomp.instrCompiler).ProcessTransformInstr:string", 1, "invalid op: excluded by R-SIBLING (codeUnOp total over ops astcomp emits)")
	ip("code.KIndexFromInt:string", 1, "ircomp.kIndex tests the range and raises a CompilationPanic before calling it; RefactorCodeConsts passes a count bounded by the unit's constant count, which passed that test")
	ip("(*ircomp.ConstantCompiler).CompileQueue:string", 1, "internal queue invariant (constant indexes are assigned by the queue itself)")
	ip("code.Index8FromInt:string", 1, "guarded by the two range tests in ircomp before each call")
	ip("(*code.Builder).EmitLabel:string", 1, "every declared label is emitted exactly once by the statement that declares it (EmitGotoLabel refuses a second emission)")
	ip("(*code.Builder).Offset:string", 1, "'Illegal offset': offsets are computed from labels the builder itself resolved")
	// --- VM invariants only forged bytecode could violate (not claimed, see C04 level note)
	ip("(*runtime.LuaCont).RunInThread:string", 5, "unsupported-opcode defaults of exhaustive switches; R-SIBLING proves every emitted opcode has a case")
	ip("(*runtime.LuaCont).getRegCell:string", 1, "'should be a cell': register kinds are fixed by the compiler")
	ip("runtime.NewLuaCont:string", 1, "'Closure not ready': all upvalues are added before a closure value is published")
	ip("(*runtime.Runtime).LoadLuaUnit:string", 1, "'Unsupported constant type': constants come from the compiler's closed set")
	ip("(runtime.Value).AsCont:string", 1, "called only on values the VM itself stored as continuations")
	ip("(runtime.Value).AsCallable:string", 1, "called only after a successful callable test")
	// --- coroutine protocol assertions
	ip("(*runtime.Thread).Resume:string", 1, "the caller passed to Resume is the running thread (status ThreadOK by construction)")
	ip("(*runtime.Thread).Close:string", 1, "same protocol assertion as Resume")
	ip("(*runtime.Thread).Yield:string", 2, "same protocol assertions; Yield on the main thread is rejected with an error earlier")
	ip("(*runtime.Thread).end:string", 2, "end runs on the coroutine's own goroutine whose caller is waiting in getResumeValues")
	ip("(*runtime.Thread).getResumeValues:interface{}", 1, "forwards to the resumer a value recovered by Thread.Start's handler (ContextTerminationError / threadClose); anything else was already escaping on the coroutine's goroutine")
	// --- accounting
	ip("(*runtime.runtimeContextManager).ReleaseMem:string", 1, "'Too much mem released': reachable only in the root context (R-RELEASE (4)) and only if a release is not matched by an earlier require; R-RELEASE (C06) checks the balance on every path of every releasing function")
	// --- host-side misuse
	ip("(*runtime.GoFunction).SolemnlyDeclareCompliance:string", 1, "'Invalid safety flags': host programming error at registration time; flags are constants (R-REGTABLE)")
}

// recursionTable: call-graph cycles whose depth is bounded, keyed
// "cycle:<smallest member>", with the bound argument.
var recursionTable = map[string]string{
	"cycle:(*ir.CodeBuilder).getRegister":         "depth = lexical nesting of functions (looks a name up in the parent builder); bounded by the parser's nesting, see known finding on the parser cycle",
	"cycle:(*lib/iolib.File).Seek":                "the self-call passes io.SeekStart, whose branch does not recurse (depth <= 2)",
	"cycle:(*runtime.Runtime).Close":              "one level per pushed context (Close pops a context and calls itself)",
	"cycle:(*runtime.Runtime).RefactorCodeConsts": "depth = nesting of function prototypes produced by the compiler",
	"cycle:(*runtime.Termination).DebugInfo":      "interface self-call down an acyclic continuation chain: each hop goes to c.parent, created earlier",
	"cycle:(*runtime.Termination).Parent":         "interface self-call down an acyclic continuation chain",
	"cycle:(*runtime.messageHandlerCont).Next":    "interface self-call down an acyclic continuation chain (c.c was created earlier)",
	"cycle:(*runtime.breader).read":               "read -> readString -> read(&length): the inner call reads a fixed-size integer (depth 2)",
	"cycle:(*runtime.breader).readCode":           "depth = prototype nesting in the dumped chunk; every level consumes >= 59 budgeted input bytes (not claimed for forged chunks > 100 MB)",
	"cycle:(*runtime.bwriter).write":              "write -> writeString -> write(length): depth 2",
	"cycle:(*runtime.bwriter).writeCode":          "depth = prototype nesting produced by the compiler",
	"cycle:(ir.Label).String":                     "formats itself with an integer verb; fmt calls String() only for %v %s %x %X %q (call-graph imprecision, no real cycle)",
	"cycle:(ir.Register).String":                  "formats itself with an integer verb (call-graph imprecision, no real cycle)",
	"cycle:(ops.Op).String":                       "stringer-generated: the fallback formats the integer value with %d (call-graph imprecision, no real cycle)",
}

// narrowTable: narrowing conversions that are safe for a reason the analysis
// cannot see, keyed "<function>:<from>-><to>" with a site count.
type narrowEntry struct {
	count    int
	reason   string
	requires string // structural precondition verified on every run ("" = none)
}

var narrowTable = map[string]narrowEntry{
	"(*code.Builder).Emit:int->int32":                   {1, "source line number: bounded by the length of the source text, which is held in memory", ""},
	"(*code.Builder).EmitJump:int->code.Offset":         {1, "distance between two opcodes of one function; ProcessCode rejects functions longer than 32767 opcodes before the unit can be used", "function-size-limit"},
	"(*code.Builder).EmitLabel:int->code.Offset":        {1, "same as EmitJump", "function-size-limit"},
	"ircomp.allocReg:int->uint8":                        {2, "the loop index is < len(regs) and len(regs) <= 255 because this function is the only place register slices grow, by one, and it refuses at 255", "append-guarded:ircomp|allocReg"},
	"(*ircomp.ConstantCompiler).ProcessCode:int->int16": {3, "numbers of registers, cells and upvalue destinations: each is allocated through allocReg, which stops at 255", "append-guarded:ircomp|allocReg"},
}

// boundedFields: struct fields whose value is bounded by memory already held
// or by an implementation limit (used by R-ALLOC when a size is read from them).
var boundedFields = map[string]string{
	"runtime.runtimeOptions.regPoolSize": "host configuration option (rt.WithRegPoolSize), not reachable from Lua",
}

type sizedField struct{ class, why string }

// sizedFields: fields that carry a program- or data-chosen size.
var sizedFields = map[string]sizedField{
	"lib/stringlib.unpacker.intVal":          {"data", "integer decoded from the packed string"},
	"lib/stringlib.packFormatReader.optSize": {"program", "size option parsed from the format string"},
}

// allocTable: computed-size allocations accepted for a reason the analysis
// cannot see; keyed "<function>:<what>" with a site count.
var allocTable = map[string]internalPanic{
	"(*runtime.array).grow:make([]runtime.Value, n)": {1, "new array size computed by calculateArraySize from the number of integer keys present (at most twice the count); the growth is charged by (*Runtime).SetTable through the byte count (*Table).Set returns (who-may-call rule in C06)"},
	"lib/stringlib.UnpackString:make([]byte, n)":     {1, "'z' option: zi is advanced only while zi < len(u.pack) (the loop returns at the end of the subject), and u.j >= 0, so zi-u.j <= len(u.pack): bounded by the subject already held"},
}

// loopTable: loops reachable from cpu-limited code that are neither metered
// nor bounded by the classifier's rules, with the reason their work is bounded;
// keyed by function, with the number of such loops.
var loopTable = map[string]internalPanic{
	"(*lib/stringlib/pattern.patternBuilder).getUnion":   {1, "every iteration consumes at least one byte of the pattern through pb.next(); bounded by len(pattern), which is held"},
	"(*lib/stringlib/pattern.patternMatcher).match":      {1, "every iteration consumes budget (matchNext/getNext returned true), or advances pi (bounded by len(items)), or pops/decrements a trackback entry whose creation consumed budget (amortised: trackbacks <= budget consumed)"},
	"(*lib/stringlib/pattern.patternMatcher).matchToEnd": {1, "every iteration ends in trackback(), which pops or decrements a trackback entry whose creation consumed budget"},
	"(*runtime.runtimeContextManager).ReleaseMem":        {1, "walks up the context chain (m.parent) and stops at the first context that can absorb the release or at the root: one link per pushed context, each of which is a live CallContext activation (bounded by the call-depth guards) or, through the known R-CTXSTACK hole, a suspended coroutine holding at least 2 KiB of charged memory"},
	"(*runtime.Error).AddContext":                        {2, "both loops walk up the continuation chain (c.Parent()) and stop at its end: bounded by the chain, which is held memory (the depth counter only makes them stop earlier)"},
	"lib/debuglib.getinfo":                               {1, "walks up the continuation chain (cont.Parent()) and stops at its end: bounded by the chain, which is held memory (the level argument only makes it stop earlier)"},
	"lib/debuglib.traceback":                             {1, "walks down the continuation chain (cont.Next()) and stops at its end: bounded by the chain, which is held memory (the level argument only makes it stop earlier)"},
	"(*runtime.Runtime).Traceback":                       {1, "one step per continuation in the chain (held memory); each step charges the bytes it appends"},
	"(*runtime.Thread).RunContinuation":                  {1, "each iteration runs one continuation: Lua and Go continuations charge at least one unit, Termination returns a nil next, the message-handler continuation strictly shortens what is left (errContCount is bounded by maxErrorsInMessageHandler)"},
	"(*runtime.Thread).cleanupCloseStack":                {1, "pops one pending to-be-closed value per iteration: bounded by the close stack (held memory); the __close call itself is metered"},
	"(*runtime.breader).readCode":                        {2, "sz was validated by checkLen against the bytes left in the input; every iteration reads at least one budgeted byte (readConst/readString consume budget)"},
	"(*runtime.mixedTable).len":                          {1, "border search: one hash lookup per consecutive integer key present in the hash part (held memory)"},
	"(lib/iolib.linebufWriter).Write":                    {1, "each iteration writes a non-empty prefix of p (i >= 1): bounded by len(p)"},
	"(runtime.ComplianceFlags).Names":                    {1, "i doubles each iteration up to the constant complyflagsLimit: at most 16 iterations"},
	"(*lib/mathlib.randomGenerator).random":              {1, "rejection sampling with >= 50% acceptance per turn (the range covers more than half of int64)"},
	"lib/stringlib.Format":                               {1, "pre-charged: RequireCPU(len(format)) precedes the loop and i only moves forward over format"},
	"lib/stringlib.PackSize":                             {1, "one option per iteration of the format reader (hasNext/nextOption advance p.i): bounded by len(format)"},
	"lib/stringlib.PackValues":                           {1, "one option per iteration of the format reader: bounded by len(format); each value written consumes budget"},
	"lib/stringlib.UnpackString":                         {1, "one option per iteration of the format reader: bounded by len(format); each value read consumes budget"},
	"runtime.findSlot":                                   {1, "small-table scan: j counts down from mask < smallHashTableSize (a constant)"},
	"runtime.insertNewKeyValue":                          {1, "walks one collision chain of the hash part: bounded by the table (held memory; invariant I1: chains are finite)"},
}

// meterRecursionTable: call-graph cycles without a metering function, keyed by
// representative, with the reason.
var meterRecursionTable = map[string]string{
	"(*lib/iolib.File).Seek":             "the self-call passes io.SeekStart, whose branch does not recurse (depth <= 2)",
	"(*runtime.Termination).DebugInfo":   "walks down the continuation chain (held memory)",
	"(*runtime.Termination).Parent":      "walks down the continuation chain (held memory)",
	"(*runtime.messageHandlerCont).Next": "walks down the continuation chain (held memory)",
	"(*runtime.breader).read":            "read -> readString -> read(8, &length): depth 2, and read consumes budget",
	"(*runtime.breader).readCode":        "one level per nested prototype; every level consumes budgeted input bytes through read",
}

// cursorWriters: budgeted cursor fields and the functions allowed to assign
// them without consuming budget at that point.
var cursorWriters = map[string]map[string]internalPanic{
	"lib/stringlib/pattern.patternMatcher.si": {
		"(*lib/stringlib/pattern.patternMatcher).reset":     {1, "sets the start position of an attempt"},
		"(*lib/stringlib/pattern.Pattern).Match":            {1, "initialises the matcher with the caller's start position"},
		"(*lib/stringlib/pattern.Pattern).MatchFromStart":   {1, "initialises the matcher with the caller's start position"},
		"(*lib/stringlib/pattern.patternMatcher).trackback": {2, "restores a position saved by addTrackback, or -1 for failure"},
		"(*lib/stringlib/pattern.patternMatcher).match":     {1, "back-reference (%1..%9): advances by the length of an earlier capture after comparing it; at most len(s) per pattern item"},
	},
}

// releaseTable: Release* sites outside the constructor/destructor pairs, keyed
// by (outermost) function, with the number of sites and the require they pair with.
var releaseTable = map[string]internalPanic{
	"(*runtime.GoCont).RunInThread":                  {2, "gives back what NewGoCont required: sizeof(GoCont), and sizeof(Value)*c.nArgs <= sizeof(Value)*f.nArgs (only when args were allocated); only on the no-error path"},
	"(*runtime.Runtime).ParseLuaChunk":               {1, "error path: gives back the LinearRequire(4, len(source)) of the same call (statSize = len(source))"},
	"(*runtime.Runtime).ParseLuaExp":                 {1, "error path: gives back the LinearRequire(4, len(source)) of the same call"},
	"(*runtime.Runtime).compileLuaStat":              {3, "statSize is handed over by the caller (ParseLuaChunk's require), constsSize is required by this function; balance checked path-sensitively by clause (1)"},
	"(*runtime.Runtime).CompileAndLoadLuaChunkOrExp": {1, "gives back the unit size returned (and required) by compileLuaStat"},
	"(*runtime.Runtime).CompileAndLoadLuaChunk":      {1, "gives back the unit size returned (and required) by compileLuaStat"},
	"lib/base.load":                                  {3, "the chunk bytes were charged by LinearRequire(10, len) as they were gathered; buf.Len() is the sum of the pieces charged so far"},
	"lib/base.dofile":                                {1, "gives back loadChunk's LinearRequire(10, len(chunk))"},
	"lib/base.loadfile":                              {1, "gives back loadChunk's LinearRequire(10, len(chunk))"},
	"lib/stringlib.Format":                           {1, "tmpMem accumulates what this function itself required for temporaries (note: the deferred argument is evaluated at defer time; see DESIGN 'seen but not claimed')"},
	"lib/utf8lib.char":                               {1, "returns the unused tail of the RequireBytes(maxLen) made at the top of the same function (bufLen <= maxLen)"},
}

// newStrTable: fresh strings accepted without a dominating charge, keyed by
// function, with count and reason.
var newStrTable = map[string]internalPanic{
	"(*runtime.Error).AddContext":    {1, "error path: position prefix (source:line) plus a message that is already held"},
	"(*runtime.LuaCont).RunInThread": {2, "1- and 2-byte string literals inlined in the opcode (ToStr1/ToStr2): constant size"},
	"(*runtime.breader).readConst":   {1, "readString consumes budget for the length before allocating; UnmarshalConst's caller charges what was used (LinearRequire(10, used))"},
	"lib/base.tostring":              {1, "default representation '<type name>: 0x...': the name is a held string, the rest is constant-size"},
	"lib/debuglib.gethook":           {1, "hook mask string: at most three characters"},
	"lib/debuglib.traceback":         {1, "(*Runtime).Traceback charges RequireBytes for every piece it appends (inside the callee)"},
	"lib/runtimelib.context__index":  {1, "names of at most four compliance flags: constant-bounded"},
	"lib/stringlib.UnpackString":     {1, "'z' option: one unit of budget is consumed per byte scanned before the copy; the caller charges what was used"},
	"lib/stringlib.gsub":             {1, "charged piecewise: RequireBytes precedes each WriteString of the builder (subject pieces here, replacements in the replacement callback)"},
}

// tableSetCallers: functions other than (*Runtime).SetTable allowed to call
// (*Table).Set, with the reason.
var tableSetCallers = map[string]string{}

// threadStatusWriters: which functions own each Thread.status transition
// (status constants by value: ThreadOK=0, ThreadSuspended=1, ThreadDead=2).
var threadStatusWriters = map[string]map[string]bool{
	"status=0": {"(*runtime.Thread).Resume": true, "(*runtime.Thread).Close": true, "runtime.New": true, "runtime.NewThread": true}, // running: resumed, resumed-to-close, the main thread
	"status=1": {"(*runtime.Thread).Yield": true, "runtime.NewThread": true},                                                        // suspended: yielded, or freshly created
	"status=3": {"(*runtime.Thread).end": true},                                                                                     // dead: only when its goroutine ends
}

// droppedErrorTable: deliberate discards of a Lua-error-returning call, keyed
// "<function>-><callee>", with count and reason.
var droppedErrorTable = map[string]internalPanic{}

// pcStoreExceptions: error returns of the interpreter loop that need no
// c.pc = pc, keyed by the function that produced the error.
var pcStoreExceptions = map[string]internalPanic{
	"triggerLine":       {1, "error raised by the line hook (a Lua function called through Call): it carries the hook's own position"},
	"cleanupCloseStack": {1, "error raised by a __close handler run at function return: it carries the handler's own position"},
}

// globalsTable: run-time writes to package-level state accepted as
// per-process by nature, keyed by the finding key, with the reason.
var globalsTable = map[string]string{}
