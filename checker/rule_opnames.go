package main

import (
	"fmt"
	"go/constant"
	"sort"
	"strings"

	"golang.org/x/tools/go/ssa"
)

func init() { registerRule("R-OPNAMES", false, ruleOpNames) }

// constStringArgs: constant string arguments of the calls in the given blocks.
func constStringsInBlocks(f *ssa.Function, blks []*ssa.BasicBlock) []string {
	var out []string
	seen := map[*ssa.BasicBlock]bool{}
	for _, b := range blks {
		for _, d := range f.Blocks {
			if !b.Dominates(d) || seen[d] {
				continue
			}
			seen[d] = true
			for _, ins := range d.Instrs {
				call, ok := ins.(*ssa.Call)
				if !ok {
					continue
				}
				for _, a := range call.Call.Args {
					if k, ok := a.(*ssa.Const); ok && k.Value != nil && k.Value.Kind() == constant.String {
						out = append(out, constant.StringVal(k.Value))
					}
				}
			}
		}
	}
	return out
}

func ruleOpNames(c *Ctx) *RuleResult {
	r := newResult("R-OPNAMES", "operators, runtime functions and metamethod names stay paired: (a) in the interpreter loop the case of each arithmetic operator passes the metamethod name of that operator to its fallback (OpAdd: \"__add\", ...); (b) each bitwise/unary helper of the runtime (band, bor, bxor, shl, shr, bnot) looks up the metamethod of its own name; (c) the string metatable registers under each \"__op\" name the closure built from the runtime function of that operator and from the same name (stringBinOp(rt.Add, \"__add\") as \"__add\"). A crossed pair computes another operation, or consults another metamethod, for every operand")
	p := c.P
	run := p.Func("runtime", "(*LuaCont).RunInThread")
	if run == nil {
		r.broken("anchor unresolved: runtime.(*LuaCont).RunInThread")
		return r
	}
	// (a)
	binC := constsOfType(p, "code", "BinOp")
	unC := constsOfType(p, "code", "UnOp")
	opMeta := map[string]string{"OpAdd": "__add", "OpSub": "__sub", "OpMul": "__mul", "OpDiv": "__div", "OpFloorDiv": "__idiv", "OpMod": "__mod", "OpPow": "__pow"}
	handledB := comparedConsts(run, "code", "BinOp")
	var ns []string
	for n := range opMeta {
		ns = append(ns, n)
	}
	sort.Strings(ns)
	for _, n := range ns {
		v, ok := binC[n]
		if !ok {
			r.broken("frozen table names code.%s which no longer exists", n)
			continue
		}
		var metas []string
		for _, s := range constStringsInBlocks(run, handledB[v]) {
			if strings.HasPrefix(s, "__") {
				metas = append(metas, s)
			}
		}
		if len(metas) == 1 && metas[0] == opMeta[n] {
			r.ok(fmt.Sprintf("(a) case code.%s falls back to %s", n, opMeta[n]))
		} else {
			r.fail("operator-metamethod:"+n, p.Pos(run.Pos()), fmt.Sprintf("the interpreter's case for code.%s uses the metamethod name(s) %v, expected exactly %q", n, metas, opMeta[n]))
		}
	}
	if v, ok := unC["OpNeg"]; ok {
		var metas []string
		for _, s := range constStringsInBlocks(run, comparedConsts(run, "code", "UnOp")[v]) {
			if strings.HasPrefix(s, "__") {
				metas = append(metas, s)
			}
		}
		if len(metas) == 1 && metas[0] == "__unm" {
			r.ok("(a) case code.OpNeg falls back to __unm")
		} else {
			r.fail("operator-metamethod:OpNeg", p.Pos(run.Pos()), fmt.Sprintf("the interpreter's case for code.OpNeg uses the metamethod name(s) %v, expected exactly \"__unm\"", metas))
		}
	}
	// (b)
	for fn, meta := range map[string]string{"band": "__band", "bor": "__bor", "bxor": "__bxor", "shl": "__shl", "shr": "__shr", "bnot": "__bnot"} {
		f := p.Func("runtime", fn)
		if f == nil {
			r.broken("anchor unresolved: runtime.%s", fn)
			continue
		}
		var metas []string
		for _, s := range constStringsInBlocks(f, f.Blocks[:1]) {
			if strings.HasPrefix(s, "__") {
				metas = append(metas, s)
			}
		}
		if len(metas) >= 1 && allEqual(metas, meta) {
			r.ok(fmt.Sprintf("(b) runtime.%s looks up %s", fn, meta))
		} else {
			r.fail("helper-metamethod:"+fn, p.Pos(f.Pos()), fmt.Sprintf("runtime.%s looks up the metamethod(s) %v, expected %q", fn, metas, meta))
		}
	}
	// (c) string metatable
	want := map[string]string{"__add": "Add", "__sub": "Sub", "__mul": "Mul", "__div": "Div", "__idiv": "Idiv", "__mod": "Mod", "__pow": "Pow", "__unm": "Unm"}
	found := map[string]bool{}
	for _, reg := range c.Reg().Regs {
		if reg.In == nil || relPkg(funcPkgPath(reg.In)) != "lib/stringlib" {
			continue
		}
		wantFn, ok := want[reg.LuaName]
		if !ok {
			continue
		}
		found[reg.LuaName] = true
		// the function operand of the registration: a load of a package-level variable
		// initialised with helper(runtimeFunction, "__name")
		var g *ssa.Global
		for _, a := range reg.Site.Common().Args {
			a = stripConv(a)
			if ct, ok := a.(*ssa.ChangeType); ok {
				a = ct.X
			}
			if u, ok := a.(*ssa.UnOp); ok {
				if gg, ok := u.X.(*ssa.Global); ok {
					g = gg
				}
			}
		}
		if g == nil {
			r.fail("string-arith-shape:"+reg.LuaName, p.InstrPos(reg.Site), fmt.Sprintf("the string metamethod %s is no longer registered from a package-level closure built by stringBinOp/stringUnOp: this rule cannot see which operation it performs", reg.LuaName))
			continue
		}
		gotFn, gotName := "", ""
		if initf := g.Pkg.Func("init"); initf != nil {
			forEachInstr(initf, func(ins ssa.Instruction) {
				st, ok := ins.(*ssa.Store)
				if !ok || st.Addr != ssa.Value(g) {
					return
				}
				call, ok := st.Val.(*ssa.Call)
				if !ok || len(call.Call.Args) != 2 {
					return
				}
				if k, ok := call.Call.Args[1].(*ssa.Const); ok && k.Value != nil && k.Value.Kind() == constant.String {
					gotName = constant.StringVal(k.Value)
				}
				switch a := call.Call.Args[0].(type) {
				case *ssa.Function:
					gotFn = a.Name()
				case *ssa.MakeClosure:
					gotFn = a.Fn.Name()
				case *ssa.ChangeType:
					if fn, ok := a.X.(*ssa.Function); ok {
						gotFn = fn.Name()
					}
				}
			})
		}
		wantFn = want[reg.LuaName]
		switch {
		case gotName != reg.LuaName:
			r.fail("string-arith-name:"+reg.LuaName, p.InstrPos(reg.Site), fmt.Sprintf("the function registered as the string metamethod %s was built with the name %q: it consults that other metamethod on its second operand and names that other operator in its error", reg.LuaName, gotName))
		case gotFn != wantFn:
			r.fail("string-arith-function:"+reg.LuaName, p.InstrPos(reg.Site), fmt.Sprintf("the function registered as the string metamethod %s wraps runtime.%s, expected runtime.%s: arithmetic on numeric strings computes another operation", reg.LuaName, gotFn, wantFn))
		default:
			r.ok(fmt.Sprintf("(c) string %s wraps runtime.%s", reg.LuaName, wantFn))
		}
	}
	for n := range want {
		if !found[n] {
			r.fail("string-arith-missing:"+n, "lib/stringlib/stringlib.go", fmt.Sprintf("the string metatable has no %s: arithmetic on numeric strings fails for that operator", n))
		}
	}
	return r
}

func allEqual(xs []string, v string) bool {
	for _, x := range xs {
		if x != v {
			return false
		}
	}
	return true
}
