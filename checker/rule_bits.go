package main

import (
	"fmt"
	"go/constant"
	"go/token"
	"go/types"
	"math/bits"
	"sort"
	"strings"

	"golang.org/x/tools/go/ssa"
)

func init() {
	registerRule("R-BITS", false, ruleBits)
}

// symbolic bit: zero, one, a copy of bit i of variable v, or unknown.
type sbit struct {
	kind int8 // 0 zero, 1 one, 2 var, 3 top
	v    int16
	i    int8
}

type bitvec [64]sbit

func bvConst(k uint64) bitvec {
	var b bitvec
	for i := 0; i < 64; i++ {
		if k>>uint(i)&1 == 1 {
			b[i] = sbit{kind: 1}
		}
	}
	return b
}

func bvVar(v int, width int) bitvec {
	var b bitvec
	for i := 0; i < width && i < 64; i++ {
		b[i] = sbit{kind: 2, v: int16(v), i: int8(i)}
	}
	return b
}

func bvTop(width int) bitvec {
	var b bitvec
	for i := 0; i < width && i < 64; i++ {
		b[i] = sbit{kind: 3}
	}
	return b
}

func (b bitvec) trunc(width int) bitvec {
	for i := width; i < 64; i++ {
		b[i] = sbit{}
	}
	return b
}

func (b bitvec) shl(k int) bitvec {
	var r bitvec
	for i := 63; i >= 0; i-- {
		if i-k >= 0 {
			r[i] = b[i-k]
		}
	}
	return r
}

func (b bitvec) shr(k int) bitvec {
	var r bitvec
	for i := 0; i < 64; i++ {
		if i+k < 64 {
			r[i] = b[i+k]
		}
	}
	return r
}

func bvAnd(a, b bitvec) bitvec {
	var r bitvec
	for i := 0; i < 64; i++ {
		x, y := a[i], b[i]
		switch {
		case x.kind == 0 || y.kind == 0:
			r[i] = sbit{}
		case x.kind == 1:
			r[i] = y
		case y.kind == 1:
			r[i] = x
		case x == y:
			r[i] = x
		default:
			r[i] = sbit{kind: 3}
		}
	}
	return r
}

func bvOr(a, b bitvec) bitvec {
	var r bitvec
	for i := 0; i < 64; i++ {
		x, y := a[i], b[i]
		switch {
		case x.kind == 1 || y.kind == 1:
			r[i] = sbit{kind: 1}
		case x.kind == 0:
			r[i] = y
		case y.kind == 0:
			r[i] = x
		case x == y:
			r[i] = x
		default:
			r[i] = sbit{kind: 3}
		}
	}
	return r
}

func (b bitvec) String() string {
	var sb strings.Builder
	hi := 31
	for i := hi; i >= 0; i-- {
		switch b[i].kind {
		case 0:
			sb.WriteByte('0')
		case 1:
			sb.WriteByte('1')
		case 2:
			sb.WriteString(fmt.Sprintf("%c", 'a'+byte(b[i].v)))
		default:
			sb.WriteByte('?')
		}
	}
	return sb.String()
}

// structural value: either a bit-vector or a struct of named fields.
type symVal struct {
	bv     bitvec
	fields map[string]*symVal
	isStr  bool
}

type bitEval struct {
	p        *Program
	enumBits map[string]int // named type -> bits needed for its largest declared constant
	problems []string
}

func typeWidth(t types.Type) int {
	if b, ok := t.Underlying().(*types.Basic); ok {
		switch b.Kind() {
		case types.Bool:
			return 1
		case types.Int8, types.Uint8:
			return 8
		case types.Int16, types.Uint16:
			return 16
		case types.Int32, types.Uint32:
			return 32
		default:
			return 64
		}
	}
	return 64
}

func isSigned(t types.Type) bool {
	b, ok := t.Underlying().(*types.Basic)
	return ok && b.Info()&types.IsInteger != 0 && b.Info()&types.IsUnsigned == 0
}

func (e *bitEval) widthOfParamType(t types.Type) int {
	if _, name, ok := namedOf(t); ok {
		if w, ok := e.enumBits[name]; ok {
			return w
		}
	}
	return typeWidth(t)
}

// fresh symbolic value for a parameter of type t; allocates variable ids.
func (e *bitEval) fresh(t types.Type, next *int, names *[]string, label string) *symVal {
	if st, ok := t.Underlying().(*types.Struct); ok {
		sv := &symVal{isStr: true, fields: map[string]*symVal{}}
		for i := 0; i < st.NumFields(); i++ {
			f := st.Field(i)
			sv.fields[f.Name()] = e.fresh(f.Type(), next, names, label+"."+f.Name())
		}
		return sv
	}
	id := *next
	*next++
	*names = append(*names, label)
	return &symVal{bv: bvVar(id, e.widthOfParamType(t))}
}

// eval evaluates a straight-line function of package code symbolically.
func (e *bitEval) eval(f *ssa.Function, args []*symVal, depth int) *symVal {
	if depth > 6 || f == nil || len(f.Blocks) != 1 {
		if f != nil && len(f.Blocks) != 1 {
			e.problems = append(e.problems, fnKey(f)+" is not straight-line code")
		}
		return &symVal{bv: bvTop(64)}
	}
	env := map[ssa.Value]*symVal{}
	for i, prm := range f.Params {
		if i < len(args) {
			env[prm] = args[i]
		}
	}
	var get func(v ssa.Value) *symVal
	get = func(v ssa.Value) *symVal {
		if sv, ok := env[v]; ok {
			return sv
		}
		if c, ok := v.(*ssa.Const); ok {
			if c.Value == nil {
				return &symVal{}
			}
			switch c.Value.Kind() {
			case constant.Int:
				u, _ := constant.Uint64Val(constant.ToInt(c.Value))
				if k, ok := constant.Int64Val(c.Value); ok && k < 0 {
					u = uint64(k)
				}
				return &symVal{bv: bvConst(u).trunc(typeWidth(c.Type()))}
			case constant.Bool:
				if constant.BoolVal(c.Value) {
					return &symVal{bv: bvConst(1)}
				}
				return &symVal{}
			}
		}
		return &symVal{bv: bvTop(typeWidth(v.Type()))}
	}
	var result *symVal
	for _, ins := range f.Blocks[0].Instrs {
		switch x := ins.(type) {
		case *ssa.Convert:
			src := get(x.X)
			sw, dw := typeWidth(x.X.Type()), typeWidth(x.Type())
			bv := src.bv
			if dw < sw {
				bv = bv.trunc(dw)
			} else if dw > sw && isSigned(x.X.Type()) {
				// sign extension copies the top bit upwards
				top := bv[sw-1]
				for i := sw; i < dw; i++ {
					if top.kind == 0 {
						bv[i] = sbit{}
					} else {
						bv[i] = sbit{kind: 3}
					}
				}
			}
			env[x] = &symVal{bv: bv.trunc(dw)}
		case *ssa.ChangeType:
			env[x] = get(x.X)
		case *ssa.BinOp:
			a, b := get(x.X), get(x.Y)
			w := typeWidth(x.Type())
			switch x.Op {
			case token.SHL, token.SHR:
				k, ok := constInt(x.Y)
				if !ok {
					env[x] = &symVal{bv: bvTop(w)}
					break
				}
				if x.Op == token.SHL {
					env[x] = &symVal{bv: a.bv.shl(int(k)).trunc(w)}
				} else {
					env[x] = &symVal{bv: a.bv.shr(int(k)).trunc(w)}
				}
			case token.AND:
				env[x] = &symVal{bv: bvAnd(a.bv, b.bv).trunc(w)}
			case token.OR:
				env[x] = &symVal{bv: bvOr(a.bv, b.bv).trunc(w)}
			case token.NEQ, token.EQL:
				// (v != 0): a single-bit value is that bit
				var other *symVal
				if k, ok := constInt(x.Y); ok && k == 0 {
					other = a
				} else if k, ok := constInt(x.X); ok && k == 0 {
					other = b
				}
				res := &symVal{bv: bvTop(1)}
				if other != nil {
					nz := -1
					cnt := 0
					for i := 0; i < 64; i++ {
						if other.bv[i].kind != 0 {
							nz = i
							cnt++
						}
					}
					if cnt == 1 && x.Op == token.NEQ {
						var bv bitvec
						bv[0] = other.bv[nz]
						res = &symVal{bv: bv}
					}
					if cnt == 0 {
						if x.Op == token.NEQ {
							res = &symVal{}
						} else {
							res = &symVal{bv: bvConst(1)}
						}
					}
				}
				env[x] = res
			default:
				env[x] = &symVal{bv: bvTop(w)}
			}
		case *ssa.Field:
			s := get(x.X)
			st := x.X.Type().Underlying().(*types.Struct)
			if s.isStr {
				if fv, ok := s.fields[st.Field(x.Field).Name()]; ok {
					env[x] = fv
					break
				}
			}
			env[x] = &symVal{bv: bvTop(typeWidth(x.Type()))}
		case *ssa.Alloc:
			if st, ok := x.Type().(*types.Pointer).Elem().Underlying().(*types.Struct); ok {
				sv := &symVal{isStr: true, fields: map[string]*symVal{}}
				for i := 0; i < st.NumFields(); i++ {
					sv.fields[st.Field(i).Name()] = &symVal{}
				}
				env[x] = sv
			} else {
				env[x] = &symVal{}
			}
		case *ssa.FieldAddr:
			base := get(x.X)
			st := x.X.Type().Underlying().(*types.Pointer).Elem().Underlying().(*types.Struct)
			name := st.Field(x.Field).Name()
			if base.isStr {
				// the address aliases the field slot: represent by a holder
				holder := &symVal{}
				if fv, ok := base.fields[name]; ok {
					holder = fv
				}
				base.fields[name] = holder
				env[x] = holder
			}
		case *ssa.Store:
			if dst, ok := env[x.Addr]; ok {
				src := get(x.Val)
				*dst = *src
			}
		case *ssa.UnOp:
			if x.Op == token.MUL {
				if src, ok := env[x.X]; ok {
					cp := *src
					env[x] = &cp
				} else {
					env[x] = &symVal{bv: bvTop(typeWidth(x.Type()))}
				}
			} else {
				env[x] = &symVal{bv: bvTop(typeWidth(x.Type()))}
			}
		case *ssa.Call:
			var callees []*ssa.Function
			if cal := x.Call.StaticCallee(); cal != nil {
				callees = []*ssa.Function{cal}
			} else if x.Call.IsInvoke() {
				callees = e.p.CalleesAt(x)
			}
			var argv []*symVal
			if x.Call.IsInvoke() {
				argv = append(argv, get(x.Call.Value))
			}
			for _, a := range x.Call.Args {
				argv = append(argv, get(a))
			}
			var res *symVal
			for _, cal := range callees {
				if relPkg(funcPkgPath(cal)) != "code" {
					res = &symVal{bv: bvTop(typeWidth(x.Type()))}
					break
				}
				rv := e.eval(cal, argv, depth+1)
				if res == nil {
					res = rv
				} else {
					// several implementers: keep only what they agree on
					var bv bitvec
					for i := 0; i < 64; i++ {
						if res.bv[i] == rv.bv[i] {
							bv[i] = res.bv[i]
						} else {
							bv[i] = sbit{kind: 3}
						}
					}
					res = &symVal{bv: bv}
				}
			}
			if res == nil {
				res = &symVal{bv: bvTop(typeWidth(x.Type()))}
			}
			env[x] = res
		case *ssa.MakeInterface:
			env[x] = get(x.X)
		case *ssa.Return:
			if len(x.Results) == 1 {
				result = get(x.Results[0])
			}
		}
	}
	if result == nil {
		return &symVal{bv: bvTop(64)}
	}
	return result
}

func ruleBits(c *Ctx) *RuleResult {
	r := newResult("R-BITS", "opcode bit layout round-trips by construction: every opcode constructor mkTypeN is evaluated symbolically, bit by bit (each result bit is 0, 1, a copy of one bit of one parameter, or unknown; shifts, masks, ors and zero-extending conversions are interpreted, anything else is unknown), and every decoder applied to that word returns exactly the bits of the parameter it is paired with (GetA<->rA, GetB<->rB, GetC<->rC, GetF<->f, GetX/GetUnOp/GetUnOpK/GetY/GetJ<->op, GetN/GetKIndex/GetL/GetM/GetOffset/GetClStackOffset<->k/i), the type prefix tests (TypePfx, HasType1, HasType0, HasType4a) evaluate to the constants of that type, and no field overlaps another or the prefix (an overlap makes a bit unknown and the round trip fail). Enum-typed parameters are given the bits of their largest declared constant")
	p := c.P
	pk := p.Pkg("code")
	if pk == nil {
		r.broken("package code not loaded")
		return r
	}
	ev := &bitEval{p: p, enumBits: map[string]int{}}
	// enum widths
	maxC := map[string]uint64{}
	for _, n := range pk.Types.Scope().Names() {
		if cst, ok := pk.Types.Scope().Lookup(n).(*types.Const); ok {
			if _, tn, ok := namedOf(cst.Type()); ok {
				if u, ok := constant.Uint64Val(constant.ToInt(cst.Val())); ok && u >= maxC[tn] {
					maxC[tn] = u
				}
			}
		}
	}
	for _, tn := range []string{"BinOp", "UnOp", "UnOpK", "UnOpK16", "JumpOp", "Flag", "RegType"} {
		if m, ok := maxC[tn]; ok {
			w := bits.Len64(m)
			if w == 0 {
				w = 1
			}
			ev.enumBits[tn] = w
		} else {
			r.broken("anchor unresolved: no constants of type code.%s", tn)
		}
	}
	type pairing struct {
		decoder string
		param   string
		field   string // "" whole value; "idx"/"tp" composite handled automatically
	}
	ctors := map[string][]pairing{
		"mkType1":  {{"GetX", "op", ""}, {"GetA", "rA", ""}, {"GetB", "rB", ""}, {"GetC", "rC", ""}},
		"mkType2":  {{"GetF", "f", ""}, {"GetA", "rA", ""}, {"GetB", "rB", ""}, {"GetC", "rC", ""}},
		"mkType3":  {{"GetF", "f", ""}, {"GetY", "op", ""}, {"GetA", "rA", ""}, {"GetN", "k", ""}, {"GetKIndex", "k", ""}},
		"mkType4a": {{"GetF", "f", ""}, {"GetUnOp", "op", ""}, {"GetA", "rA", ""}, {"GetB", "rB", ""}},
		"mkType4b": {{"GetF", "f", ""}, {"GetUnOpK", "op", ""}, {"GetA", "rA", ""}, {"GetL", "k", ""}},
		"mkType5":  {{"GetF", "f", ""}, {"GetJ", "op", ""}, {"GetA", "rA", ""}, {"GetOffset", "k", ""}, {"GetClStackOffset", "k", ""}},
		"mkType6":  {{"GetF", "f", ""}, {"GetA", "rA", ""}, {"GetB", "rB", ""}, {"GetM", "i", ""}},
		"mkType7":  {{"GetF", "f", ""}, {"GetA", "rA", ""}, {"GetB", "rB", ""}, {"GetC", "rC", ""}},
		"mkType0":  {{"GetF", "f", ""}, {"GetA", "rA", ""}},
	}
	prefixConst := map[string]string{"mkType1": "Type1Pfx", "mkType2": "Type2Pfx", "mkType3": "Type3Pfx", "mkType4a": "Type4Pfx", "mkType4b": "Type4Pfx", "mkType5": "Type5Pfx", "mkType6": "Type6Pfx", "mkType7": "Type7Pfx", "mkType0": "Type0Pfx"}
	var names []string
	for n := range ctors {
		names = append(names, n)
	}
	sort.Strings(names)
	for _, cn := range names {
		f := p.Func("code", cn)
		if f == nil {
			r.broken("anchor unresolved: code.%s", cn)
			continue
		}
		next := 0
		var labels []string
		var args []*symVal
		byName := map[string]*symVal{}
		for _, prm := range f.Params {
			var sv *symVal
			if _, isIface := prm.Type().Underlying().(*types.Interface); isIface {
				// encoderToN / encoderToD: a 16-bit literal
				id := next
				next++
				labels = append(labels, prm.Name())
				sv = &symVal{bv: bvVar(id, 16)}
			} else {
				sv = ev.fresh(prm.Type(), &next, &labels, prm.Name())
			}
			args = append(args, sv)
			byName[prm.Name()] = sv
		}
		ev.problems = nil
		word := ev.eval(f, args, 0)
		for _, pr := range ev.problems {
			r.broken("%s: %s", cn, pr)
		}
		// prefix
		pfx, _ := fmt.Sscan(constOf(p, "code", prefixConst[cn]), new(uint64))
		_ = pfx
		var pfxVal uint64
		fmt.Sscan(constOf(p, "code", prefixConst[cn]), &pfxVal)
		okPfx := true
		if cn == "mkType1" {
			if word.bv[31].kind != 1 {
				okPfx = false
			}
		} else {
			for i := 28; i < 32; i++ {
				want := pfxVal >> uint(i) & 1
				if (want == 1 && word.bv[i].kind != 1) || (want == 0 && word.bv[i].kind != 0) {
					okPfx = false
				}
			}
		}
		if okPfx {
			r.ok(fmt.Sprintf("%s: word %s carries its type prefix untouched", cn, word.bv))
		} else {
			r.fail("prefix-clobbered:"+cn, p.Pos(f.Pos()), fmt.Sprintf("code.%s builds the word %s (letters = parameter bits, ? = unknown): its type prefix bits are not the constants of %s, so some field spills into the prefix or the prefix is wrong: the VM would dispatch this opcode as another type", cn, word.bv, prefixConst[cn]))
		}
		for _, pr := range ctors[cn] {
			dec := p.Func("code", "(Opcode)."+pr.decoder)
			if dec == nil {
				r.broken("anchor unresolved: code.(Opcode).%s", pr.decoder)
				continue
			}
			src := byName[pr.param]
			if src == nil {
				r.broken("%s has no parameter named %s (pairing table needs review)", cn, pr.param)
				continue
			}
			ev.problems = nil
			got := ev.eval(dec, []*symVal{word}, 0)
			same, why := sameSym(got, src, typeWidth(dec.Signature.Results().At(0).Type()))
			if same {
				r.ok(fmt.Sprintf("%s: %s(word) returns exactly parameter %s", cn, pr.decoder, pr.param))
			} else {
				r.fail("decode-mismatch:"+cn+":"+pr.decoder, p.Pos(dec.Pos()), fmt.Sprintf("decoding %s from the word built by code.%s does not give back parameter %s bit for bit (%s; word = %s): encoder and decoder disagree on the field's position or width, or the field overlaps another", pr.decoder, cn, pr.param, why, word.bv))
			}
		}
	}
	r.count("constructors", len(names))
	return r
}

func sameSym(got, want *symVal, width int) (bool, string) {
	if want.isStr != got.isStr {
		return false, "shape differs"
	}
	if want.isStr {
		for k, wv := range want.fields {
			gv, ok := got.fields[k]
			if !ok {
				return false, "field " + k + " missing"
			}
			if ok2, why := sameSym(gv, wv, 64); !ok2 {
				return false, "field " + k + ": " + why
			}
		}
		return true, ""
	}
	for i := 0; i < 64; i++ {
		if got.bv[i] != want.bv[i] {
			return false, fmt.Sprintf("bit %d: got %v want %v", i, describeBit(got.bv[i]), describeBit(want.bv[i]))
		}
	}
	return true, ""
}

func describeBit(b sbit) string {
	switch b.kind {
	case 0:
		return "0"
	case 1:
		return "1"
	case 2:
		return fmt.Sprintf("param#%d.bit%d", b.v, b.i)
	}
	return "unknown"
}
