package main

import (
	"fmt"
	"go/token"
	"go/types"
	"strings"

	"golang.org/x/tools/go/ssa"
)

func init() {
	registerRule("R-NEWSTR", false, ruleNewStr)
	registerRule("R-TABLESET", false, ruleTableSet)
}

// freshStringOrigin classifies how the string handed to rt.StringValue came to
// be: "" = not a fresh, program-sized allocation (constant, substring, existing
// value, number formatting); otherwise a description of the allocation.
func freshStringOrigin(v ssa.Value, depth int) string {
	if depth > 6 {
		return ""
	}
	switch x := v.(type) {
	case *ssa.Const:
		return ""
	case *ssa.Slice:
		return "" // substring shares the subject's memory
	case *ssa.ChangeType:
		return freshStringOrigin(x.X, depth+1)
	case *ssa.Phi:
		for _, e := range x.Edges {
			if o := freshStringOrigin(e, depth+1); o != "" {
				return o
			}
		}
		return ""
	case *ssa.BinOp:
		if x.Op == token.ADD {
			_, c1 := x.X.(*ssa.Const)
			_, c2 := x.Y.(*ssa.Const)
			if c1 && c2 {
				return ""
			}
			return "string concatenation"
		}
	case *ssa.Convert:
		// []byte / []rune -> string
		if _, ok := x.X.Type().Underlying().(*types.Slice); ok {
			// constant-length buffers are bounded
			if sl, ok := x.X.(*ssa.Slice); ok {
				if al, ok := sl.X.(*ssa.Alloc); ok {
					if _, isArr := al.Type().(*types.Pointer).Elem().Underlying().(*types.Array); isArr {
						return ""
					}
				}
			}
			return "string([]byte) copy"
		}
		if b, ok := x.X.Type().Underlying().(*types.Basic); ok && b.Info()&types.IsInteger != 0 {
			return "" // string(rune)
		}
	case *ssa.Call:
		cal := x.Call.StaticCallee()
		if cal == nil {
			return ""
		}
		switch fullName(cal) {
		case "(*strings.Builder).String", "(*bytes.Buffer).String":
			return fullName(cal)
		case "strings.Repeat", "strings.ToUpper", "strings.ToLower", "strings.Join", "strings.Replace", "strings.ReplaceAll", "strings.Map", "strings.Title", "strings.TrimFunc":
			return fullName(cal)
		case "fmt.Sprintf":
			if len(x.Call.Args) > 0 {
				if f, ok := constString(x.Call.Args[0]); ok && (strings.Contains(f, "%s") || strings.Contains(f, "%v") || strings.Contains(f, "%q")) {
					return "fmt.Sprintf with a string verb"
				}
			}
			return ""
		}
	case *ssa.Extract:
		// results of module helpers are followed one level
		if call, ok := x.Tuple.(*ssa.Call); ok {
			if cal := call.Call.StaticCallee(); cal != nil && cal.Blocks != nil {
				return originOfResult(cal, x.Index, depth+1)
			}
		}
	}
	if call, ok := v.(*ssa.Call); ok {
		if cal := call.Call.StaticCallee(); cal != nil && cal.Blocks != nil && cal.Signature.Results().Len() >= 1 {
			return originOfResult(cal, 0, depth+1)
		}
	}
	return ""
}

func originOfResult(cal *ssa.Function, idx int, depth int) string {
	if depth > 3 {
		return ""
	}
	out := ""
	forEachInstr(cal, func(ins ssa.Instruction) {
		if ret, ok := ins.(*ssa.Return); ok && idx < len(ret.Results) && out == "" {
			if o := freshStringOrigin(ret.Results[idx], depth+1); o != "" {
				out = o + " (in " + fnKey(cal) + ")"
			}
		}
	})
	return out
}

// memChargeDominates: a memory charge with a non-constant amount, or the use of
// a budgeted worker whose consumption is charged, dominates `at` in f.
func memChargeDominates(p *Program, f *ssa.Function, at ssa.Instruction) (bool, string) {
	found, where := false, ""
	forEachInstr(f, func(ins ssa.Instruction) {
		call, ok := ins.(ssa.CallInstruction)
		if !ok || found {
			return
		}
		if _, isDefer := ins.(*ssa.Defer); isDefer {
			return
		}
		cal := call.Common().StaticCallee()
		if cal == nil || !isChargeCall(cal) {
			return
		}
		if !instrDominates(ins, at) {
			return
		}
		for _, a := range amountOf(call) {
			if _, isConst := constInt(a); !isConst {
				found = true
				where = fnKey(cal) + " at " + p.InstrPos(ins)
			}
		}
	})
	return found, where
}

func ruleNewStr(c *Ctx) *RuleResult {
	r := newResult("R-NEWSTR", "every Lua string built fresh from program-sized data (rt.StringValue of a concatenation, a string([]byte) copy of a non-constant-length buffer, Builder/Buffer.String, strings.Repeat/ToUpper/ToLower/Join/Replace, fmt.Sprintf with a string verb) in the runtime and libraries is preceded on every path by a memory charge (Require*/LinearRequire with a computed amount) in the same function, or in every caller when the function is a helper; substrings, constants and number formatting are exempt. Results bounded by memory already held are still new memory each time (a = a .. a in a loop doubles it)")
	p := c.P
	sv := p.Func("runtime", "StringValue")
	if sv == nil {
		r.broken("anchor unresolved: runtime.StringValue")
		return r
	}
	sites, fresh := 0, 0
	usedT := map[string]int{}
	for _, f := range p.ModFuncs() {
		if !meterScope(relPkg(funcPkgPath(f))) || f.Blocks == nil {
			continue
		}
		forEachInstr(f, func(ins ssa.Instruction) {
			call, ok := ins.(*ssa.Call)
			if !ok || call.Call.StaticCallee() != sv {
				return
			}
			sites++
			origin := freshStringOrigin(call.Call.Args[0], 0)
			if origin == "" {
				return
			}
			fresh++
			if ok, where := memChargeDominates(p, f, ins); ok {
				r.ok(fmt.Sprintf("%s: %s charged by %s [%s]", fnKey(f), origin, where, p.InstrPos(ins)))
				return
			}
			// helper: every caller charges before calling
			if n := p.CallGraph().Nodes[f]; n != nil && len(n.In) > 0 && f.Parent() == nil {
				all := true
				for _, e := range n.In {
					if e.Site == nil {
						all = false
						break
					}
					if ok, _ := memChargeDominates(p, e.Caller.Func, e.Site); !ok {
						all = false
						break
					}
				}
				if all {
					r.ok(fmt.Sprintf("%s: %s charged by every caller [%s]", fnKey(f), origin, p.InstrPos(ins)))
					return
				}
			}
			key := fnKey(f)
			if e, ok := newStrTable[key]; ok {
				usedT[key]++
				if usedT[key] <= e.count {
					r.ok("table: " + key + " — " + e.reason)
					return
				}
			}
			r.fail("uncharged-string:"+key, p.InstrPos(ins), fmt.Sprintf("%s builds a new Lua string by %s without charging the memory quota first: a program can make the context hold memory it was never charged for", key, origin))
		})
	}
	r.count("StringValue_sites", sites)
	r.count("fresh_program_sized_strings", fresh)
	r.floor("StringValue_sites", 50)
	r.floor("fresh_program_sized_strings", 8)
	for k := range newStrTable {
		if usedT[k] == 0 {
			r.note("table entry unused: %s", k)
		}
	}
	return r
}

// ruleTableSet: (*Table).Set returns the bytes the store added; only
// (*Runtime).SetTable may call it, and it must pass the result to RequireMem.
func ruleTableSet(c *Ctx) *RuleResult {
	r := newResult("R-TABLESET", "table growth is charged: (*runtime.Table).Set, which returns the number of bytes a store added to the table, is called only by (*Runtime).SetTable (and table-listed internal helpers), and SetTable passes that result to RequireMem on every path")
	p := c.P
	set := p.Func("runtime", "(*Table).Set")
	setTable := p.Func("runtime", "(*Runtime).SetTable")
	if set == nil || setTable == nil {
		r.broken("anchor unresolved: runtime.(*Table).Set / (*Runtime).SetTable")
		return r
	}
	callers := 0
	for _, f := range p.ModFuncs() {
		if f.Blocks == nil {
			continue
		}
		forEachInstr(f, func(ins ssa.Instruction) {
			call, ok := ins.(ssa.CallInstruction)
			if !ok || call.Common().StaticCallee() != set {
				return
			}
			callers++
			rel := relPkg(funcPkgPath(f))
			if f == setTable {
				// result must reach RequireMem
				v, isV := ins.(ssa.Value)
				charged := false
				if isV {
					seen := map[ssa.Value]bool{}
					var visit func(v ssa.Value, d int)
					visit = func(v ssa.Value, d int) {
						if d > 5 || seen[v] || v.Referrers() == nil {
							return
						}
						seen[v] = true
						for _, ref := range *v.Referrers() {
							if c2, ok := ref.(ssa.CallInstruction); ok {
								if cal := c2.Common().StaticCallee(); cal != nil && isChargeCall(cal) {
									charged = true
								}
							}
							if v2, ok := ref.(ssa.Value); ok {
								visit(v2, d+1)
							}
						}
					}
					visit(v, 0)
				}
				if charged {
					r.ok("(*Runtime).SetTable charges what (*Table).Set returns")
				} else {
					r.fail("settable-uncharged", p.InstrPos(ins), "(*Runtime).SetTable no longer passes the byte count returned by (*Table).Set to RequireMem: table growth is free")
				}
				return
			}
			if why, ok := tableSetCallers[fnKey(f)]; ok {
				r.ok("table: " + fnKey(f) + " — " + why)
				return
			}
			if !luaReachablePkg(rel) {
				r.ok("")
				return
			}
			r.fail("table-set-bypasses-charge:"+fnKey(f), p.InstrPos(ins), fmt.Sprintf("%s calls (*Table).Set directly and drops the bytes it returns: stores made this way grow tables without charging memory; use (*Runtime).SetTable", fnKey(f)))
		})
	}
	r.count("callers_of_Table.Set", callers)
	r.floor("callers_of_Table.Set", 1)
	return r
}
