package main

import (
	"fmt"
	"go/token"
	"go/types"
	"sort"
	"strings"

	"golang.org/x/tools/go/ssa"
)

func init() {
	registerRule("R-RELEASE", true, ruleRelease)
}

func isReleaseCall(cal *ssa.Function) bool {
	if cal == nil {
		return false
	}
	switch cal.Name() {
	case "ReleaseMem", "ReleaseBytes", "ReleaseSize", "ReleaseArrSize":
		return isCtxMethod(cal, cal.Name())
	}
	return false
}

func isRequireMemCall(cal *ssa.Function) bool {
	if cal == nil {
		return false
	}
	switch cal.Name() {
	case "RequireMem", "RequireBytes", "RequireSize", "RequireArrSize", "LinearRequire":
		return isCtxMethod(cal, cal.Name())
	}
	return false
}

// ---- (1) path-sensitive balance of multiply-released amounts

type vn string // value number

type pathState struct {
	cell     map[*ssa.Alloc]vn // current number of each captured variable cell
	rel      map[vn]int
	acq      map[vn]int
	deferred []deferredAction
	visits   map[*ssa.BasicBlock]int
	fresh    *int
}

type deferredAction struct {
	direct vn            // amount evaluated at defer time ("" if closure)
	clos   *ssa.Function // closure executed at exit
	binds  []ssa.Value   // closure bindings (for free variables)
}

func (s *pathState) clone() *pathState {
	c := &pathState{cell: map[*ssa.Alloc]vn{}, rel: map[vn]int{}, acq: map[vn]int{}, visits: map[*ssa.BasicBlock]int{}, fresh: s.fresh}
	for k, v := range s.cell {
		c.cell[k] = v
	}
	for k, v := range s.rel {
		c.rel[k] = v
	}
	for k, v := range s.acq {
		c.acq[k] = v
	}
	for k, v := range s.visits {
		c.visits[k] = v
	}
	c.deferred = append([]deferredAction(nil), s.deferred...)
	return c
}

type balanceChecker struct {
	p         *Program
	f         *ssa.Function
	paths     int
	violation map[string]string // key -> description
	inherited map[vn]bool
}

func (bc *balanceChecker) number(st *pathState, v ssa.Value) vn {
	v = stripConv(v)
	if k, ok := constInt(v); ok {
		if k == 0 {
			return "zero"
		}
		return vn(fmt.Sprintf("const:%d", k))
	}
	switch x := v.(type) {
	case *ssa.UnOp:
		if x.Op == token.MUL {
			if al, ok := x.X.(*ssa.Alloc); ok {
				if n, ok := st.cell[al]; ok {
					return n
				}
				// first load of a cell initialised from a parameter
				return vn("cell:" + al.Name())
			}
		}
	case *ssa.Parameter:
		n := vn("param:" + x.Name())
		bc.inherited[n] = true
		return n
	case *ssa.Call:
		if b := bufferOfLen(x, nil, nil); b != "" {
			return vn("buflen:" + b)
		}
		if isLenCall(x) {
			return vn("len(" + string(bc.number(st, x.Call.Args[0])) + ")")
		}
	}
	return vn("v:" + v.Name())
}

// bufferOfLen: v is the length of a bytes.Buffer / strings.Builder local —
// b.Len(), len(b.Bytes()), len(b.String()), or len(x) where x may be one of
// those (phi). Returns the buffer's name, "" otherwise. Inside a closure the
// buffer is a free variable: fvs/binds map it back to the parent's local.
func bufferOfLen(call *ssa.Call, fvs []*ssa.FreeVar, binds []ssa.Value) string {
	bufName := func(ptr ssa.Value) string {
		switch p := ptr.(type) {
		case *ssa.Alloc:
			return p.Name()
		case *ssa.FreeVar:
			for i, f := range fvs {
				if f == p && i < len(binds) {
					if al, ok := binds[i].(*ssa.Alloc); ok {
						return al.Name()
					}
				}
			}
		}
		return ""
	}
	isBufMethod := func(c *ssa.Call, names ...string) bool {
		cal := c.Call.StaticCallee()
		if cal == nil || len(c.Call.Args) == 0 {
			return false
		}
		fn := fullName(cal)
		for _, n := range names {
			if fn == "(*bytes.Buffer)."+n || fn == "(*strings.Builder)."+n {
				return true
			}
		}
		return false
	}
	if isBufMethod(call, "Len") {
		return bufName(call.Call.Args[0])
	}
	if !isLenCall(call) {
		return ""
	}
	var from func(v ssa.Value, depth int) string
	from = func(v ssa.Value, depth int) string {
		if depth > 4 {
			return ""
		}
		switch x := stripConv(v).(type) {
		case *ssa.Call:
			if isBufMethod(x, "Bytes", "String") {
				return bufName(x.Call.Args[0])
			}
		case *ssa.Phi:
			for _, e := range x.Edges {
				if b := from(e, depth+1); b != "" {
					return b
				}
			}
		}
		return ""
	}
	return from(call.Call.Args[0], 0)
}

func amountOf(call ssa.CallInstruction) []ssa.Value {
	args := call.Common().Args
	cal := call.Common().StaticCallee()
	switch cal.Name() {
	case "LinearRequire":
		return args[2:3]
	case "ReleaseArrSize", "RequireArrSize":
		return args[1:3]
	}
	return args[1:2]
}

func (bc *balanceChecker) amountNumber(st *pathState, call ssa.CallInstruction) vn {
	var parts []string
	for _, a := range amountOf(call) {
		parts = append(parts, string(bc.number(st, a)))
	}
	return vn(strings.Join(parts, "*"))
}

func (bc *balanceChecker) applyClosure(st *pathState, clos *ssa.Function, binds []ssa.Value) {
	forEachInstr(clos, func(ins ssa.Instruction) {
		call, ok := ins.(ssa.CallInstruction)
		if !ok {
			return
		}
		cal := call.Common().StaticCallee()
		if !isReleaseCall(cal) {
			return
		}
		// amount: load of a free variable bound to a cell of the parent
		var parts []string
		for _, a := range amountOf(call) {
			a = stripConv(a)
			n := vn("closure:" + a.Name())
			if ac, ok := a.(*ssa.Call); ok {
				if b := bufferOfLen(ac, clos.FreeVars, binds); b != "" {
					n = vn("buflen:" + b)
				}
			}
			if u, ok := a.(*ssa.UnOp); ok && u.Op == token.MUL {
				if fv, ok := u.X.(*ssa.FreeVar); ok {
					for i, f := range clos.FreeVars {
						if f == fv && i < len(binds) {
							if al, ok := binds[i].(*ssa.Alloc); ok {
								if cur, ok := st.cell[al]; ok {
									n = cur
								} else {
									n = vn("cell:" + al.Name())
								}
							}
						}
					}
				}
			}
			if k, ok := constInt(a); ok {
				if k == 0 {
					n = "zero"
				} else {
					n = vn(fmt.Sprintf("const:%d", k))
				}
			}
			parts = append(parts, string(n))
		}
		st.rel[vn(strings.Join(parts, "*"))]++
	})
}

func (bc *balanceChecker) check(st *pathState, at ssa.Instruction) {
	for n, r := range st.rel {
		if r < 2 || n == "zero" || strings.HasPrefix(string(n), "const:") {
			continue
		}
		allowed := st.acq[n]
		// a cell initialised from a parameter inherits the caller's budget
		if bc.inherited[n] || strings.HasPrefix(string(n), "cell:") || strings.HasPrefix(string(n), "param:") {
			allowed++
		}
		if r > allowed {
			key := string(n)
			bc.violation[key] = fmt.Sprintf("on a path ending at %s the amount %s is released %d time(s) but acquired %d time(s) (+%d inherited from the caller)", bc.p.InstrPos(at), n, r, st.acq[n], allowed-st.acq[n])
		}
	}
}

func (bc *balanceChecker) walk(b *ssa.BasicBlock, st *pathState) {
	if bc.paths > 4000 {
		return
	}
	st.visits[b]++
	if st.visits[b] > 2 {
		return
	}
	for _, ins := range b.Instrs {
		switch x := ins.(type) {
		case *ssa.Store:
			if al, ok := x.Addr.(*ssa.Alloc); ok {
				n := bc.number(st, x.Val)
				if _, isParam := stripConv(x.Val).(*ssa.Parameter); isParam {
					bc.inherited[n] = true
				}
				st.cell[al] = n
			}
		case *ssa.Defer:
			cal := x.Call.StaticCallee()
			if isReleaseCall(cal) {
				st.deferred = append(st.deferred, deferredAction{direct: bc.amountNumber(st, x)})
			} else if mc, ok := x.Call.Value.(*ssa.MakeClosure); ok {
				st.deferred = append(st.deferred, deferredAction{clos: mc.Fn.(*ssa.Function), binds: mc.Bindings})
			}
		case *ssa.RunDefers:
			for i := len(st.deferred) - 1; i >= 0; i-- {
				d := st.deferred[i]
				if d.clos != nil {
					bc.applyClosure(st, d.clos, d.binds)
				} else {
					st.rel[d.direct]++
				}
			}
			st.deferred = nil
		case ssa.CallInstruction:
			cal := x.Common().StaticCallee()
			if _, isDefer := ins.(*ssa.Defer); isDefer {
				continue
			}
			if isReleaseCall(cal) {
				st.rel[bc.amountNumber(st, x)]++
			} else if isRequireMemCall(cal) {
				st.acq[bc.amountNumber(st, x)]++
			}
		case *ssa.Return:
			bc.paths++
			bc.check(st, ins)
			return
		case *ssa.Panic:
			bc.paths++
			return
		}
	}
	for _, s := range b.Succs {
		bc.walk(s, st.clone())
	}
}

// ---- (2) constructor/destructor pairing

type memOp struct {
	call   ssa.CallInstruction
	size   string // sizeof constant or byte-count constant
	count  string // name of the count (struct field / parameter), "" if none
	guards string // sorted list of "<flag>=<bool>" that must hold
}

// guardFlags: boolean struct fields / locals (mapped to the field they are
// stored in by the constructor) whose value is decided on every path to `at`.
func guardFlags(f *ssa.Function, at ssa.Instruction, localToField map[ssa.Value]string) string {
	gc := newGuardCtx(f)
	var out []string
	for _, ge := range gc.MustEdges(at.Block()) {
		c := ge.If.Cond
		holds := ge.Taken
		for {
			if u, ok := c.(*ssa.UnOp); ok && u.Op == token.NOT {
				holds = !holds
				c = u.X
				continue
			}
			break
		}
		name := ""
		if u, ok := c.(*ssa.UnOp); ok && u.Op == token.MUL {
			if fa, ok := u.X.(*ssa.FieldAddr); ok {
				_, _, fn := fieldOfAddr(fa)
				name = fn
			}
		}
		if n, ok := localToField[c]; ok {
			name = n
		}
		if name == "" {
			continue
		}
		if b, ok := c.Type().Underlying().(*types.Basic); !ok || b.Kind() != types.Bool {
			continue
		}
		out = append(out, fmt.Sprintf("%s=%v", name, holds))
	}
	sort.Strings(out)
	return strings.Join(out, ",")
}

func countName(v ssa.Value) string {
	v = stripConv(v)
	switch x := v.(type) {
	case *ssa.UnOp:
		if fa, ok := x.X.(*ssa.FieldAddr); ok && x.Op == token.MUL {
			_, _, fn := fieldOfAddr(fa)
			return fn
		}
	case *ssa.Field:
		_, _, fn := fieldOfField(x)
		return fn
	case *ssa.Const:
		return x.Value.String()
	}
	return "?" + v.Name()
}

func collectMemOps(f *ssa.Function, want func(*ssa.Function) bool, localToField map[ssa.Value]string) []memOp {
	var out []memOp
	forEachInstr(f, func(ins ssa.Instruction) {
		call, ok := ins.(ssa.CallInstruction)
		if !ok {
			return
		}
		cal := call.Common().StaticCallee()
		if !want(cal) {
			return
		}
		args := call.Common().Args
		op := memOp{call: call}
		switch cal.Name() {
		case "RequireArrSize", "ReleaseArrSize":
			op.size = countName(args[1])
			op.count = countName(args[2])
		default:
			op.size = countName(args[1])
		}
		op.guards = guardFlags(f, ins, localToField)
		out = append(out, op)
	})
	return out
}

func ruleRelease(c *Ctx) *RuleResult {
	r := newResult("R-RELEASE", "memory is handed back exactly as it was taken: (1) on every path through every function that releases an amount more than once (explicit calls, deferred calls and deferred closures replayed at the exits; amounts value-numbered, copies and reloads of an unmodified variable being one number, the constant 0 ignored) the number of releases of an amount never exceeds its acquisitions plus one if it was handed over by the caller; (2) each release in a destructor has a require in its constructor with the same element size, the same count field and the same guarding flags (LuaCont, coroutine stack); (3) every other Release* site is table-listed with the require it gives back; a new, unpaired release is reported; (4) ReleaseMem aborts (panic, termination) only where the context is established to have no parent: contexts nest (pcall pushes one) and a coroutine frame or stack required outside is legitimately released inside")
	p := c.P
	if p.Config.Tags == "noquotas" {
		r.note("noquotas build: Require*/Release* are no-ops; rule evaluated for shape only")
	}
	// ---- (1)
	nfun := 0
	for _, f := range p.ModFuncs() {
		if !luaReachablePkg(relPkg(funcPkgPath(f))) || f.Blocks == nil || f.Parent() != nil {
			continue
		}
		rel := 0
		count := func(g *ssa.Function) {
			forEachInstr(g, func(ins ssa.Instruction) {
				if call, ok := ins.(ssa.CallInstruction); ok && isReleaseCall(call.Common().StaticCallee()) {
					rel++
				}
			})
		}
		count(f)
		for _, af := range f.AnonFuncs {
			count(af)
		}
		if rel < 2 {
			continue
		}
		if isMethodOf(f, "runtime", "runtimeContextManager", f.Name()) {
			continue // the context manager's own Release* wrappers
		}
		nfun++
		fresh := 0
		bc := &balanceChecker{p: p, f: f, violation: map[string]string{}, inherited: map[vn]bool{}}
		st := &pathState{cell: map[*ssa.Alloc]vn{}, rel: map[vn]int{}, acq: map[vn]int{}, visits: map[*ssa.BasicBlock]int{}, fresh: &fresh}
		bc.walk(f.Blocks[0], st)
		if len(bc.violation) == 0 {
			r.ok(fmt.Sprintf("(1) %s: %d release sites, %d paths, balanced", fnKey(f), rel, bc.paths))
			continue
		}
		var keys []string
		for k := range bc.violation {
			keys = append(keys, k)
		}
		sort.Strings(keys)
		for _, k := range keys {
			r.fail("double-release:"+fnKey(f), p.Pos(f.Pos()), fmt.Sprintf("%s: %s — in a memory-limited context the counter underflows ('Too much mem released' panic) or memory is handed back twice", fnKey(f), bc.violation[k]))
			break
		}
	}
	r.count("functions_with_multiple_releases", nfun)
	r.floor("functions_with_multiple_releases", 4)

	// ---- (2) pairs
	pairs := []struct{ ctorRel, ctor, dtorRel, dtor string }{
		{"runtime", "NewLuaCont", "runtime", "(*LuaCont).release"},
		{"runtime", "(*Thread).Start", "runtime", "(*Thread).end"},
	}
	paired := map[ssa.CallInstruction]bool{}
	for _, pr := range pairs {
		ctor, dtor := p.Func(pr.ctorRel, pr.ctor), p.Func(pr.dtorRel, pr.dtor)
		if ctor == nil || dtor == nil {
			r.broken("anchor unresolved: %s / %s", pr.ctor, pr.dtor)
			continue
		}
		// locals of the constructor stored into bool fields of the new object
		l2f := map[ssa.Value]string{}
		forEachInstr(ctor, func(ins ssa.Instruction) {
			if st, ok := ins.(*ssa.Store); ok {
				if fa, ok := st.Addr.(*ssa.FieldAddr); ok {
					_, _, fn := fieldOfAddr(fa)
					l2f[st.Val] = fn
				}
			}
		})
		reqs := collectMemOps(ctor, isRequireMemCall, l2f)
		rels := collectMemOps(dtor, isReleaseCall, nil)
		if len(rels) == 0 {
			r.broken("no Release* call found in %s", pr.dtor)
			continue
		}
		for _, rl := range rels {
			paired[rl.call] = true
			match := false
			var near *memOp
			for i := range reqs {
				q := reqs[i]
				if q.size == rl.size && q.count == rl.count {
					near = &reqs[i]
					if q.guards == rl.guards {
						match = true
					}
				}
			}
			desc := fmt.Sprintf("%s releases size=%s count=%s under [%s]", pr.dtor, rl.size, rl.count, rl.guards)
			switch {
			case match:
				r.ok("(2) " + desc + " = the matching require in " + pr.ctor)
			case near != nil:
				r.fail("release-guard-mismatch:"+pr.dtor+":"+rl.size+"*"+rl.count, p.InstrPos(rl.call), fmt.Sprintf("%s, but %s requires it under [%s]: on the paths where only one of the two runs the memory counter drifts (over-release ends in 'Too much mem released' or lets a program hoard memory)", desc, pr.ctor, near.guards))
			default:
				r.fail("release-without-require:"+pr.dtor+":"+rl.size+"*"+rl.count, p.InstrPos(rl.call), desc+", and "+pr.ctor+" has no require of that size and count")
			}
		}
	}

	// ---- (3) every other release site is table-listed
	usedT := map[string]int{}
	total := 0
	for _, f := range p.ModFuncs() {
		if f.Blocks == nil {
			continue
		}
		forEachInstr(f, func(ins ssa.Instruction) {
			call, ok := ins.(ssa.CallInstruction)
			if !ok || !isReleaseCall(call.Common().StaticCallee()) {
				return
			}
			if isMethodOf(f, "runtime", "runtimeContextManager", f.Name()) || f.Synthetic != "" {
				return
			}
			total++
			if paired[call] {
				return
			}
			owner := f
			for owner.Parent() != nil {
				owner = owner.Parent()
			}
			key := fnKey(owner)
			if e, ok := releaseTable[key]; ok {
				usedT[key]++
				if usedT[key] <= e.count {
					r.ok("(3) table: release in " + key + " — " + e.reason)
					return
				}
			}
			r.fail("unpaired-release:"+key, p.InstrPos(ins), fmt.Sprintf("%s hands memory back to the quota but is not a known release site: name the require it pairs with (releaseTable) or it may release memory that was never charged", key))
		})
	}
	// ---- (4) a release may run in a context nested inside the one that took the memory
	if p.Config.Tags != "noquotas" {
		rm := p.Func("runtime", "(*runtimeContextManager).ReleaseMem")
		if rm == nil || rm.Blocks == nil || len(rm.Params) == 0 {
			r.broken("anchor unresolved: (*runtimeContextManager).ReleaseMem")
		} else {
			g := newGuardCtx(rm)
			terms := p.terminators()
			isParentOfRecv := func(v ssa.Value) bool {
				u, ok := v.(*ssa.UnOp)
				if !ok || u.Op != token.MUL {
					return false
				}
				fa, ok := u.X.(*ssa.FieldAddr)
				if !ok {
					return false
				}
				_, tn, fn := fieldOfAddr(fa)
				return tn == "runtimeContextManager" && fn == "parent"
			}
			nAbort := 0
			for _, b := range rm.Blocks {
				for _, ins := range b.Instrs {
					abort := ""
					switch x := ins.(type) {
					case *ssa.Panic:
						abort = "panic"
					case ssa.CallInstruction:
						if cal := x.Common().StaticCallee(); cal != nil && (cal.Name() == "TerminateContext" || cal.Name() == "KillContext" || terms[cal]) {
							abort = cal.Name()
						}
					}
					if abort == "" {
						continue
					}
					nAbort++
					rootOnly := false
					for _, e := range g.MustEdges(b) {
						if rel, ok := e.Relation(); ok && rel.Op == token.EQL && ((isParentOfRecv(rel.A) && isNilConst(rel.B)) || (isParentOfRecv(rel.B) && isNilConst(rel.A))) {
							rootOnly = true
						}
					}
					if rootOnly {
						r.ok("(4) ReleaseMem: " + abort + " only where the context has no parent; in a nested context the excess is not an error")
					} else {
						r.fail("nested-release-aborts:(*runtime.runtimeContextManager).ReleaseMem", p.InstrPos(ins), "ReleaseMem reaches "+abort+" without having established that the context has no parent: memory required in an enclosing context and released in a nested one (a coroutine created outside a pcall and ending, or returning from a frame, inside it; pcall pushes a context) exceeds what the nested context has used, so a conforming program crashes the host in a memory-limited context")
					}
				}
			}
			r.count("release_abort_sites", nAbort)
		}
	}
	r.count("release_call_sites", total)
	r.floor("release_call_sites", 15)
	for k := range releaseTable {
		if usedT[k] == 0 {
			r.note("table entry unused: %s", k)
		}
	}
	return r
}
