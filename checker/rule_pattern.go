package main

import (
	"fmt"
	"go/token"
	"os"
	"sort"
	"strings"

	"golang.org/x/tools/go/ssa"
)

func init() {
	registerRule("R-PATTERN", false, rulePattern)
}

// patternBypassTable: conditions under which a pattern function may answer
// without compiling the pattern. Keyed by function, then by a description of
// the branch condition as this rule renders it.
var patternBypassTable = map[string]map[string]string{
	"lib/stringlib.find": {
		"truth-of-argument": "the `plain` argument: the manual defines find with plain=true as a substring search",
		"empty-pattern":     "an empty pattern matches the empty string at init, which is what strings.Index returns",
		"init-out-of-range": "init beyond the end of the subject: find returns nil whatever the pattern",
	},
	"lib/stringlib.match": {
		"init-out-of-range": "init beyond the end of the subject: match returns nil (the reference implementation decides this before looking at the pattern)",
	},
	"lib/stringlib.gmatch": {},
	"lib/stringlib.gsub":   {},
}

func rulePattern(c *Ctx) *RuleResult {
	r := newResult("R-PATTERN", "the structural part of 'every pattern is interpreted by the pattern semantics, malformed ones raise a Lua error, never a Go panic': (a) every patternItemType the builder can emit has a case in (*patternMatcher).match; (b) nothing reachable from pattern.New contains an explicit panic, and every error the builder's helpers return is propagated (R-ERRFLOW covers discards in general); (c) string.find/match/gmatch/gsub cannot return successfully without having gone through pattern.New, except on table-listed branches (find: plain flag, empty pattern, init past the end); (d) the budget given to the matcher comes from the quota and what it used is charged back (decided by R-METER sub-rule c under this property too)")
	p := c.P
	pkg := "lib/stringlib/pattern"
	matchF := p.Func(pkg, "(*patternMatcher).match")
	newF := p.Func(pkg, "New")
	if matchF == nil || newF == nil {
		r.broken("anchor unresolved: pattern.(*patternMatcher).match / pattern.New")
		return r
	}
	// (a)
	decl := constsOfType(p, pkg, "patternItemType")
	if len(decl) < 8 {
		r.broken("anchor unresolved: pattern.patternItemType constants (%d)", len(decl))
		return r
	}
	handled := comparedConsts(matchF, pkg, "patternItemType")
	emitted := map[int64]bool{}
	// closure of pattern.New inside the package
	closure := map[*ssa.Function]bool{}
	var walk func(f *ssa.Function)
	walk = func(f *ssa.Function) {
		if closure[f] || f.Blocks == nil {
			return
		}
		closure[f] = true
		forEachInstr(f, func(ins ssa.Instruction) {
			if call, ok := ins.(ssa.CallInstruction); ok {
				if cal := call.Common().StaticCallee(); cal != nil && p.InModule(cal) {
					walk(cal)
				}
			}
			if mc, ok := ins.(*ssa.MakeClosure); ok {
				if fn, ok := mc.Fn.(*ssa.Function); ok {
					walk(fn)
				}
			}
		})
	}
	walk(newF)
	r.count("functions_in_pattern_compiler", len(closure))
	r.floor("functions_in_pattern_compiler", 8)
	for f := range closure {
		forEachInstr(f, func(ins ssa.Instruction) {
			if b, ok := ins.(*ssa.BinOp); ok && (b.Op == token.EQL || b.Op == token.NEQ) {
				return
			}
			for _, op := range ins.Operands(nil) {
				if op == nil || *op == nil {
					continue
				}
				if k, ok := (*op).(*ssa.Const); ok {
					if r2, tn, ok := namedOf(k.Type()); ok && tn == "patternItemType" && r2 == pkg {
						if v, ok := constInt(k); ok {
							emitted[v] = true
						}
					}
				}
			}
		})
	}
	var names []string
	for n := range decl {
		names = append(names, n)
	}
	sort.Strings(names)
	nEmitted := 0
	for _, n := range names {
		v := decl[n]
		switch {
		case len(handled[v]) > 0:
			r.ok("(a) pattern item " + n + " has a case in the matcher")
		case emitted[v]:
			r.fail("item-without-handler:"+n, p.Pos(matchF.Pos()), fmt.Sprintf("the pattern compiler emits %s items but (*patternMatcher).match has no case for them: such an item is skipped or loops forever", n))
		default:
			r.note("pattern item %s is declared but never emitted nor handled", n)
		}
		if emitted[v] {
			nEmitted++
		}
	}
	r.count("item_types_emitted", nEmitted)
	r.floor("item_types_emitted", 8)
	// (b)
	for f := range closure {
		bad := false
		forEachInstr(f, func(ins ssa.Instruction) {
			if _, ok := ins.(*ssa.Panic); ok {
				bad = true
				r.fail("panic-in-pattern-compiler:"+fnKey(f), p.InstrPos(ins), fmt.Sprintf("%s, reachable from pattern.New, panics: a malformed pattern must come back as an error value (string.find and friends turn it into a Lua error)", fnKey(f)))
			}
		})
		if !bad {
			r.ok("(b) no explicit panic in " + fnKey(f))
		}
	}
	// every call in the closure to a builder helper returning an error has that error used
	for f := range closure {
		forEachInstr(f, func(ins ssa.Instruction) {
			call, ok := ins.(*ssa.Call)
			if !ok {
				return
			}
			cal := call.Call.StaticCallee()
			if cal == nil || !closure[cal] {
				return
			}
			res := cal.Signature.Results()
			if res.Len() == 0 || res.At(res.Len()-1).Type().String() != "error" {
				return
			}
			used := false
			if res.Len() == 1 {
				used = call.Referrers() != nil && len(*call.Referrers()) > 0
			} else {
				for _, ref := range *call.Referrers() {
					if ex, ok := ref.(*ssa.Extract); ok && ex.Index == res.Len()-1 && ex.Referrers() != nil && len(*ex.Referrers()) > 0 {
						used = true
					}
				}
			}
			if used {
				r.ok("")
			} else {
				r.fail("builder-error-dropped:"+fnKey(f)+"->"+cal.Name(), p.InstrPos(ins), fmt.Sprintf("%s ignores the error returned by %s: a malformed pattern goes on being compiled from a wrong position", fnKey(f), cal.Name()))
			}
		})
	}
	// (c)
	for _, fname := range []string{"find", "match", "gmatch", "gsub"} {
		f := p.Func("lib/stringlib", fname)
		if f == nil {
			r.broken("anchor unresolved: lib/stringlib.%s", fname)
			continue
		}
		allowed := patternBypassTable["lib/stringlib."+fname]
		// blocks containing the call to pattern.New
		compiles := map[*ssa.BasicBlock]bool{}
		forEachInstr(f, func(ins ssa.Instruction) {
			if call, ok := ins.(*ssa.Call); ok && call.Call.StaticCallee() == newF {
				compiles[ins.Block()] = true
			}
		})
		if len(compiles) == 0 {
			r.fail("pattern-not-compiled:"+fname, p.Pos(f.Pos()), fmt.Sprintf("lib/stringlib.%s no longer calls pattern.New", fname))
			continue
		}
		// classify If conditions that are allowed to lead around the compiler
		// classify: is this branch condition one of the listed exemptions, and
		// which successor (0 = true edge, 1 = false edge) is the one that may go
		// around the compiler
		classify := func(cond ssa.Value) (string, int) {
			edge := 0
			for {
				u, ok := cond.(*ssa.UnOp)
				if !ok || u.Op != token.NOT {
					break
				}
				cond = u.X
				edge = 1 - edge
			}
			sl := backSlice(cond, true)
			hasTruth, hasNorm := false, false
			for v := range sl {
				call, ok := v.(*ssa.Call)
				if !ok {
					continue
				}
				if cal := call.Call.StaticCallee(); cal != nil {
					switch cal.Name() {
					case "Truth":
						hasTruth = true
					case "StringNormPos":
						hasNorm = true
					}
				}
			}
			isLenOfArg := func(v ssa.Value, arg int64) bool {
				lc, ok := v.(*ssa.Call)
				if !ok {
					return false
				}
				bi, ok := lc.Call.Value.(*ssa.Builtin)
				if !ok || bi.Name() != "len" {
					return false
				}
				for v := range backSlice(lc.Call.Args[0], true) {
					if sc, ok := v.(*ssa.Call); ok {
						if cal := sc.Call.StaticCallee(); cal != nil && cal.Name() == "StringArg" {
							if k, ok := constInt(sc.Call.Args[1]); ok && k == arg {
								return true
							}
						}
					}
				}
				return false
			}
			if b, ok := cond.(*ssa.BinOp); ok {
				if k, isK := constInt(b.Y); isK && k == 0 && isLenOfArg(b.X, 1) {
					switch b.Op {
					case token.EQL, token.LEQ:
						return "empty-pattern", edge
					case token.NEQ, token.GTR:
						return "empty-pattern", 1 - edge
					}
				}
				if hasNorm && !hasTruth {
					// a range test on the normalised init: si < 0, si > len(s) and their negations
					switch b.Op {
					case token.LSS, token.GTR:
						return "init-out-of-range", edge
					case token.GEQ, token.LEQ:
						return "init-out-of-range", 1 - edge
					}
				}
				return "", 0
			}
			if hasTruth && !hasNorm {
				return "truth-of-argument", edge
			}
			return "", 0
		}
		// reachability from entry avoiding compile blocks and allowed edges
		type edge struct {
			from *ssa.BasicBlock
			idx  int
		}
		cut := map[edge]bool{}
		usedAllow := map[string]bool{}
		edgeCutInto := func(pred, to *ssa.BasicBlock) bool {
			for i, s := range pred.Succs {
				if s == to && !cut[edge{pred, i}] {
					return false
				}
			}
			return true
		}
		for round := 0; round < 4; round++ {
			for _, b := range f.Blocks {
				iff, ok := b.Instrs[len(b.Instrs)-1].(*ssa.If)
				if !ok {
					continue
				}
				cond := iff.Cond
				want := -1
				// `a || b` / `a && b` in value position: a phi whose constant edges come
				// from the short-circuit tests; once those tests' own edges into this
				// block are cut (they were exemptions), the phi is its remaining operand
				if phi, ok := cond.(*ssa.Phi); ok && phi.Block() == b {
					var nonConst ssa.Value
					n, kTrue, kFalse, allCut := 0, 0, 0, true
					for i, e := range phi.Edges {
						if k, isK := e.(*ssa.Const); isK {
							if v, ok := constInt(k); ok && v != 0 {
								kTrue++
							} else {
								kFalse++
							}
							if !edgeCutInto(b.Preds[i], b) {
								allCut = false
							}
							continue
						}
						nonConst = e
						n++
					}
					if n == 1 && allCut && (kTrue == 0 || kFalse == 0) && kTrue+kFalse > 0 {
						cond = nonConst
						if kTrue > 0 {
							want = 0
						} else {
							want = 1
						}
					}
				}
				cls, idx := classify(cond)
				if os.Getenv("LUAVERIF_DEBUG") != "" && round == 0 {
					fmt.Fprintf(os.Stderr, "%s block %d cond %s => %q %d\n", fname, b.Index, iff.Cond, cls, idx)
				}
				if cls == "" || (want >= 0 && idx != want) {
					continue
				}
				if _, ok := allowed[cls]; ok {
					cut[edge{b, idx}] = true
					usedAllow[cls] = true
				}
			}
		}
		seen := map[*ssa.BasicBlock]bool{}
		prev := map[*ssa.BasicBlock]*ssa.BasicBlock{}
		var q []*ssa.BasicBlock
		if !compiles[f.Blocks[0]] {
			seen[f.Blocks[0]] = true
			q = append(q, f.Blocks[0])
		}
		var offending ssa.Instruction
		for len(q) > 0 && offending == nil {
			b := q[0]
			q = q[1:]
			if ret, ok := b.Instrs[len(b.Instrs)-1].(*ssa.Return); ok && len(ret.Results) == 2 && isNilConst(ret.Results[1]) {
				offending = ret
				// path
				var path []string
				for x := b; x != nil; x = prev[x] {
					if len(x.Instrs) > 0 {
						path = append([]string{fmt.Sprintf("block %d (%s)", x.Index, p.InstrPos(firstPositioned(x)))}, path...)
					}
				}
				r.fail("pattern-compiler-bypassed:"+fname, p.InstrPos(ret), fmt.Sprintf("lib/stringlib.%s can return successfully without calling pattern.New on a path that takes none of the listed exemptions (%v): the pattern's special characters are not interpreted on that path", fname, keysOfStr(allowed)), path...)
				break
			}
			for i, s := range b.Succs {
				if cut[edge{b, i}] || compiles[s] || seen[s] {
					continue
				}
				seen[s] = true
				prev[s] = b
				q = append(q, s)
			}
		}
		if offending == nil {
			r.ok(fmt.Sprintf("(c) lib/stringlib.%s: every successful return is behind pattern.New (exemptions used: %v)", fname, keysOfBool(usedAllow)))
		}
		for cls := range allowed {
			if !usedAllow[cls] {
				r.note("exemption %q of %s is not used by the current code", cls, fname)
			}
		}
	}

	// (d) a range a-b with a > b is empty: in byteRange every addition to the set is
	// inside the loop, i.e. behind a comparison of a value derived from the first bound
	// with one derived from the second
	if br := p.Func(pkg, "byteRange"); br == nil || len(br.Params) != 2 {
		r.broken("anchor unresolved: pattern.byteRange(a, b)")
	} else {
		gc := newGuardCtx(br)
		nAdd := 0
		forEachInstr(br, func(ins ssa.Instruction) {
			isAddition := false
			if call, ok := ins.(ssa.CallInstruction); ok && calleeNamedCI(call, "add") {
				isAddition = true
			}
			if st, ok := ins.(*ssa.Store); ok {
				// a word of the set written directly
				if ia, ok := st.Addr.(*ssa.IndexAddr); ok {
					if _, tn, ok := namedOf(ia.X.Type()); ok && tn == "byteSet" {
						isAddition = true
					}
				}
			}
			if !isAddition {
				return
			}
			nAdd++
			guarded := false
			for _, ge := range gc.MustEdges(ins.Block()) {
				rel, ok := ge.Relation()
				if !ok {
					continue
				}
				sa, sb := backSliceAllocs(rel.A, false), backSliceAllocs(rel.B, false)
				switch rel.Op {
				case token.LSS, token.LEQ: // (from a) <= (from b)
					if sa[br.Params[0]] && sb[br.Params[1]] {
						guarded = true
					}
				case token.GTR, token.GEQ: // (from b) >= (from a)
					if sa[br.Params[1]] && sb[br.Params[0]] {
						guarded = true
					}
				}
			}
			if guarded {
				r.ok("(d) byteRange: an addition to the set is behind a test that a value running from the first bound has not passed the second")
			} else {
				r.fail("range-adds-unconditionally", p.InstrPos(ins), "byteRange adds a byte to the set without having compared the two bounds on the way: a reversed range such as [z-a], which is empty, then contains that byte (string.find('a', '[b-a]') found 'a')")
			}
		})
		r.count("byteRange_additions", nAdd)
		r.floor("byteRange_additions", 1)
	}

	// (e) gsub: whether anything was substituted is not read off the length of the output
	if gs := p.Func("lib/stringlib", "gsub"); gs == nil {
		r.broken("anchor unresolved: lib/stringlib.gsub")
	} else {
		badAt := ""
		forEachInstr(gs, func(ins ssa.Instruction) {
			iff, ok := ins.(*ssa.If)
			if !ok {
				return
			}
			isLen := func(v ssa.Value) bool {
				call, ok := stripConv(v).(*ssa.Call)
				if !ok {
					return false
				}
				cal := call.Call.StaticCallee()
				return cal != nil && fullName(cal) == "(*strings.Builder).Len"
			}
			for w := range backSliceAllocs(iff.Cond, false) {
				bo, ok := w.(*ssa.BinOp)
				if !ok {
					continue
				}
				kx, cx := constInt(bo.X)
				ky, cy := constInt(bo.Y)
				if (isLen(bo.X) && cy && ky == 0) || (isLen(bo.Y) && cx && kx == 0) {
					badAt = p.InstrPos(bo)
				}
			}
		})
		if badAt == "" {
			r.ok("(e) gsub does not decide 'nothing was substituted' from the builder's length")
		} else {
			r.fail("gsub-empty-output-taken-for-no-substitution", badAt, "gsub tests the length of the string it is building against zero to decide that nothing was substituted and returns its input: substituting matches by the empty string leaves that length at zero, so ('abc'):gsub('.', '') returned 'abc' 3")
		}
	}

	// (f) the anchor: (*Pattern).Match ignores a leading '^' (it tries every start
	// position), so it may be called only where the caret has been neutralised — the
	// gmatch iterator, whose pattern is compiled from a string that has had '%' put
	// in front of a leading '^' (in gmatch the caret stands for itself). Every other
	// search goes through an entry that reads Pattern.startAnchor.
	if mf := p.Func(pkg, "(*Pattern).Match"); mf == nil {
		r.broken("anchor unresolved: pattern.(*Pattern).Match")
	} else {
		readsAnchor := func(f *ssa.Function) bool {
			found := false
			seen := map[*ssa.Function]bool{}
			var walk func(g *ssa.Function, d int)
			walk = func(g *ssa.Function, d int) {
				if g == nil || seen[g] || g.Blocks == nil || d > 4 {
					return
				}
				seen[g] = true
				forEachInstr(g, func(ins ssa.Instruction) {
					switch x := ins.(type) {
					case *ssa.FieldAddr:
						if _, _, fn := fieldOfAddr(x); fn == "startAnchor" {
							if x.Referrers() != nil {
								for _, ref := range *x.Referrers() {
									if u, ok := ref.(*ssa.UnOp); ok && u.Op == token.MUL {
										found = true
									}
								}
							}
						}
					case *ssa.Field:
						if _, _, fn := fieldOfField(x); fn == "startAnchor" {
							found = true
						}
					case ssa.CallInstruction:
						if cal := x.Common().StaticCallee(); cal != nil && p.InModule(cal) {
							walk(cal, d+1)
						}
					}
				})
				for _, af := range g.AnonFuncs {
					walk(af, d+1)
				}
			}
			walk(f, 0)
			return found
		}
		if readsAnchor(mf) {
			r.ok("(f) (*Pattern).Match reads the anchor")
		} else {
			nCallers := 0
			for _, f := range p.ModFuncs() {
				if f.Blocks == nil {
					continue
				}
				forEachInstr(f, func(ins ssa.Instruction) {
					call, ok := ins.(ssa.CallInstruction)
					if !ok || call.Common().StaticCallee() != mf {
						return
					}
					nCallers++
					owner := f
					for owner.Parent() != nil {
						owner = owner.Parent()
					}
					okCaller := false
					if fnKey(owner) == "lib/stringlib.gmatch" {
						// the pattern compiled by gmatch has had a leading caret escaped
						forEachInstr(owner, func(i2 ssa.Instruction) {
							c2, ok := i2.(ssa.CallInstruction)
							if !ok || c2.Common().StaticCallee() != newF {
								return
							}
							for w := range backSliceAllocs(c2.Common().Args[0], false) {
								if bo, ok := w.(*ssa.BinOp); ok && bo.Op == token.ADD {
									if k, ok := bo.X.(*ssa.Const); ok && k.Value != nil && strings.Contains(k.Value.ExactString(), "%") {
										okCaller = true
									}
								}
							}
						})
					}
					if okCaller {
						r.ok("(f) (*Pattern).Match is called by the gmatch iterator, whose pattern has had a leading '^' escaped")
					} else {
						r.fail("anchor-ignored:"+fnKey(owner), p.InstrPos(ins), fmt.Sprintf("%s searches with (*Pattern).Match, which tries every start position and never looks at the pattern's '^': an anchored pattern then matches in the middle of the subject — ('aaa'):gsub('^a', 'b') returned 'bbb' 3", fnKey(owner)))
					}
				})
			}
			r.count("callers_of_anchor_blind_search", nCallers)
		}
	}
	return r
}

func calleeNamedCI(call ssa.CallInstruction, name string) bool {
	cal := call.Common().StaticCallee()
	return cal != nil && cal.Name() == name
}

func firstPositioned(b *ssa.BasicBlock) ssa.Instruction {
	for _, ins := range b.Instrs {
		if ins.Pos().IsValid() {
			return ins
		}
	}
	return b.Instrs[0]
}

func keysOfBool(m map[string]bool) []string {
	var out []string
	for k := range m {
		out = append(out, k)
	}
	sort.Strings(out)
	return out
}

func keysOfStr(m map[string]string) []string {
	var out []string
	for k := range m {
		out = append(out, k)
	}
	sort.Strings(out)
	return out
}
