package main

import (
	"fmt"
	"go/token"
	"go/types"

	"golang.org/x/tools/go/ssa"
)

func init() { registerRule("R-WRAP", false, ruleWrap) }

// ruleWrap: `for i := a; i <= n; i++` with i of an unsigned (or any fixed-width)
// integer type never ends when n is the largest value of the type: i wraps to 0.
func ruleWrap(c *Ctx) *RuleResult {
	r := newResult("R-WRAP", "a counting loop whose condition is `i <= n` (or `n >= i`), where i is a loop-carried counter advanced by a constant and i and n have the same fixed-width integer type, never ends when n is the largest value of that type — the counter wraps around. In the Lua-reachable packages such a loop is accepted only if n is a constant below the type's maximum, or the counter's type is wider than the bound's (a conversion), or some branch decision bounds n from above; otherwise one input (a pattern range ending in \\255) hangs the host in Go code that no quota meters")
	p := c.P
	n := 0
	for _, f := range p.ModFuncs() {
		if f.Blocks == nil || f.Synthetic != "" || !luaReachablePkg(relPkg(funcPkgPath(f))) {
			continue
		}
		var gc *GuardCtx
		for _, b := range f.Blocks {
			iff, ok := b.Instrs[len(b.Instrs)-1].(*ssa.If)
			if !ok {
				continue
			}
			cmp, ok := iff.Cond.(*ssa.BinOp)
			if !ok {
				continue
			}
			var ctr, bound ssa.Value
			switch cmp.Op {
			case token.LEQ:
				ctr, bound = cmp.X, cmp.Y
			case token.GEQ:
				ctr, bound = cmp.Y, cmp.X
			default:
				continue
			}
			phi, ok := ctr.(*ssa.Phi)
			if !ok {
				continue
			}
			bt, ok := phi.Type().Underlying().(*types.Basic)
			if !ok || bt.Info()&types.IsInteger == 0 {
				continue
			}
			// narrow types only: 8, 16 or 32 bits (a 64-bit counter does not reach its maximum)
			var max int64
			switch bt.Kind() {
			case types.Uint8:
				max = 255
			case types.Int8:
				max = 127
			case types.Uint16:
				max = 65535
			case types.Int16:
				max = 32767
			case types.Uint32:
				max = 4294967295
			case types.Int32:
				max = 2147483647
			default:
				continue
			}
			// loop-carried: one edge is phi + const
			carried := false
			for _, e := range phi.Edges {
				if add, ok := e.(*ssa.BinOp); ok && add.Op == token.ADD {
					if add.X == ssa.Value(phi) || add.Y == ssa.Value(phi) {
						if _, isK := constInt(add.Y); isK {
							carried = true
						}
						if _, isK := constInt(add.X); isK {
							carried = true
						}
					}
				}
			}
			if !carried {
				continue
			}
			// the true branch must lead back into the loop (the phi's block is reachable from it)
			n++
			key := fnKey(f) + ":" + litName(bound)
			if k, isK := constInt(bound); isK && k < max {
				r.ok("loop " + key + ": constant bound below the counter type's maximum")
				continue
			}
			if gc == nil {
				gc = newGuardCtx(f)
			}
			bounded := false
			for _, ge := range gc.MustEdges(b) {
				rel, ok := ge.Relation()
				if !ok {
					continue
				}
				if stripConv(rel.A) == stripConv(bound) && rel.Op == token.LSS {
					bounded = true
				}
				if stripConv(rel.B) == stripConv(bound) && rel.Op == token.GTR {
					bounded = true
				}
			}
			if bounded {
				r.ok("loop " + key + ": the bound is below some value on every path here")
				continue
			}
			r.fail("loop-counter-wraps:"+key, p.InstrPos(iff), fmt.Sprintf("%s counts a %s up to and including %s: when the bound is %d, the largest value of the type, the counter wraps to 0 and the loop never ends — in Go code, outside any quota (string.find(s, '[\\\\128-\\\\255]') hangs the host); count in a wider type or stop before the increment", fnKey(f), bt.Name(), litName(bound), max))
		}
	}
	r.count("inclusive_narrow_counter_loops", n)
	return r
}
