package main

import (
	"fmt"
	"go/token"
	"go/types"
	"sort"
	"strings"

	"golang.org/x/tools/go/ssa"
)

func init() {
	registerRule("R-ALLOC", true, ruleAlloc)
}

// allocSink: an allocation whose size is not a compile-time constant.
type allocSink struct {
	f    *ssa.Function
	ins  ssa.Instruction
	size ssa.Value
	what string
}

func findAllocSinks(p *Program) []allocSink {
	var out []allocSink
	for _, f := range p.ModFuncs() {
		if !luaReachablePkg(relPkg(funcPkgPath(f))) {
			continue
		}
		forEachInstr(f, func(ins ssa.Instruction) {
			switch x := ins.(type) {
			case *ssa.MakeSlice:
				sz := x.Cap
				if _, ok := constInt(x.Cap); ok {
					sz = x.Len
				}
				if _, ok := constInt(sz); ok {
					return
				}
				out = append(out, allocSink{f, ins, sz, "make(" + typeKey(x.Type()) + ", n)"})
			case *ssa.MakeMap:
				if x.Reserve == nil {
					return
				}
				if _, ok := constInt(x.Reserve); ok {
					return
				}
				out = append(out, allocSink{f, ins, x.Reserve, "make(map, n)"})
			case *ssa.Call:
				cal := x.Call.StaticCallee()
				if cal == nil {
					return
				}
				var arg ssa.Value
				switch fullName(cal) {
				case "strings.Repeat", "bytes.Repeat":
					arg = x.Call.Args[1]
				case "(*strings.Builder).Grow", "(*bytes.Buffer).Grow":
					arg = x.Call.Args[1]
				default:
					return
				}
				if _, ok := constInt(arg); ok {
					return
				}
				out = append(out, allocSink{f, ins, arg, fullName(cal)})
			}
		})
	}
	sort.Slice(out, func(i, j int) bool {
		a, b := fnKey(out[i].f), fnKey(out[j].f)
		if a != b {
			return a < b
		}
		return out[i].ins.Pos() < out[j].ins.Pos()
	})
	return out
}

// sizeLeaf: a leaf of the arithmetic that computes an allocation size.
type sizeLeaf struct {
	v     ssa.Value
	class string // "bounded", "param", "program", "data", "unknown"
	why   string
}

// upperBoundedAt: v has an upper bound that is itself bounded (constant, len of
// something held, a narrow-typed value) on every path to `at`.
func upperBoundedAt(p *Program, f *ssa.Function, v ssa.Value, at ssa.Instruction) (bool, string) {
	gc := newGuardCtx(f)
	gc.ExcludeErrorPaths(at.Block())
	sv := stripConv(v)
	for _, ge := range gc.MustEdges(at.Block()) {
		rel, ok := ge.Relation()
		if !ok {
			continue
		}
		A, B := stripConv(rel.A), stripConv(rel.B)
		op := rel.Op
		var other ssa.Value
		if A == sv || sameValue(A, sv) {
			other = B
		} else if B == sv || sameValue(B, sv) {
			other = A
			op = flipOp(op)
		} else {
			continue
		}
		if op != token.LSS && op != token.LEQ && op != token.EQL {
			continue
		}
		if _, ok := constInt(other); ok {
			return true, "compared with a constant"
		}
		if isLenCall(other) {
			return true, "compared with a length already held"
		}
		if bits, _, ok := intWidth(other.Type()); ok && bits <= 16 {
			return true, "compared with a narrow-typed value"
		}
		// compared with remaining-input style expressions: len(x) - y, r.Len()/k
		if derivesFromLength(other) {
			return true, "compared with an expression of a held length"
		}
	}
	// validated by a helper: `if !check(v, ...) { return }` where check returns
	// true only when its parameter is bounded
	for _, ge := range gc.MustEdges(at.Block()) {
		c := ge.If.Cond
		holds := ge.Taken
		for {
			if u, ok := c.(*ssa.UnOp); ok && u.Op == token.NOT {
				holds = !holds
				c = u.X
				continue
			}
			break
		}
		call, ok := c.(*ssa.Call)
		if !ok || !holds {
			continue
		}
		cal := call.Call.StaticCallee()
		if cal == nil || cal.Blocks == nil {
			continue
		}
		for i, a := range call.Call.Args {
			if (stripConv(a) == sv || sameValue(stripConv(a), sv)) && i < len(cal.Params) && validatorBounds(p, cal, i) {
				return true, "validated by " + fnKey(cal)
			}
		}
	}
	return false, ""
}

// derivesFromLength: v is computed (through arithmetic and conversions) from
// len()/cap() of a held value or from a Len() method of a reader/buffer.
func derivesFromLength(v ssa.Value) bool {
	for w := range backSlice(v, false) {
		if isLenCall(w) {
			return true
		}
		if call, ok := w.(*ssa.Call); ok {
			name := ""
			if call.Call.IsInvoke() {
				name = call.Call.Method.Name()
			} else if cal := call.Call.StaticCallee(); cal != nil {
				name = cal.Name()
			}
			if name == "Len" && len(call.Call.Args) <= 1 {
				return true
			}
		}
	}
	return false
}

var validatorCache = map[string]bool{}

// validatorBounds: every `return true` of cal is reached only when parameter
// #idx has been compared (from above) with a bounded value.
func validatorBounds(p *Program, cal *ssa.Function, idx int) bool {
	key := fmt.Sprintf("%p/%d", cal, idx)
	if v, ok := validatorCache[key]; ok {
		return v
	}
	validatorCache[key] = false
	if cal.Signature.Results().Len() != 1 {
		return false
	}
	if b, ok := cal.Signature.Results().At(0).Type().Underlying().(*types.Basic); !ok || b.Kind() != types.Bool {
		return false
	}
	n := 0
	okAll := true
	forEachInstr(cal, func(ins ssa.Instruction) {
		ret, ok := ins.(*ssa.Return)
		if !ok {
			return
		}
		k, isConst := constInt(ret.Results[0])
		if isConst && k == 0 {
			return // return false
		}
		if !isConst {
			okAll = false // computed result: not recognised
			return
		}
		n++
		if ok, _ := upperBoundedAt(p, cal, cal.Params[idx], ret); !ok {
			okAll = false
		}
	})
	res := okAll && n > 0
	validatorCache[key] = res
	return res
}

func classifyLeaves(p *Program, f *ssa.Function, v ssa.Value, at ssa.Instruction, depth int, seen map[ssa.Value]bool, out *[]sizeLeaf) {
	if v == nil || seen[v] {
		return
	}
	seen[v] = true
	if depth > 10 {
		*out = append(*out, sizeLeaf{v, "unknown", "expression too deep"})
		return
	}
	if _, ok := constInt(v); ok {
		return
	}
	if bits, _, ok := intWidth(v.Type()); ok && bits <= 16 {
		return // at most 65535
	}
	if ok, _ := upperBoundedAt(p, f, v, at); ok {
		return
	}
	switch x := v.(type) {
	case *ssa.Convert:
		classifyLeaves(p, f, x.X, at, depth+1, seen, out)
		return
	case *ssa.ChangeType:
		classifyLeaves(p, f, x.X, at, depth+1, seen, out)
		return
	case *ssa.BinOp:
		switch x.Op {
		case token.ADD, token.SUB, token.MUL, token.SHL, token.QUO, token.REM, token.SHR, token.AND, token.OR:
			if x.Op == token.AND {
				if _, ok := constInt(x.Y); ok {
					return
				}
				if _, ok := constInt(x.X); ok {
					return
				}
			}
			classifyLeaves(p, f, x.X, at, depth+1, seen, out)
			classifyLeaves(p, f, x.Y, at, depth+1, seen, out)
			return
		}
	case *ssa.Phi:
		for _, e := range x.Edges {
			classifyLeaves(p, f, e, at, depth+1, seen, out)
		}
		return
	case *ssa.Call:
		if isLenCall(x) {
			return
		}
		if b, ok := x.Call.Value.(*ssa.Builtin); ok {
			if b.Name() == "min" || b.Name() == "max" {
				for _, a := range x.Call.Args {
					classifyLeaves(p, f, a, at, depth+1, seen, out)
				}
				return
			}
		}
		cal := x.Call.StaticCallee()
		name := ""
		if cal != nil {
			name = cal.Name()
		}
		switch {
		case cal != nil && (strings.HasSuffix(name, "Arg") || name == "ToInt" || name == "ToIntNoString" || name == "TryInt" || name == "AsInt" || name == "IntArg"):
			*out = append(*out, sizeLeaf{v, "program", "value chosen by the Lua program (" + fnKey(cal) + ")"})
		case cal != nil && clampKind(cal) != "":
			for _, a := range x.Call.Args {
				classifyLeaves(p, f, a, at, depth+1, seen, out)
			}
		default:
			*out = append(*out, sizeLeaf{v, "unknown", "result of a call"})
		}
		return
	case *ssa.Extract:
		if call, ok := x.Tuple.(*ssa.Call); ok {
			cal := call.Call.StaticCallee()
			if cal != nil && (strings.HasSuffix(cal.Name(), "Arg") || strings.HasPrefix(cal.Name(), "ToInt") || strings.HasPrefix(cal.Name(), "TryInt")) {
				*out = append(*out, sizeLeaf{v, "program", "value chosen by the Lua program (" + fnKey(cal) + ")"})
				return
			}
			if cal != nil && (fullName(cal) == "strconv.Atoi" || fullName(cal) == "strconv.ParseInt" || fullName(cal) == "strconv.ParseUint") {
				*out = append(*out, sizeLeaf{v, "data", "number parsed from input text"})
				return
			}
		}
		*out = append(*out, sizeLeaf{v, "unknown", "component of a call result"})
		return
	case *ssa.Parameter:
		*out = append(*out, sizeLeaf{v, "param", "parameter " + x.Name()})
		return
	case *ssa.UnOp:
		if x.Op == token.MUL {
			// load: a local filled by binary.Read / a decoded field
			if al, ok := x.X.(*ssa.Alloc); ok {
				filled := false
				for _, r := range *al.Referrers() {
					if mi, ok := r.(*ssa.MakeInterface); ok {
						if flowsToReader(mi) {
							filled = true
						}
						for _, mr := range *mi.Referrers() {
							if c, ok := mr.(ssa.CallInstruction); ok {
								if cal := c.Common().StaticCallee(); cal != nil && (fullName(cal) == "encoding/binary.Read" || strings.HasSuffix(cal.Name(), "read")) {
									filled = true
								}
							}
						}
					}
					if c, ok := r.(ssa.CallInstruction); ok {
						if cal := c.Common().StaticCallee(); cal != nil && (strings.Contains(strings.ToLower(cal.Name()), "read")) {
							filled = true
						}
					}
				}
				if filled {
					*out = append(*out, sizeLeaf{v, "data", "integer decoded from input bytes"})
					return
				}
				// otherwise follow stores
				n := 0
				for _, r := range *al.Referrers() {
					if st, ok := r.(*ssa.Store); ok && st.Addr == al {
						n++
						classifyLeaves(p, f, st.Val, at, depth+1, seen, out)
					}
				}
				if n > 0 {
					return
				}
			}
			if fa, ok := x.X.(*ssa.FieldAddr); ok {
				rel, tn, fn := fieldOfAddr(fa)
				k := rel + "." + tn + "." + fn
				if why, ok := boundedFields[k]; ok {
					_ = why
					return
				}
				if cls, ok := sizedFields[k]; ok {
					*out = append(*out, sizeLeaf{v, cls.class, cls.why})
					return
				}
				*out = append(*out, sizeLeaf{v, "unknown", "field " + k})
				return
			}
		}
	case *ssa.Field:
		rel, tn, fn := fieldOfField(x)
		k := rel + "." + tn + "." + fn
		if _, ok := boundedFields[k]; ok {
			return
		}
		if cls, ok := sizedFields[k]; ok {
			*out = append(*out, sizeLeaf{v, cls.class, cls.why})
			return
		}
		*out = append(*out, sizeLeaf{v, "unknown", "field " + k})
		return
	}
	*out = append(*out, sizeLeaf{v, "unknown", fmt.Sprintf("%T", v)})
}

func isChargeCall(cal *ssa.Function) bool {
	if cal == nil {
		return false
	}
	switch cal.Name() {
	case "RequireMem", "RequireBytes", "RequireSize", "RequireArrSize", "LinearRequire", "requireMem":
		return isCtxMethod(cal, cal.Name())
	}
	return false
}

// chargedBefore: a charging call dominates `at` and its amount depends on the
// leaf value.
func chargedBefore(p *Program, f *ssa.Function, leaf ssa.Value, at ssa.Instruction) (bool, string) {
	found, where := false, ""
	forEachInstr(f, func(ins ssa.Instruction) {
		call, ok := ins.(ssa.CallInstruction)
		if !ok || found {
			return
		}
		cal := call.Common().StaticCallee()
		if !isChargeCall(cal) && !isBudgetCheck(cal) {
			return
		}
		if !instrDominates(ins, at) {
			return
		}
		for _, a := range call.Common().Args[1:] {
			sl := backSlice(a, false)
			if sl[leaf] || sl[stripConv(leaf)] {
				found = true
				where = fnKey(cal) + " at " + p.InstrPos(ins)
				return
			}
			// same run-time value through a different SSA name
			for v := range sl {
				if sameValue(v, stripConv(leaf)) {
					found = true
					where = fnKey(cal) + " at " + p.InstrPos(ins)
					return
				}
			}
		}
	})
	return found, where
}

// isBudgetCheck: private budget functions (consumeBudget) that panic/return an
// error when the amount exceeds what is left.
func isBudgetCheck(cal *ssa.Function) bool {
	if cal == nil {
		return false
	}
	return cal.Name() == "consumeBudget"
}

func ruleAlloc(c *Ctx) *RuleResult {
	r := newResult("R-ALLOC", "every allocation in the runtime and libraries whose size is not a constant (make of a slice/map with a computed length, strings/bytes.Repeat, Builder/Buffer.Grow) has a size all of whose leaves are bounded by memory already held (constants, len/cap, values of <=16-bit type, values compared on every path with such a bound), or — for leaves chosen by the program or decoded from input — is dominated by a charging call (Require*/LinearRequire/consumeBudget) whose amount depends on the same leaf; parameters are resolved through all callers; sizes decoded from input must additionally be compared with the input that is left. Anything else is table-listed with a reason or reported")
	p := c.P
	sinks := findAllocSinks(p)
	r.count("computed_size_allocations", len(sinks))
	r.floor("computed_size_allocations", 20)
	usedT := map[string]int{}
	for _, s := range sinks {
		verdict, detail := judgeAlloc(p, s.f, s.size, s.ins, 0)
		key := fnKey(s.f) + ":" + s.what
		desc := fmt.Sprintf("%s %s [%s]: %s", fnKey(s.f), s.what, p.InstrPos(s.ins), detail)
		// sign: a size that is the result of arithmetic on program-chosen values can
		// have wrapped; make/Grow/Repeat panic on a negative count
		if why := arithmeticOnUnbounded(p, s.f, s.size, s.ins); why != "" {
			if provedNonNegative(p, s.f, s.size, s.ins, 0) {
				r.ok(fmt.Sprintf("%s %s [%s]: computed size (%s) is tested for a negative (wrapped) result on every path", fnKey(s.f), s.what, p.InstrPos(s.ins), why))
			} else if e, ok := allocSignTable[key]; ok {
				r.ok("table: sign of " + key + " — " + e)
			} else {
				r.fail("possibly-negative-size:"+key, p.InstrPos(s.ins), fmt.Sprintf("%s %s: the size is computed by %s from values the program chooses and is not tested for a negative (overflowed) result before the allocation: make/Grow/Repeat panic on a negative count, and the panic is a Go run-time error no pcall catches", fnKey(s.f), s.what, why))
			}
		}
		switch verdict {
		case "ok":
			r.ok(desc)
		default:
			if e, ok := allocTable[key]; ok {
				usedT[key]++
				if usedT[key] <= e.count {
					r.ok("table: " + key + " — " + e.reason)
					continue
				}
			}
			r.fail("uncharged-allocation:"+key, p.InstrPos(s.ins), "allocation whose size is chosen by the program or by input data is neither bounded by memory already held nor charged to the memory quota first: "+desc)
		}
	}
	for k := range allocTable {
		if usedT[k] == 0 {
			r.note("table entry unused: %s", k)
		}
	}
	return r
}

// judgeAlloc returns "ok" or "bad" with an explanation.
func judgeAlloc(p *Program, f *ssa.Function, size ssa.Value, at ssa.Instruction, depth int) (string, string) {
	var leaves []sizeLeaf
	classifyLeaves(p, f, size, at, 0, map[ssa.Value]bool{}, &leaves)
	if len(leaves) == 0 {
		return "ok", "size bounded by memory already held (constants, lengths, narrow types, compared values)"
	}
	var notes []string
	for _, lf := range leaves {
		switch lf.class {
		case "param":
			if depth >= 3 {
				return "bad", "parameter chain too deep: " + lf.why
			}
			prm := lf.v.(*ssa.Parameter)
			idx := paramIndex(f, prm)
			// charged inside the function before the allocation?
			if ok, where := chargedBefore(p, f, lf.v, at); ok {
				notes = append(notes, lf.why+" charged by "+where)
				continue
			}
			n := p.CallGraph().Nodes[f]
			if idx < 0 || n == nil || len(n.In) == 0 {
				return "bad", lf.why + " of a function with no visible callers"
			}
			for _, e := range n.In {
				if e.Site == nil {
					return "bad", lf.why + ": caller without a call site"
				}
				if cf := e.Caller.Func; cf.Synthetic != "" {
					if cn := p.CallGraph().Nodes[cf]; cn == nil || len(cn.In) == 0 {
						continue
					}
				}
				args := e.Site.Common().Args
				ai := idx
				if e.Site.Common().IsInvoke() {
					ai = idx - 1
				}
				if ai < 0 || ai >= len(args) {
					return "bad", lf.why + ": cannot map argument at " + p.InstrPos(e.Site)
				}
				v, d := judgeAlloc(p, e.Caller.Func, args[ai], e.Site, depth+1)
				if v != "ok" {
					return "bad", lf.why + " <- " + fnKey(e.Caller.Func) + ": " + d
				}
			}
			notes = append(notes, lf.why+" bounded/charged at all callers")
		case "data":
			return "bad", "length decoded from input data is not compared with the input that is left before allocating (a budget check can be absent in an unlimited context): " + lf.why + " (" + valName(lf.v) + ")"
		case "program", "unknown":
			if ok, where := chargedBefore(p, f, lf.v, at); ok {
				notes = append(notes, lf.why+" charged by "+where)
				continue
			}
			return "bad", lf.class + "-sized leaf not charged before the allocation: " + lf.why + " (" + valName(lf.v) + ")"
		}
	}
	return "ok", strings.Join(notes, "; ")
}

var _ = types.Typ

// flowsToReader: the interface value (a pointer to a local) is passed, directly
// or as an element of a variadic argument list, to encoding/binary.Read or to a
// module function whose name starts with "read".
func flowsToReader(v ssa.Value) bool {
	refs := v.Referrers()
	if refs == nil {
		return false
	}
	isReader := func(c ssa.CallInstruction) bool {
		cal := c.Common().StaticCallee()
		if cal == nil {
			return false
		}
		return fullName(cal) == "encoding/binary.Read" || strings.HasPrefix(strings.ToLower(cal.Name()), "read")
	}
	for _, r := range *refs {
		switch x := r.(type) {
		case ssa.CallInstruction:
			if isReader(x) {
				return true
			}
		case *ssa.Store:
			if ia, ok := x.Addr.(*ssa.IndexAddr); ok {
				if arr, ok := ia.X.(*ssa.Alloc); ok {
					for _, ar := range *arr.Referrers() {
						if sl, ok := ar.(*ssa.Slice); ok {
							for _, sr := range *sl.Referrers() {
								if c, ok := sr.(ssa.CallInstruction); ok && isReader(c) {
									return true
								}
							}
						}
					}
				}
			}
		}
	}
	return false
}

// allocSignTable: computed sizes that cannot be negative for a reason outside the function's branch structure.
var allocSignTable = map[string]string{
	"(*runtime.cellPool).get:make([]runtime.Cell, n)":   "the size is Code.CellCount: counted up from zero by the code generator, and (*breader).readCode rejects negative counts in dumped chunks",
	"(*runtime.valuePool).get:make([]runtime.Value, n)": "the size is Code.RegCount: counted up from zero by the code generator, and (*breader).readCode rejects negative counts in dumped chunks",
	"(runtime.cellPool).get:make([]runtime.Cell, n)":    "noregpool build: same sizes as above (Code.CellCount)",
	"(runtime.valuePool).get:make([]runtime.Value, n)":  "noregpool build: same sizes as above (Code.RegCount)",
	"lib/stringlib.UnpackString:make([]byte, n)":        "zi - u.j: zi starts at u.j and the scan loop only increments it",
}

// arithmeticOnUnbounded: the size is (a conversion of) an addition, multiplication
// or shift with an operand that is not bounded by memory already held. Returns a
// description of the operation, or "".
func arithmeticOnUnbounded(p *Program, f *ssa.Function, size ssa.Value, at ssa.Instruction) string {
	sv := stripConv(size)
	if bt, ok := sv.Type().Underlying().(*types.Basic); ok && bt.Info()&types.IsUnsigned != 0 {
		return ""
	}
	var leaves []sizeLeaf
	classifyLeaves(p, f, sv, at, 0, map[ssa.Value]bool{}, &leaves)
	n := 0
	for _, lf := range leaves {
		if lf.class != "bounded" {
			n++
		}
	}
	if n == 0 {
		return ""
	}
	if b, ok := sv.(*ssa.BinOp); ok {
		switch b.Op {
		case token.ADD, token.MUL, token.SHL:
			return "a signed " + b.Op.String()
		}
	}
	return "no arithmetic (the value itself is chosen by the program or read from input)"
}

// provedNonNegative: every path to `at` has passed a test that excludes size < 0.
// Parameters are resolved through all callers, variables captured by a closure
// through the place the closure is made.
func provedNonNegative(p *Program, f *ssa.Function, size ssa.Value, at ssa.Instruction, depth int) bool {
	if depth > 3 {
		return false
	}
	gc := newGuardCtx(f)
	gc.ExcludeErrorPaths(at.Block())
	target := stripConv(size)
	same := func(v ssa.Value) bool {
		v = stripConv(v)
		if v == target {
			return true
		}
		// two loads of the same single-assignment local
		l1, ok1 := v.(*ssa.UnOp)
		l2, ok2 := target.(*ssa.UnOp)
		if ok1 && ok2 && l1.Op == token.MUL && l2.Op == token.MUL && l1.X == l2.X {
			if al, ok := l1.X.(*ssa.Alloc); ok && singleStore(al) {
				return true
			}
		}
		return false
	}
	for _, e := range gc.MustEdges(at.Block()) {
		rel, ok := e.Relation()
		if !ok {
			continue
		}
		a, b, op := rel.A, rel.B, rel.Op
		if same(b) {
			a, b, op = b, a, flipOp(op)
		}
		if !same(a) {
			continue
		}
		k, isK := constInt(b)
		if !isK {
			continue
		}
		switch op {
		case token.GEQ:
			if k >= 0 {
				return true
			}
		case token.GTR:
			if k >= -1 {
				return true
			}
		case token.EQL:
			if k >= 0 {
				return true
			}
		}
	}
	switch x := target.(type) {
	case *ssa.Parameter:
		idx := paramIndex(f, x)
		n := p.CallGraph().Nodes[f]
		if idx < 0 || n == nil || len(n.In) == 0 {
			return false
		}
		for _, e := range n.In {
			if e.Site == nil {
				return false
			}
			args := e.Site.Common().Args
			ai := idx
			if e.Site.Common().IsInvoke() {
				ai = idx - 1
			}
			if ai < 0 || ai >= len(args) {
				return false
			}
			if !provedNonNegative(p, e.Caller.Func, args[ai], e.Site, depth+1) {
				return false
			}
		}
		return true
	case *ssa.UnOp:
		// a variable captured by reference: look where the closure is made
		fv, ok := x.X.(*ssa.FreeVar)
		if !ok || x.Op != token.MUL || f.Parent() == nil {
			return false
		}
		fi := -1
		for i, v := range f.FreeVars {
			if v == fv {
				fi = i
			}
		}
		// nobody in the closure writes it
		for _, ref := range *fv.Referrers() {
			if st, ok := ref.(*ssa.Store); ok && st.Addr == fv {
				return false
			}
		}
		okAll, found := true, false
		forEachInstr(f.Parent(), func(ins ssa.Instruction) {
			mc, ok := ins.(*ssa.MakeClosure)
			if !ok || mc.Fn != ssa.Value(f) || fi < 0 || fi >= len(mc.Bindings) {
				return
			}
			found = true
			al, ok := mc.Bindings[fi].(*ssa.Alloc)
			if !ok || !singleStore(al) {
				okAll = false
				return
			}
			// a load of that local, as the guard in the parent sees it
			var ld ssa.Value
			for _, ref := range *al.Referrers() {
				if u, ok := ref.(*ssa.UnOp); ok && u.Op == token.MUL {
					ld = u
					break
				}
			}
			if ld == nil || !provedNonNegative(p, f.Parent(), ld, mc, depth+1) {
				okAll = false
			}
		})
		return found && okAll
	}
	return false
}

// singleStore: the local is assigned exactly once (so all its loads agree).
func singleStore(al *ssa.Alloc) bool {
	n := 0
	for _, ref := range *al.Referrers() {
		switch x := ref.(type) {
		case *ssa.Store:
			if x.Addr == ssa.Value(al) {
				n++
			}
		case *ssa.MakeClosure:
			// the closure may write it: check its free variable
			fn, _ := x.Fn.(*ssa.Function)
			for i, b := range x.Bindings {
				if b == ssa.Value(al) && fn != nil && i < len(fn.FreeVars) {
					for _, r2 := range *fn.FreeVars[i].Referrers() {
						if st, ok := r2.(*ssa.Store); ok && st.Addr == ssa.Value(fn.FreeVars[i]) {
							n++
						}
					}
				}
			}
		}
	}
	return n == 1
}

func init() { registerRule("R-SIZECAP", true, ruleSizeCap) }

// judgeAbs: like judgeAlloc, but a charge does not count — only an absolute bound does.
func judgeAbs(p *Program, f *ssa.Function, size ssa.Value, at ssa.Instruction, depth int) (bool, string) {
	var leaves []sizeLeaf
	classifyLeaves(p, f, size, at, 0, map[ssa.Value]bool{}, &leaves)
	for _, lf := range leaves {
		switch lf.class {
		case "param":
			if depth >= 3 {
				return false, "parameter chain too deep: " + lf.why
			}
			prm := lf.v.(*ssa.Parameter)
			idx := paramIndex(f, prm)
			n := p.CallGraph().Nodes[f]
			if idx < 0 || n == nil || len(n.In) == 0 {
				return false, lf.why + " of a function with no visible callers"
			}
			for _, e := range n.In {
				if e.Site == nil {
					return false, lf.why + ": caller without a call site"
				}
				if cf := e.Caller.Func; cf.Synthetic != "" {
					if cn := p.CallGraph().Nodes[cf]; cn == nil || len(cn.In) == 0 {
						continue
					}
				}
				args := e.Site.Common().Args
				ai := idx
				if e.Site.Common().IsInvoke() {
					ai = idx - 1
				}
				if ai < 0 || ai >= len(args) {
					return false, lf.why + ": cannot map argument at " + p.InstrPos(e.Site)
				}
				if ok, d := judgeAbs(p, e.Caller.Func, args[ai], e.Site, depth+1); !ok {
					return false, lf.why + " <- " + fnKey(e.Caller.Func) + ": " + d
				}
			}
		default:
			return false, lf.class + " leaf without an absolute bound: " + lf.why + " (" + valName(lf.v) + ")"
		}
	}
	return true, ""
}

// sizeCapTable: allocations whose program-chosen size needs no absolute bound.
var sizeCapTable = map[string]string{
	"(*runtime.array).grow:make([]runtime.Value, n)":    "the new array size is computed by mixedTable.grow from the number of integer keys the table already holds (at most twice that), i.e. from memory already held",
	"(*runtime.valuePool).get:make([]runtime.Value, n)": "besides Code.RegCount (int16) the size is GoFunction.nArgs, the arity a Go function was registered with: a compile-time constant of the host program",
	"(runtime.valuePool).get:make([]runtime.Value, n)":  "noregpool build: as above",
	"lib/stringlib.UnpackString:make([]byte, n)":        "zi - u.j with u.j <= zi <= len(u.pack): the scan loop stops at the end of the subject",
}

func ruleSizeCap(c *Ctx) *RuleResult {
	r := newResult("R-SIZECAP", "a charge is not a bound: in a context without a memory limit the Require* calls and the private budgets are no-ops, so an allocation whose size the program chooses (or input data dictates) must also be compared, on every path, with a constant or with a length already held — otherwise a large enough argument makes make/Grow/Repeat panic ('len out of range', which no pcall catches) or exhaust memory (fatal). Sizes all of whose leaves are bounded by memory already held pass; parameters are resolved through all callers")
	p := c.P
	sinks := findAllocSinks(p)
	r.count("computed_size_allocations", len(sinks))
	r.floor("computed_size_allocations", 20)
	for _, s := range sinks {
		key := fnKey(s.f) + ":" + s.what
		ok, why := judgeAbs(p, s.f, s.size, s.ins, 0)
		if ok {
			r.ok(fmt.Sprintf("%s %s [%s]: bounded by memory already held or by an explicit limit", fnKey(s.f), s.what, p.InstrPos(s.ins)))
			continue
		}
		if e, ok := sizeCapTable[key]; ok {
			r.ok("table: " + key + " — " + e)
			continue
		}
		r.fail("unbounded-size:"+key, p.InstrPos(s.ins), fmt.Sprintf("%s %s: the size is chosen by the program (or read from input) and is compared with no constant and no held length on some path to the allocation (%s); charging it to the quota does not bound it when the context has no memory limit: a large enough value is a Go panic or a fatal out-of-memory", fnKey(s.f), s.what, why))
	}
	return r
}
