package main

import (
	"fmt"
	"go/token"
	"go/types"
	"sort"
	"strings"

	"golang.org/x/tools/go/ssa"
)

func init() {
	registerRule("R-METER", false, ruleMeter)
}

// meterInfo: which functions are "metering" — on every normal return they have
// charged the CPU counter (or consumed a private budget that is charged by the
// caller).
type meterInfo struct {
	p       *Program
	base    map[*ssa.Function]bool
	derived map[*ssa.Function]bool
	// whenTrue[f] = index of a bool result r such that every path on which f
	// returns r == true has passed a metering call ("only continues when it
	// consumed budget": matchNext, getNext, ...)
	whenTrue map[*ssa.Function]int
}

func isBaseMeter(f *ssa.Function) bool {
	if f == nil {
		return false
	}
	switch f.Name() {
	case "RequireCPU", "requireCPU", "LinearRequire":
		return isCtxMethod(f, f.Name())
	case "consumeBudget":
		// private budgets of marshal.go, the pattern matcher and the unpacker;
		// R-METER(c) checks that what they consume is charged by the caller
		return f.Signature.Recv() != nil
	}
	return false
}

// errorReturnExempt: the return certainly carries a non-nil error (the caller
// stops; no further unmetered work follows on that path).
func errorReturnExempt(ret *ssa.Return) bool {
	if len(ret.Results) == 0 {
		return false
	}
	last := ret.Results[len(ret.Results)-1]
	if !isErrorType(last.Type()) {
		return false
	}
	if definitelyNonNilError(last) {
		return true
	}
	// returned inside the branch where it was tested non-nil
	gc := newGuardCtx(ret.Parent())
	for _, ge := range gc.MustEdges(ret.Block()) {
		rel, ok := ge.Relation()
		if !ok || rel.Op != token.NEQ {
			continue
		}
		var v ssa.Value
		if isNilConst(rel.B) {
			v = rel.A
		} else if isNilConst(rel.A) {
			v = rel.B
		} else {
			continue
		}
		if v == last {
			return true
		}
		// the tested value may be one edge of the phi that is returned
		if phi, ok := last.(*ssa.Phi); ok {
			for _, e := range phi.Edges {
				if e == v {
					return true
				}
			}
		}
	}
	return false
}

func isErrorType(t types.Type) bool {
	n, ok := t.(*types.Named)
	return ok && n.Obj().Pkg() == nil && n.Obj().Name() == "error"
}

func (m *meterInfo) isMetering(f *ssa.Function) bool {
	return m.base[f] || m.derived[f]
}

// callMeters: the call instruction certainly charges: static callee metering,
// or every call-graph callee of a dynamic call is metering.
func (m *meterInfo) callMeters(c ssa.CallInstruction) bool {
	if cal := c.Common().StaticCallee(); cal != nil {
		return m.isMetering(cal)
	}
	if _, ok := c.Common().Value.(*ssa.Builtin); ok {
		return false
	}
	cs := m.p.CalleesAt(c)
	if len(cs) == 0 {
		return false
	}
	for _, cal := range cs {
		if !m.isMetering(cal) {
			return false
		}
	}
	return true
}

func buildMeterInfo(p *Program) *meterInfo {
	m := &meterInfo{p: p, base: map[*ssa.Function]bool{}, derived: map[*ssa.Function]bool{}, whenTrue: map[*ssa.Function]int{}}
	for _, f := range p.ModFuncs() {
		if isBaseMeter(f) {
			m.base[f] = true
		}
	}
	for round := 0; round < 20; round++ {
		changed := false
		for _, f := range p.ModFuncs() {
			if m.isMetering(f) || f.Blocks == nil || !luaReachablePkg(relPkg(funcPkgPath(f))) {
				continue
			}
			// synthetic wrappers: metering iff their single callee is
			var meterCalls []ssa.Instruction
			forEachInstr(f, func(ins ssa.Instruction) {
				if c, ok := ins.(ssa.CallInstruction); ok {
					if _, isDefer := ins.(*ssa.Defer); isDefer {
						return
					}
					if _, isGo := ins.(*ssa.Go); isGo {
						return
					}
					if m.callMeters(c) {
						meterCalls = append(meterCalls, ins)
					}
				}
			})
			if len(meterCalls) == 0 {
				continue
			}
			all, n := true, 0
			for _, rs := range returnSites(f) {
				if rs.exempt {
					continue
				}
				n++
				dom := false
				for _, mc := range meterCalls {
					if instrDominates(mc, rs.at) {
						dom = true
						break
					}
				}
				if !dom {
					all = false
				}
			}
			if all && n > 0 {
				m.derived[f] = true
				changed = true
			}
		}
		if !changed {
			break
		}
	}
	// meter-when-true functions
	for _, f := range p.ModFuncs() {
		if m.isMetering(f) || f.Blocks == nil || !luaReachablePkg(relPkg(funcPkgPath(f))) {
			continue
		}
		res := f.Signature.Results()
		for ri := 0; ri < res.Len(); ri++ {
			if b, ok := res.At(ri).Type().Underlying().(*types.Basic); !ok || b.Kind() != types.Bool {
				continue
			}
			if m.meteredWhenTrue(f, ri) {
				m.whenTrue[f] = ri
				break
			}
		}
	}
	return m
}

// meteredWhenTrue: on the CFG with metering blocks removed, every reachable
// return yields a result #ri that is false: a constant false, or the very
// value whose If took the false branch on every unmetered path.
func (m *meterInfo) meteredWhenTrue(f *ssa.Function, ri int) bool {
	gc := newGuardCtx(f)
	hasMeter := false
	for _, b := range f.Blocks {
		for _, ins := range b.Instrs {
			if c, ok := ins.(ssa.CallInstruction); ok {
				if _, isDefer := ins.(*ssa.Defer); isDefer {
					continue
				}
				if m.callMeters(c) {
					gc.excluded[b] = true
					hasMeter = true
				}
			}
		}
	}
	if !hasMeter {
		return false
	}
	okAll := true
	n := 0
	forEachInstr(f, func(ins ssa.Instruction) {
		ret, ok := ins.(*ssa.Return)
		if !ok || gc.excluded[ret.Block()] || (f.Recover != nil && ret.Block() == f.Recover) {
			return
		}
		if !gc.reach(ret.Block(), nil, -1) {
			return // only reachable through a metering block
		}
		n++
		v := ret.Results[ri]
		if u, ok := v.(*ssa.UnOp); ok && u.Op == token.MUL {
			// spilled named result: last store in the block
			if al, ok := u.X.(*ssa.Alloc); ok {
				blk := ret.Block()
				for i := len(blk.Instrs) - 1; i >= 0; i-- {
					if st, ok := blk.Instrs[i].(*ssa.Store); ok && st.Addr == al {
						v = st.Val
						break
					}
				}
			}
		}
		if k, ok := constInt(v); ok {
			if k != 0 {
				okAll = false
			}
			return
		}
		// the returned value itself was tested and found false on every unmetered path
		found := false
		for _, ge := range gc.MustEdges(ret.Block()) {
			c := ge.If.Cond
			holds := ge.Taken
			for {
				if u, ok := c.(*ssa.UnOp); ok && u.Op == token.NOT {
					holds = !holds
					c = u.X
					continue
				}
				break
			}
			if c == v && !holds {
				found = true
			}
		}
		if !found {
			okAll = false
		}
	})
	return okAll && n > 0
}

// ---- loops

type loopInfo struct {
	f      *ssa.Function
	blocks map[*ssa.BasicBlock]bool
	header *ssa.BasicBlock
}

// blockSCCs: non-trivial strongly connected components of the CFG restricted to
// `in` (nil = all blocks).
func blockSCCs(f *ssa.Function, in map[*ssa.BasicBlock]bool) []map[*ssa.BasicBlock]bool {
	return blockSCCsCut(f, in, nil)
}

func blockSCCsCut(f *ssa.Function, in map[*ssa.BasicBlock]bool, cut map[[2]*ssa.BasicBlock]bool) []map[*ssa.BasicBlock]bool {
	index := map[*ssa.BasicBlock]int{}
	low := map[*ssa.BasicBlock]int{}
	on := map[*ssa.BasicBlock]bool{}
	var stack []*ssa.BasicBlock
	var out []map[*ssa.BasicBlock]bool
	idx := 0
	var strong func(v *ssa.BasicBlock)
	strong = func(v *ssa.BasicBlock) {
		index[v], low[v] = idx, idx
		idx++
		stack = append(stack, v)
		on[v] = true
		for _, w := range v.Succs {
			if in != nil && !in[w] {
				continue
			}
			if cut != nil && cut[[2]*ssa.BasicBlock{v, w}] {
				continue
			}
			if _, ok := index[w]; !ok {
				strong(w)
				if low[w] < low[v] {
					low[v] = low[w]
				}
			} else if on[w] && index[w] < low[v] {
				low[v] = index[w]
			}
		}
		if low[v] == index[v] {
			comp := map[*ssa.BasicBlock]bool{}
			for {
				w := stack[len(stack)-1]
				stack = stack[:len(stack)-1]
				on[w] = false
				comp[w] = true
				if w == v {
					break
				}
			}
			if len(comp) > 1 {
				out = append(out, comp)
			} else {
				for _, s := range v.Succs {
					if s == v && !(cut != nil && cut[[2]*ssa.BasicBlock{v, s}]) {
						out = append(out, comp)
					}
				}
			}
		}
	}
	for _, b := range f.Blocks {
		if in != nil && !in[b] {
			continue
		}
		if _, ok := index[b]; !ok {
			strong(b)
		}
	}
	return out
}

type loopVerdict struct {
	class  string // "M" metered, "L" length-bounded, "K" constant-bounded, "P" pre-charged, "T" table, "U" unbounded
	detail string
	pos    string
}

type loopAnalyser struct {
	p *Program
	m *meterInfo
}

func (la *loopAnalyser) blockMeters(b *ssa.BasicBlock) bool {
	for _, ins := range b.Instrs {
		if c, ok := ins.(ssa.CallInstruction); ok {
			if _, isDefer := ins.(*ssa.Defer); isDefer {
				continue
			}
			if la.m.callMeters(c) {
				return true
			}
		}
	}
	return false
}

// meteredEdge: the edge b -> b.Succs[i] is taken only after a metering call:
// b ends in an If on the bool result of a meter-when-true call, and i is the
// branch where that result is true.
func (la *loopAnalyser) meteredEdge(b *ssa.BasicBlock, i int) bool {
	if len(b.Instrs) == 0 {
		return false
	}
	iff, ok := b.Instrs[len(b.Instrs)-1].(*ssa.If)
	if !ok {
		return false
	}
	c := iff.Cond
	holds := i == 0
	for {
		if u, ok := c.(*ssa.UnOp); ok && u.Op == token.NOT {
			holds = !holds
			c = u.X
			continue
		}
		break
	}
	if !holds {
		return false
	}
	var call *ssa.Call
	idx := 0
	switch x := c.(type) {
	case *ssa.Call:
		call = x
	case *ssa.Extract:
		if cc, ok := x.Tuple.(*ssa.Call); ok {
			call, idx = cc, x.Index
		}
	}
	if call == nil {
		return false
	}
	cal := call.Call.StaticCallee()
	if cal == nil {
		return false
	}
	ri, ok := la.m.whenTrue[cal]
	return ok && ri == idx
}

// unmeteredSCCs: cycles of `in` that avoid metering blocks and metered edges.
func (la *loopAnalyser) unmeteredSCCs(f *ssa.Function, in map[*ssa.BasicBlock]bool) []map[*ssa.BasicBlock]bool {
	rest := map[*ssa.BasicBlock]bool{}
	for b := range in {
		if !la.blockMeters(b) {
			rest[b] = true
		}
	}
	cut := map[[2]*ssa.BasicBlock]bool{}
	for b := range rest {
		for i, s := range b.Succs {
			if la.meteredEdge(b, i) {
				cut[[2]*ssa.BasicBlock{b, s}] = true
			}
		}
	}
	return blockSCCsCut(f, rest, cut)
}

// classify analyses one SCC of blocks; appends a verdict per (sub)loop.
func (la *loopAnalyser) classify(f *ssa.Function, scc map[*ssa.BasicBlock]bool, depth int, out *[]loopVerdict) {
	subs := la.unmeteredSCCs(f, scc)
	if len(subs) == 0 {
		*out = append(*out, loopVerdict{class: "M", detail: "a metering call lies on every cycle", pos: la.loopPos(f, scc)})
		return
	}
	for _, s := range subs {
		la.classifyUnmetered(f, s, depth, out)
	}
}

func (la *loopAnalyser) loopPos(f *ssa.Function, scc map[*ssa.BasicBlock]bool) string {
	best := token.NoPos
	for b := range scc {
		for _, ins := range b.Instrs {
			if p := ins.Pos(); p.IsValid() && (best == token.NoPos || p < best) {
				best = p
			}
		}
	}
	if best == token.NoPos {
		return la.p.Pos(f.Pos()) + "(func)"
	}
	return la.p.Pos(best)
}

func (la *loopAnalyser) classifyUnmetered(f *ssa.Function, s map[*ssa.BasicBlock]bool, depth int, out *[]loopVerdict) {
	pos := la.loopPos(f, s)
	if depth > 6 {
		*out = append(*out, loopVerdict{class: "U", detail: "loop nest too deep to classify", pos: pos})
		return
	}
	// header: the block of s that dominates every other block of s (the header
	// of the outermost natural loop inside s)
	var h *ssa.BasicBlock
	for b := range s {
		all := true
		for o := range s {
			if o != b && !b.Dominates(o) {
				all = false
				break
			}
		}
		if all {
			h = b
			break
		}
	}
	if h == nil {
		*out = append(*out, loopVerdict{class: "U", detail: "irreducible loop (no block dominates the cycle)", pos: pos})
		return
	}
	class, detail := la.boundedExit(f, s, h)
	if class == "" {
		*out = append(*out, loopVerdict{class: "U", detail: "no exit test on a monotone induction variable against a loop-invariant bounded value, no iterator, and some cycle carries no metering call", pos: pos})
	} else {
		*out = append(*out, loopVerdict{class: class, detail: detail, pos: pos})
	}
	// inner loops: remove the header and recurse
	inner := map[*ssa.BasicBlock]bool{}
	for b := range s {
		if b != h {
			inner[b] = true
		}
	}
	for _, sub := range blockSCCs(f, inner) {
		la.classify(f, sub, depth+1, out)
	}
}

// boundedExit looks for an exit test that bounds the number of iterations of
// the loop with header h: a block of the loop that every cycle through h passes
// (it dominates every latch), ending in an If with a successor outside the
// loop, whose condition either tests an iterator (range over map/string), or
// compares a monotone induction variable with a loop-invariant value that is a
// constant (K), a length already held / narrow-typed (L), or has been
// pre-charged by a dominating RequireCPU on the same value (P).
func (la *loopAnalyser) boundedExit(f *ssa.Function, s map[*ssa.BasicBlock]bool, h *ssa.BasicBlock) (string, string) {
	var latches []*ssa.BasicBlock
	for _, pr := range h.Preds {
		if s[pr] {
			latches = append(latches, pr)
		}
	}
	for b := range s {
		if len(b.Instrs) == 0 {
			continue
		}
		iff, ok := b.Instrs[len(b.Instrs)-1].(*ssa.If)
		if !ok {
			continue
		}
		exits := !s[b.Succs[0]] || !s[b.Succs[1]]
		if !exits {
			continue
		}
		domAll := true
		for _, l := range latches {
			if !(b == l || b.Dominates(l)) {
				domAll = false
			}
		}
		if !domAll {
			continue
		}
		// iterator test: cond is extract #0 of a Next
		if ex, ok := iff.Cond.(*ssa.Extract); ok {
			if _, isNext := ex.Tuple.(*ssa.Next); isNext && ex.Index == 0 {
				return "L", "range over a map or string already held"
			}
		}
		cb, ok := condOf(iff)
		if !ok {
			continue
		}
		for _, pair := range [][2]ssa.Value{{cb.X, cb.Y}, {cb.Y, cb.X}} {
			iv, lim := stripConv(pair[0]), pair[1]
			if !la.isInduction(iv, s) {
				continue
			}
			if !la.loopInvariant(lim, s) {
				continue
			}
			switch cb.Op {
			case token.LSS, token.LEQ, token.GTR, token.GEQ, token.NEQ, token.EQL:
			default:
				continue
			}
			if _, ok := constInt(lim); ok {
				// counting towards a constant: the number of iterations is set by where the
				// variable starts, so the starting value must itself be a constant, bounded
				// by memory already held, or pre-charged
				inits, isPhi := la.initialValues(iv, s)
				if !isPhi {
					return "K", "induction variable compared with a constant"
				}
				allK, allBounded, allCharged := true, true, true
				for _, v0 := range inits {
					v0 = stripConv(v0)
					if _, ok := constInt(v0); ok {
						continue
					}
					allK = false
					if isLenCall(v0) || derivesFromLengthOnly(v0) {
						continue
					}
					if bits, _, ok := intWidth(v0.Type()); ok && bits <= 16 {
						continue
					}
					if ok, _ := upperBoundedAt(la.p, f, v0, h.Instrs[0]); ok {
						continue
					}
					allBounded = false
					if !la.preCharged(f, v0, h) {
						allCharged = false
					}
				}
				switch {
				case allK:
					return "K", "induction variable runs between two constants"
				case allBounded:
					return "L", "induction variable counts to a constant from a value bounded by memory already held"
				case allCharged:
					return "P", "induction variable counts to a constant from a value that a dominating CPU or memory charge covers"
				}
				continue
			}
			sl := stripConv(lim)
			if isLenCall(sl) {
				return "L", "induction variable compared with a length already held"
			}
			if bits, _, ok := intWidth(sl.Type()); ok && bits <= 16 {
				return "K", "induction variable compared with a value of <=16-bit type"
			}
			if derivesFromLengthOnly(sl) {
				return "L", "induction variable compared with an expression of lengths already held"
			}
			if ok, why := upperBoundedAt(la.p, f, sl, h.Instrs[0]); ok {
				return "L", "induction variable compared with a value that is itself " + why
			}
			if la.preCharged(f, sl, h) {
				return "P", "a CPU or memory charge on the same bound dominates the loop"
			}
		}
	}
	// index-bounded: on every cycle the loop indexes a string or slice that it does
	// not change (loop-invariant, hence already held) with a monotone induction variable
	// (+/- a constant). Each cycle visits a new position, and a position outside the
	// value is a Go index panic, not another iteration: at most len+1 cycles.
	for b := range s {
		domAll := true
		for _, l := range latches {
			if !(b == l || b.Dominates(l)) {
				domAll = false
			}
		}
		if !domAll {
			continue
		}
		for _, ins := range b.Instrs {
			var coll, idx ssa.Value
			switch x := ins.(type) {
			case *ssa.Lookup:
				if _, isMap := x.X.Type().Underlying().(*types.Map); isMap {
					continue
				}
				coll, idx = x.X, x.Index
			case *ssa.IndexAddr:
				coll, idx = x.X, x.Index
			case *ssa.Index:
				coll, idx = x.X, x.Index
			default:
				continue
			}
			if !la.loopInvariant(coll, s) {
				continue
			}
			if la.isInduction(stripConv(idx), s) {
				return "L", "every cycle indexes a held string or slice with the induction variable (an out-of-range position ends the loop)"
			}
		}
	}
	return "", ""
}

// derivesFromLengthOnly: every leaf of v's arithmetic is a constant or len/cap.
func derivesFromLengthOnly(v ssa.Value) bool {
	ok := true
	any := false
	var walk func(v ssa.Value, d int)
	walk = func(v ssa.Value, d int) {
		if d > 6 {
			ok = false
			return
		}
		v = stripConv(v)
		if _, c := constInt(v); c {
			return
		}
		if isLenCall(v) {
			any = true
			return
		}
		if b, isB := v.(*ssa.BinOp); isB {
			switch b.Op {
			case token.ADD, token.SUB, token.MUL, token.QUO, token.SHR, token.SHL:
				walk(b.X, d+1)
				walk(b.Y, d+1)
				return
			}
		}
		ok = false
	}
	walk(v, 0)
	return ok && any
}

// fieldInduction: v is a load of a field (through a loop-invariant pointer) that
// the loop only ever updates as field = field +/- const.
func (la *loopAnalyser) fieldInduction(v ssa.Value, s map[*ssa.BasicBlock]bool) bool {
	u, ok := v.(*ssa.UnOp)
	if !ok || u.Op != token.MUL {
		return false
	}
	fa, ok := u.X.(*ssa.FieldAddr)
	if !ok || !la.loopInvariant(fa.X, s) {
		return false
	}
	steps := 0
	for b := range s {
		for _, ins := range b.Instrs {
			st, ok := ins.(*ssa.Store)
			if !ok {
				continue
			}
			fa2, ok := st.Addr.(*ssa.FieldAddr)
			if !ok || fa2.Field != fa.Field || !types.Identical(fa2.X.Type(), fa.X.Type()) {
				continue
			}
			bo, ok := st.Val.(*ssa.BinOp)
			if !ok || (bo.Op != token.ADD && bo.Op != token.SUB) {
				return false
			}
			k, isK := constInt(bo.Y)
			ld, isLd := bo.X.(*ssa.UnOp)
			if !isK || k == 0 || !isLd {
				return false
			}
			fa3, ok := ld.X.(*ssa.FieldAddr)
			if !ok || fa3.Field != fa.Field {
				return false
			}
			steps++
		}
	}
	return steps > 0
}

// initialValues: the values an induction variable (a loop phi, possibly +/- a
// constant) has on entry to the loop.
func (la *loopAnalyser) initialValues(v ssa.Value, s map[*ssa.BasicBlock]bool) ([]ssa.Value, bool) {
	if b, ok := v.(*ssa.BinOp); ok && (b.Op == token.ADD || b.Op == token.SUB) {
		if k, ok := constInt(b.Y); ok && k != 0 {
			v = stripConv(b.X)
		}
	}
	phi, ok := v.(*ssa.Phi)
	if !ok || !s[phi.Block()] {
		return nil, false
	}
	var out []ssa.Value
	for i, e := range phi.Edges {
		if !s[phi.Block().Preds[i]] {
			out = append(out, e)
		}
	}
	return out, true
}

func (la *loopAnalyser) isInduction(v ssa.Value, s map[*ssa.BasicBlock]bool) bool {
	if la.fieldInduction(v, s) {
		return true
	}
	// v may be phi, or phi +/- const (the incremented value tested after the step)
	if b, ok := v.(*ssa.BinOp); ok && (b.Op == token.ADD || b.Op == token.SUB) {
		if k, ok := constInt(b.Y); ok && k != 0 {
			v = stripConv(b.X)
		}
	}
	phi, ok := v.(*ssa.Phi)
	if !ok || !s[phi.Block()] {
		return false
	}
	stepped := false
	for i, e := range phi.Edges {
		pred := phi.Block().Preds[i]
		if !s[pred] {
			continue // initial value
		}
		e = stripConv(e)
		b, ok := e.(*ssa.BinOp)
		if !ok || (b.Op != token.ADD && b.Op != token.SUB) {
			return false
		}
		k, isK := constInt(b.Y)
		if !isK || k == 0 {
			return false
		}
		if stripConv(b.X) != phi {
			// allow one more phi hop (if/else merging the same increment)
			return false
		}
		stepped = true
	}
	return stepped
}

func (la *loopAnalyser) loopInvariant(v ssa.Value, s map[*ssa.BasicBlock]bool) bool {
	v = stripConv(v)
	switch x := v.(type) {
	case *ssa.Const, *ssa.Parameter, *ssa.FreeVar, *ssa.Global:
		return true
	case ssa.Instruction:
		if !s[x.Block()] {
			return true
		}
		// len(x) recomputed inside the loop of a value defined outside and not
		// reassigned: accept len/cap of a loop-invariant value
		if call, ok := v.(*ssa.Call); ok && isLenCall(call) {
			return la.loopInvariant(call.Call.Args[0], s)
		}
		// field load of an invariant pointer (re-read each iteration): treated as
		// varying unless nothing in the loop stores to that field
		if u, ok := v.(*ssa.UnOp); ok && u.Op == token.MUL {
			if fa, ok := u.X.(*ssa.FieldAddr); ok && la.loopInvariant(fa.X, s) {
				stored := false
				for b := range s {
					for _, ins := range b.Instrs {
						if st, ok := ins.(*ssa.Store); ok {
							if fa2, ok := st.Addr.(*ssa.FieldAddr); ok && fa2.Field == fa.Field && types.Identical(fa2.X.Type(), fa.X.Type()) {
								stored = true
							}
						}
					}
				}
				return !stored
			}
		}
	}
	return false
}

func (la *loopAnalyser) preCharged(f *ssa.Function, lim ssa.Value, h *ssa.BasicBlock) bool {
	found := false
	forEachInstr(f, func(ins ssa.Instruction) {
		c, ok := ins.(ssa.CallInstruction)
		if !ok || found {
			return
		}
		cal := c.Common().StaticCallee()
		if cal == nil || !(isBaseMeter(cal) || isChargeCall(cal)) {
			return
		}
		if !(ins.Block() != h && ins.Block().Dominates(h)) {
			return
		}
		for _, a := range c.Common().Args[1:] {
			if amountCovers(a, lim, 0) {
				found = true
			}
		}
	})
	return found
}

// amountCovers: the charged amount is at least the loop bound — the bound itself,
// the bound plus/minus something, or the bound times a constant >= 1. A product
// with a non-constant factor (n * len(s)) does not count: the factor may be zero,
// and then n iterations are charged nothing.
func amountCovers(a, lim ssa.Value, depth int) bool {
	if depth > 6 {
		return false
	}
	a = stripConv(a)
	if a == lim || sameValue(a, stripConv(lim)) {
		return true
	}
	b, ok := a.(*ssa.BinOp)
	if !ok {
		return false
	}
	switch b.Op {
	case token.ADD:
		return amountCovers(b.X, lim, depth+1) || amountCovers(b.Y, lim, depth+1)
	case token.SUB:
		if _, isK := constInt(b.Y); isK {
			return amountCovers(b.X, lim, depth+1)
		}
	case token.MUL:
		if k, isK := constInt(b.Y); isK && k >= 1 {
			return amountCovers(b.X, lim, depth+1)
		}
		if k, isK := constInt(b.X); isK && k >= 1 {
			return amountCovers(b.Y, lim, depth+1)
		}
	case token.SHL:
		if _, isK := constInt(b.Y); isK {
			return amountCovers(b.X, lim, depth+1)
		}
	}
	return false
}

func ruleMeter(c *Ctx) *RuleResult {
	r := newResult("R-METER", "the CPU counter moves on every cycle of unbounded work: (a) at the points the quota design names a charging call is passed on every path (interpreter loop, Go-function dispatch, __index/__newindex chains, table store, argument push); (b) every loop in code reachable (flag-gated dispatch cut) from a cpusafe-declared Go function or the VM core, outside the compile pipeline, is metered (a metering call on every cycle; metering functions = RequireCPU/LinearRequire/private consumeBudget closed under 'a metering call dominates every non-error return'), or bounded by a constant / a length already held / an iterator over a held collection, or pre-charged on its bound, or table-listed with a reason; (c) private budgets are fed from UnusedCPU/LinearUnused and what they report as used is charged; (d) no call-graph cycle of cpusafe-reachable code avoids all metering functions")
	p := c.P
	t := c.Reg()
	if len(t.Problems) > 0 {
		for _, pr := range t.Problems {
			r.broken("%s", pr)
		}
		return r
	}
	m := buildMeterInfo(p)
	r.count("base_metering_functions", len(m.base))
	r.count("derived_metering_functions", len(m.derived))
	r.floor("base_metering_functions", 5)
	var dnames []string
	for f := range m.derived {
		dnames = append(dnames, fnKey(f))
	}
	sort.Strings(dnames)
	r.note("derived metering functions (%d): %s", len(dnames), shortList(dnames, 60))

	// ---- (a) named must-pass-through points
	la := &loopAnalyser{p: p, m: m}
	mustMeter := []struct{ rel, name, why string }{
		{"runtime", "(*GoCont).RunInThread", "Go-function dispatch charges before calling the function"},
		{"runtime", "Index", "__index chain step"},
		{"runtime", "SetIndex", "__newindex chain step"},
		{"runtime", "(*Runtime).SetTable", "table store"},
	}
	for _, mm := range mustMeter {
		f := p.Func(mm.rel, mm.name)
		if f == nil {
			r.broken("anchor unresolved: %s.%s", mm.rel, mm.name)
			continue
		}
		if m.isMetering(f) {
			r.ok(fmt.Sprintf("(a) %s is metering: %s", fnKey(f), mm.why))
		} else {
			r.fail("not-metering:"+fnKey(f), p.Pos(f.Pos()), fmt.Sprintf("%s no longer charges the CPU counter on every non-error path (%s): work done through it is unmetered", fnKey(f), mm.why))
		}
	}
	// the dispatch in GoCont.RunInThread: RequireCPU dominates the call through f
	if run := p.Func("runtime", "(*GoCont).RunInThread"); run != nil {
		var dispatch *ssa.Call
		var meters []ssa.Instruction
		forEachInstr(run, func(ins ssa.Instruction) {
			if call, ok := ins.(*ssa.Call); ok {
				if call.Call.StaticCallee() == nil && !call.Call.IsInvoke() {
					if _, isB := call.Call.Value.(*ssa.Builtin); !isB {
						dispatch = call
					}
				} else if m.callMeters(call) {
					meters = append(meters, ins)
				}
			}
		})
		ok := false
		for _, mc := range meters {
			if dispatch != nil && instrDominates(mc, dispatch) {
				ok = true
			}
		}
		if ok {
			r.ok("(a) RequireCPU dominates the dispatch c.f(t,c)")
		} else {
			r.fail("dispatch-unmetered", p.Pos(run.Pos()), "(*GoCont).RunInThread no longer charges CPU before calling the Go function")
		}
	}

	// ---- (b) loops
	var sources []*ssa.Function
	for _, reg := range t.Regs {
		if reg.Flags&t.Bits.Cpu != 0 {
			sources = append(sources, reg.Funcs...)
		}
	}
	for _, n := range []string{"(*Thread).RunContinuation", "(*LuaCont).RunInThread", "(*GoCont).RunInThread", "(*Thread).CallContext", "(*Thread).Resume", "(*Thread).Close", "(*Thread).Yield", "(*Thread).Start"} {
		if f := p.Func("runtime", n); f != nil {
			sources = append(sources, f)
		} else {
			r.broken("anchor unresolved: runtime.%s", n)
		}
	}
	r.count("cpusafe_sources", len(sources))
	r.floor("cpusafe_sources", 100)
	// a package outside the usual scope comes into scope as soon as one of its functions
	// is declared cpu-safe (lib/packagelib and lib/golib declare none today)
	declared := map[string]bool{}
	for _, reg := range t.Regs {
		if reg.Flags&t.Bits.Cpu != 0 {
			for _, sf := range reg.Funcs {
				declared[relPkg(funcPkgPath(sf))] = true
			}
		}
	}
	pkgInScope := func(rel string) bool { return meterScope(rel) || declared[rel] }
	reach := &Reach{p: p, PreciseCallbacks: true}
	reach.Skip = func(callee *ssa.Function) bool {
		return p.InModule(callee) && !pkgInScope(relPkg(funcPkgPath(callee)))
	}
	reach.Run(sources, nil)
	funcs := reach.ReachedModuleFuncs()
	r.count("functions_in_scope", len(funcs))
	r.floor("functions_in_scope", 400)
	counts := map[string]int{}
	usedT := map[string]int{}
	for _, f := range funcs {
		if !pkgInScope(relPkg(funcPkgPath(f))) || f.Blocks == nil {
			continue
		}
		var verdicts []loopVerdict
		for _, scc := range blockSCCs(f, nil) {
			la.classify(f, scc, 0, &verdicts)
		}
		nU := 0
		for _, v := range verdicts {
			counts[v.class]++
			if v.class != "U" {
				r.ok("")
				if v.class != "M" && len(r.Samples) < 12 {
					r.Samples = append(r.Samples, fmt.Sprintf("%s loop at %s: %s (%s)", fnKey(f), v.pos, v.class, v.detail))
				}
				continue
			}
			nU++
			key := fnKey(f)
			if e, ok := loopTable[key]; ok {
				usedT[key]++
				if usedT[key] <= e.count {
					counts["T"]++
					counts["U"]--
					r.ok("table: loop in " + key + " — " + e.reason)
					continue
				}
			}
			r.fail(fmt.Sprintf("unmetered-loop:%s#%d", key, nU), v.pos, fmt.Sprintf("loop in %s is reachable from cpu-limited code but %s", key, v.detail))
		}
	}
	for k, v := range counts {
		r.count("loops_"+k, v)
	}
	total := 0
	for _, v := range counts {
		total += v
	}
	r.count("loops_total", total)
	r.floor("loops_total", 80)
	for k := range loopTable {
		if usedT[k] == 0 {
			r.note("table entry unused: %s", k)
		}
	}

	// ---- (b') a library call whose cost is linear in an operand, made inside a loop, is a
	// nested loop: a loop bounded by one held length times a call linear in another is a
	// product. Somewhere in the function a charge must depend on the size of an operand
	// or of the result of such a call (dependency presence), or the call is table-listed.
	// (Outside any loop such a call is linear in memory already held, like an L loop.)
	nLinear := 0
	for _, f := range funcs {
		if !pkgInScope(relPkg(funcPkgPath(f))) || f.Blocks == nil {
			continue
		}
		inCycle := map[*ssa.BasicBlock]bool{}
		for _, scc := range blockSCCs(f, nil) {
			for b := range scc {
				inCycle[b] = true
			}
		}
		if len(inCycle) == 0 {
			continue
		}
		var charges []ssa.CallInstruction
		forEachInstr(f, func(ins ssa.Instruction) {
			if c, ok := ins.(ssa.CallInstruction); ok {
				if cal := c.Common().StaticCallee(); cal != nil && (isBaseMeter(cal) || isChargeCall(cal)) {
					charges = append(charges, c)
				}
			}
		})
		forEachInstr(f, func(ins ssa.Instruction) {
			call, ok := ins.(*ssa.Call)
			if !ok {
				return
			}
			cal := call.Call.StaticCallee()
			if cal == nil || !linearCostStdlib[fullName(cal)] {
				return
			}
			if !inCycle[ins.Block()] {
				return // once per call of the function: linear in memory already held, like an L loop
			}
			nLinear++
			key := fnKey(f) + "->" + fullName(cal)
			// sized values: the string / slice operands and the result
			var sized []ssa.Value
			for _, a := range call.Call.Args {
				switch stripConv(a).Type().Underlying().(type) {
				case *types.Slice:
					sized = append(sized, stripConv(a))
				case *types.Basic:
					if bt := stripConv(a).Type().Underlying().(*types.Basic); bt.Info()&types.IsString != 0 {
						sized = append(sized, stripConv(a))
					}
				case *types.Interface:
					// a reader: bounded if it comes from io.LimitReader
					for v := range backSlice(a, true) {
						if c2, ok := v.(*ssa.Call); ok {
							if cc := c2.Call.StaticCallee(); cc != nil && fullName(cc) == "io.LimitReader" {
								sized = nil
								r.ok(key + ": reads from an io.LimitReader")
								return
							}
						}
					}
				}
			}
			sized = append(sized, call)
			if call.Referrers() != nil {
				for _, ref := range *call.Referrers() {
					if ex, ok := ref.(*ssa.Extract); ok {
						sized = append(sized, ex)
					}
				}
			}
			dep := false
			for _, ch := range charges {
				for _, a := range ch.Common().Args[1:] {
					for v := range backSlice(a, true) {
						lc, ok := v.(*ssa.Call)
						if !ok || !isLenCall(lc) {
							continue
						}
						arg := stripConv(lc.Call.Args[0])
						for _, sv := range sized {
							if arg == sv || sameValue(arg, sv) || backSlice(arg, false)[sv] || backSlice(sv, false)[arg] {
								dep = true
							}
						}
					}
				}
			}
			if dep {
				r.ok(key + ": a charge in the function depends on the size of an operand or of the result")
				return
			}
			if why, ok := linearCallTable[key]; ok {
				r.ok("table: " + key + " — " + why)
				return
			}
			r.fail("linear-library-call-uncharged:"+key, p.InstrPos(ins), fmt.Sprintf("%s calls %s, inside a loop; its cost grows with the size of its operands, so the loop does work proportional to a product of sizes, and no CPU or memory charge in the function depends on the size of an operand or of the result of that call", fnKey(f), fullName(cal)))
		})
	}
	r.count("linear_cost_library_calls", nLinear)

	// ---- (c) budget plumbing
	checkBudgetPlumbing(p, r)

	// ---- (e) cursor writers: the amortised arguments of the loop table rely on
	// "the position only advances where budget is consumed"
	checkCursorWriters(p, r, m)

	// ---- (d) call-graph cycles that avoid every metering function
	keep := func(f *ssa.Function) bool { return meterScope(relPkg(funcPkgPath(f))) }
	adj := moduleAdjacency(p, keep)
	deleted := map[*ssa.Function]bool{}
	for f := range m.base {
		deleted[f] = true
	}
	for f := range m.derived {
		deleted[f] = true
	}
	for _, f := range p.ModFuncs() {
		if luaReachablePkg(relPkg(funcPkgPath(f))) {
			if ok, _ := isDepthGuard(p, f); ok {
				deleted[f] = true // bounded recursion depth: the work per level is what must be metered
			}
		}
	}
	inScope := map[*ssa.Function]bool{}
	for _, f := range funcs {
		inScope[f] = true
	}
	var nodes []*ssa.Function
	for _, f := range funcs {
		if keep(f) {
			nodes = append(nodes, f)
		}
	}
	comps := sccs(nodes, adj, deleted)
	r.count("unmetered_call_cycles", len(comps))
	for _, comp := range comps {
		rep := sccRepresentative(comp)
		key := "unmetered-recursion:" + fnKey(rep)
		names := []string{}
		inComp := map[*ssa.Function]bool{}
		for _, f := range comp {
			names = append(names, fnKey(f))
			inComp[f] = true
		}
		if why, ok := meterRecursionTable[fnKey(rep)]; ok {
			r.ok("table: call cycle at " + fnKey(rep) + " — " + why)
			continue
		}
		r.fail(key, p.Pos(rep.Pos()), fmt.Sprintf("call-graph cycle of %d function(s) reachable from cpu-limited code in which no function charges the CPU counter: %s", len(comp), shortList(names, 10)), shortestCycle(p, comp[0], adj, inComp)...)
	}
	return r
}

// meterScope: packages whose loops must be metered (runtime and libraries; the
// compile pipeline is pre-charged as a whole by LinearRequire(len(source))).
func meterScope(rel string) bool {
	switch rel {
	case "runtime", "luastrings", "runtime/internal/luagc", "runtime/internal/weakref":
		return true
	}
	return strings.HasPrefix(rel, "lib/") && rel != "lib/golib" && rel != "lib/golib/goimports" && rel != "lib/packagelib"
}

// checkBudgetPlumbing: every call of a budgeted worker takes its budget from
// UnusedCPU/LinearUnused and its `used` result flows into RequireCPU/LinearRequire.
func checkBudgetPlumbing(p *Program, r *RuleResult) {
	workers := []struct{ rel, name string }{
		{"lib/stringlib/pattern", "(*Pattern).Match"},
		{"lib/stringlib/pattern", "(*Pattern).MatchFromStart"},
		{"runtime", "MarshalConst"},
		{"runtime", "UnmarshalConst"},
		{"lib/stringlib", "UnpackString"},
		{"lib/stringlib", "PackValues"},
	}
	sites := 0
	for _, w := range workers {
		wf := p.Func(w.rel, w.name)
		if wf == nil {
			r.broken("anchor unresolved: %s.%s", w.rel, w.name)
			continue
		}
		for _, f := range p.ModFuncs() {
			if !meterScope(relPkg(funcPkgPath(f))) {
				continue
			}
			forEachInstr(f, func(ins ssa.Instruction) {
				call, ok := ins.(*ssa.Call)
				if !ok || call.Call.StaticCallee() != wf {
					return
				}
				sites++
				// budget argument: the last parameter
				args := call.Call.Args
				budget := args[len(args)-1]
				fromUnused := false
				for v := range backSlice(budget, false) {
					if c2, ok := v.(*ssa.Call); ok {
						if cal := c2.Call.StaticCallee(); cal != nil && (isCtxMethod(cal, "UnusedCPU") || isCtxMethod(cal, "LinearUnused")) {
							fromUnused = true
						}
					}
				}
				// used result flows into a charge
				charged := false
				var visit func(v ssa.Value, d int)
				seen := map[ssa.Value]bool{}
				visit = func(v ssa.Value, d int) {
					if d > 6 || seen[v] || v.Referrers() == nil {
						return
					}
					seen[v] = true
					for _, ref := range *v.Referrers() {
						switch x := ref.(type) {
						case ssa.CallInstruction:
							if cal := x.Common().StaticCallee(); cal != nil && isBaseMeter(cal) {
								charged = true
							}
						case ssa.Value:
							visit(x, d+1)
						}
					}
				}
				visit(call, 0)
				key := fnKey(f) + "->" + fnKey(wf)
				switch {
				case !fromUnused:
					r.fail("budget-not-from-quota:"+key, p.InstrPos(ins), fmt.Sprintf("%s calls %s with a budget that does not come from UnusedCPU/LinearUnused: the work is not limited by what the context has left", fnKey(f), fnKey(wf)))
				case !charged:
					r.fail("budget-use-not-charged:"+key, p.InstrPos(ins), fmt.Sprintf("%s calls %s but what it reports as used never reaches RequireCPU/LinearRequire: the work is free", fnKey(f), fnKey(wf)))
				default:
					r.ok(fmt.Sprintf("(c) %s: budget from the quota, used amount charged", key))
				}
			})
		}
	}
	r.count("budgeted_worker_call_sites", sites)
	r.floor("budgeted_worker_call_sites", 8)
}

type returnSite struct {
	at     ssa.Instruction // instruction standing for the return in dominance questions
	exempt bool            // certainly returns a non-nil error
}

// returnSites lists the places a function returns from. For functions whose
// named results are spilled to allocs because of a defer (one shared Return
// reading the allocs), each predecessor of the return block is a site and the
// error value is the last store to the error result in that predecessor.
func returnSites(f *ssa.Function) []returnSite {
	var out []returnSite
	forEachInstr(f, func(ins ssa.Instruction) {
		ret, ok := ins.(*ssa.Return)
		if !ok {
			return
		}
		spilled := false
		var errAlloc *ssa.Alloc
		if n := len(ret.Results); n > 0 {
			if u, ok := ret.Results[n-1].(*ssa.UnOp); ok && u.Op == token.MUL {
				if al, ok := u.X.(*ssa.Alloc); ok && isErrorType(ret.Results[n-1].Type()) {
					spilled = true
					errAlloc = al
				}
			}
		}
		if f.Recover != nil && ret.Block() == f.Recover {
			return // reached only after a recovered panic
		}
		if spilled {
			// value stored to the error result earlier in the same block
			blk := ret.Block()
			for i := len(blk.Instrs) - 1; i >= 0; i-- {
				if st, ok := blk.Instrs[i].(*ssa.Store); ok && st.Addr == errAlloc {
					out = append(out, returnSite{at: ret, exempt: valueKnownNonNil(f, st.Val, blk)})
					return
				}
			}
		}
		if !spilled || len(ret.Block().Preds) < 2 {
			out = append(out, returnSite{at: ret, exempt: errorReturnExempt(ret)})
			return
		}
		for _, pred := range ret.Block().Preds {
			site := returnSite{at: pred.Instrs[len(pred.Instrs)-1]}
			// last store to the error result in pred
			for i := len(pred.Instrs) - 1; i >= 0; i-- {
				if st, ok := pred.Instrs[i].(*ssa.Store); ok && st.Addr == errAlloc {
					site.exempt = valueKnownNonNil(f, st.Val, pred)
					break
				}
			}
			out = append(out, site)
		}
	})
	return out
}

func valueKnownNonNil(f *ssa.Function, v ssa.Value, at *ssa.BasicBlock) bool {
	if definitelyNonNilError(v) {
		return true
	}
	gc := newGuardCtx(f)
	for _, ge := range gc.MustEdges(at) {
		rel, ok := ge.Relation()
		if !ok || rel.Op != token.NEQ {
			continue
		}
		if (isNilConst(rel.B) && rel.A == v) || (isNilConst(rel.A) && rel.B == v) {
			return true
		}
	}
	return false
}

// checkCursorWriters: for each budgeted cursor field, every store that can
// advance it is in a block that contains (or is dominated by) a metering call,
// or is a decrement, or is table-listed by function with a count and a reason.
func checkCursorWriters(p *Program, r *RuleResult, m *meterInfo) {
	for field, writers := range cursorWriters {
		used := map[string]int{}
		n := 0
		for _, f := range p.ModFuncs() {
			forEachInstr(f, func(ins ssa.Instruction) {
				st, ok := ins.(*ssa.Store)
				if !ok {
					return
				}
				fa, ok := st.Addr.(*ssa.FieldAddr)
				if !ok {
					return
				}
				rel, tn, fn := fieldOfAddr(fa)
				if rel+"."+tn+"."+fn != field {
					return
				}
				n++
				// decrement: moves the cursor backwards, never skips work
				if b, ok := st.Val.(*ssa.BinOp); ok && b.Op == token.SUB {
					if k, ok := constInt(b.Y); ok && k > 0 {
						r.ok("")
						return
					}
				}
				// metered: a metering call in the same block or dominating it
				metered := false
				forEachInstr(f, func(o ssa.Instruction) {
					if c, ok := o.(ssa.CallInstruction); ok && m.callMeters(c) {
						if o.Block() == st.Block() || o.Block().Dominates(st.Block()) {
							metered = true
						}
					}
				})
				if metered {
					r.ok(fmt.Sprintf("(e) %s written in %s next to a budget consumption", field, fnKey(f)))
					return
				}
				key := fnKey(f)
				if e, ok := writers[key]; ok {
					used[key]++
					if used[key] <= e.count {
						r.ok(fmt.Sprintf("(e) table: %s written in %s — %s", field, key, e.reason))
						return
					}
				}
				r.fail("cursor-advanced-unmetered:"+field+":"+fnKey(f), p.InstrPos(st), fmt.Sprintf("%s assigns %s without consuming budget: the amortised argument that bounds the matcher's work by the budget it consumed (every advance of the cursor is paid for) no longer holds, so matching work can be free", fnKey(f), field))
			})
		}
		r.count("cursor_writes:"+field, n)
		if n == 0 {
			r.broken("anchor unresolved: no store to %s found", field)
		}
	}
}

// linearCostStdlib: standard-library functions whose running time (and often the
// size of their result) grows with the size of their operands.
var linearCostStdlib = map[string]bool{
	"strings.Replace": true, "strings.ReplaceAll": true, "strings.Join": true, "strings.Split": true, "strings.SplitN": true, "strings.Fields": true,
	"strings.Repeat": true, "strings.ToUpper": true, "strings.ToLower": true, "strings.Map": true, "strings.Count": true, "strings.Title": true,
	"bytes.Replace": true, "bytes.ReplaceAll": true, "bytes.Join": true, "bytes.Split": true, "bytes.Repeat": true, "bytes.ToUpper": true, "bytes.ToLower": true,
	"io.ReadAll": true, "io/ioutil.ReadAll": true, "os.ReadFile": true, "io/ioutil.ReadFile": true,
	"(*regexp.Regexp).ReplaceAllStringFunc": true, "(*regexp.Regexp).ReplaceAllFunc": true, "(*regexp.Regexp).ReplaceAllString": true, "(*regexp.Regexp).ReplaceAll": true,
	"(*regexp.Regexp).FindAllString": true, "(*regexp.Regexp).FindAllStringIndex": true,
}

// linearCallTable: linear-cost library calls that need no charge of their own.
var linearCallTable = map[string]string{}
