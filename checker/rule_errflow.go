package main

import (
	"fmt"
	"go/token"
	"strings"

	"golang.org/x/tools/go/ssa"
)

func init() {
	registerRule("R-ERRFLOW", false, ruleErrflow)
	registerRule("R-POOL", true, rulePool)
}

// errorReturning: module functions of the runtime whose errors carry Lua errors.
var luaErrorFuncs = map[string]bool{
	"Call": true, "Call1": true, "Index": true, "SetIndex": true, "Metacall": true, "Continue": true,
	"RunContinuation": true, "cleanupCloseStack": true, "Concat": true, "Lt": true, "le": true, "eq": true,
	"Len": true, "IntLen": true, "Add": false, "call": true, "CallContext": true, "Resume": true, "Close": false,
	"Yield": true, "SetTableCheck": true, "RunInThread": true, "metabin": true, "metaun": true,
	"Unm": true, "bnot": true, "band": true, "bor": true, "bxor": true, "shl": true, "shr": true,
	"LoadFromSourceOrCode": true, "CompileAndLoadLuaChunk": true, "CompileLuaChunk": true,
}

func ruleErrflow(c *Ctx) *RuleResult {
	r := newResult("R-ERRFLOW", "errors travel as values and keep their place: (a) the error result of the runtime's error-returning operations (Call, Call1, Index, SetIndex, Metacall, Continue, RunContinuation, cleanupCloseStack, Concat, Lt, le, eq, Len, the bitwise/unary metamethod helpers, CallContext, Resume, Yield, the loaders) is never discarded in the runtime and libraries, except the table-listed debug-hook triggers; (b) in the interpreter loop every return of a non-nil error is preceded in its block by the store c.pc = pc (the line attributed to a runtime error comes from c.pc), exceptions table-listed; (c) the error a Go function returns reaches RunContinuation's handler: GoCont.RunInThread returns the callee's error unchanged")
	p := c.P
	// ---- (a)
	checked, dropped := 0, 0
	usedT := map[string]int{}
	for _, f := range p.ModFuncs() {
		rel := relPkg(funcPkgPath(f))
		if !meterScope(rel) || f.Blocks == nil {
			continue
		}
		forEachInstr(f, func(ins ssa.Instruction) {
			call, ok := ins.(*ssa.Call)
			if !ok {
				return
			}
			var cal *ssa.Function
			name := ""
			if call.Call.IsInvoke() {
				name = call.Call.Method.Name()
				if name != "RunInThread" {
					return
				}
			} else {
				cal = call.Call.StaticCallee()
				if cal == nil || relPkg(funcPkgPath(cal)) != "runtime" {
					return
				}
				name = cal.Name()
			}
			if !luaErrorFuncs[name] {
				return
			}
			sig := call.Call.Signature()
			res := sig.Results()
			ei := -1
			for i := 0; i < res.Len(); i++ {
				if isErrorType(res.At(i).Type()) {
					ei = i
				}
			}
			if ei < 0 {
				return
			}
			checked++
			used := false
			if res.Len() == 1 {
				used = hasRealReferrer(call)
			} else if call.Referrers() != nil {
				for _, ref := range *call.Referrers() {
					if ex, ok := ref.(*ssa.Extract); ok && ex.Index == ei && hasRealReferrer(ex) {
						used = true
					}
				}
			}
			if used {
				r.ok("")
				// (a') identity: when that error is what the function goes on to return, it
				// is returned as it is. Re-wrapping it (NewError(ErrorValue(err)), fmt.Errorf)
				// makes a fresh error: the 'already handled' flag, the traceback and the
				// position prefix already applied are lost, so pcall/xpcall see a different
				// value (a message prefixed twice, a handler run twice)
				var ev ssa.Value = call
				if res.Len() > 1 {
					for _, ref := range *call.Referrers() {
						if ex, ok := ref.(*ssa.Extract); ok && ex.Index == ei {
							ev = ex
						}
					}
				}
				fres := f.Signature.Results()
				if fres.Len() == 0 || !isErrorType(fres.At(fres.Len()-1).Type()) {
					return
				}
				forEachInstr(f, func(ri ssa.Instruction) {
					ret, ok := ri.(*ssa.Return)
					if !ok || len(ret.Results) == 0 {
						return
					}
					rv := ret.Results[len(ret.Results)-1]
					if rv == ev || isNilConst(rv) {
						return
					}
					// direct phi/alloc copies of the same error are identity
					direct := map[ssa.Value]bool{}
					var walk func(v ssa.Value, d int)
					walk = func(v ssa.Value, d int) {
						if d > 6 || direct[v] {
							return
						}
						direct[v] = true
						switch x := v.(type) {
						case *ssa.Phi:
							for _, e := range x.Edges {
								walk(e, d+1)
							}
						case *ssa.UnOp:
							if al, ok := x.X.(*ssa.Alloc); ok {
								for _, ref := range *al.Referrers() {
									if st, ok := ref.(*ssa.Store); ok && st.Addr == ssa.Value(al) {
										walk(st.Val, d+1)
									}
								}
							}
						case *ssa.ChangeInterface:
							walk(x.X, d+1)
						}
					}
					walk(rv, 0)
					if direct[ev] {
						return
					}
					if !backSlice(rv, true)[ev] {
						return
					}
					key := "error-rewrapped:" + fnKey(f) + "->" + name
					if why, ok := rewrapTable[fnKey(f)+"->"+name]; ok {
						r.Samples = append(r.Samples, "table: "+key+" — "+why)
						return
					}
					r.fail(key, p.InstrPos(ri), fmt.Sprintf("%s returns an error built from the one %s returned instead of that error itself: a Lua error crossing this function becomes a fresh error (its handled flag, traceback and position prefix are lost), so the value pcall/xpcall deliver is not the value that was raised", fnKey(f), name))
				})
				return
			}
			dropped++
			key := fnKey(f) + "->" + name
			if e, ok := droppedErrorTable[key]; ok {
				usedT[key]++
				if usedT[key] <= e.count {
					r.Samples = append(r.Samples, "table: "+key+" — "+e.reason)
					return
				}
			}
			r.fail("error-discarded:"+key, p.InstrPos(ins), fmt.Sprintf("%s discards the error returned by %s: a Lua error raised there would vanish instead of reaching the nearest protected call", fnKey(f), name))
		})
	}
	// (d) the message handler's first result is the error value: the continuation that
	// receives the handler's results keeps the first value pushed and ignores the rest
	// (a write-once latch: the store is guarded by a flag that the same path then sets)
	if push := p.Func("runtime", "(*messageHandlerCont).Push"); push != nil {
		gc := newGuardCtx(push)
		latched, found := false, false
		forEachInstr(push, func(ins ssa.Instruction) {
			st, ok := ins.(*ssa.Store)
			if !ok {
				return
			}
			fa, ok := st.Addr.(*ssa.FieldAddr)
			if !ok {
				return
			}
			if _, tn, fn := fieldOfAddr(fa); tn != "messageHandlerCont" || fn != "err" {
				return
			}
			found = true
			// guard: a test of another field of the receiver on every path to the store
			for _, ge := range gc.MustEdges(st.Block()) {
				cond := ge.If.Cond
				for {
					if u, ok := cond.(*ssa.UnOp); ok && u.Op == token.NOT {
						cond = u.X
						continue
					}
					break
				}
				u, ok := cond.(*ssa.UnOp)
				if !ok || u.Op != token.MUL {
					continue
				}
				gfa, ok := u.X.(*ssa.FieldAddr)
				if !ok || gfa.X != fa.X {
					continue
				}
				// the same flag is set on the path of the store
				forEachInstr(push, func(o ssa.Instruction) {
					if s2, ok := o.(*ssa.Store); ok {
						if f2, ok := s2.Addr.(*ssa.FieldAddr); ok && f2.X == fa.X && f2.Field == gfa.Field && (s2.Block() == st.Block() || st.Block().Dominates(s2.Block()) || s2.Block().Dominates(st.Block())) {
							latched = true
						}
					}
				})
			}
		})
		switch {
		case !found:
			r.broken("(*messageHandlerCont).Push no longer stores the handler's result (anchor moved?)")
		case latched:
			r.ok("(d) the message-handler continuation keeps the first value pushed (write-once latch)")
		default:
			r.fail("handler-result-not-first", p.Pos(push.Pos()), "(*messageHandlerCont).Push overwrites the stored value on every push: a message handler that returns several values has its last result, not its first, delivered as the error value of xpcall")
		}
	} else {
		r.broken("anchor unresolved: runtime.(*messageHandlerCont).Push")
	}
	r.count("error_returning_calls_checked", checked)
	r.count("errors_discarded_table_listed", dropped)
	r.floor("error_returning_calls_checked", 90)
	// ---- (b)
	run := p.Func("runtime", "(*LuaCont).RunInThread")
	if run == nil {
		r.broken("anchor unresolved: runtime.(*LuaCont).RunInThread")
		return r
	}
	nret, npc := 0, 0
	exc := 0
	forEachInstr(run, func(ins ssa.Instruction) {
		ret, ok := ins.(*ssa.Return)
		if !ok || len(ret.Results) != 2 || isNilConst(ret.Results[1]) {
			return
		}
		nret++
		// store to c.pc earlier in the same block or in a dominating block that has no other path in between
		has := false
		forEachInstr(run, func(x ssa.Instruction) {
			if st, ok := x.(*ssa.Store); ok && instrDominates(x, ins) {
				if fa, ok := st.Addr.(*ssa.FieldAddr); ok {
					if _, tn, fn := fieldOfAddr(fa); tn == "LuaCont" && fn == "pc" {
						has = true
					}
				}
			}
		})
		if has {
			npc++
			r.ok("")
			return
		}
		// which call produced the error?
		src := "?"
		for w := range backSlice(ret.Results[1], false) {
			if cl, ok := w.(*ssa.Call); ok {
				if cal := cl.Call.StaticCallee(); cal != nil {
					src = cal.Name()
				}
			}
		}
		if e, ok := pcStoreExceptions[src]; ok && exc < e.count {
			exc++
			r.Samples = append(r.Samples, "table: error from "+src+" returned without c.pc = pc — "+e.reason)
			r.ok("")
			return
		}
		r.fail("error-return-without-pc:"+src, p.InstrPos(ins), fmt.Sprintf("the interpreter loop returns an error (from %s) without first storing c.pc = pc: the message would be attributed to the line of whatever instruction last stored the program counter, not the responsible one", src))
	})
	r.count("error_returns_in_run_loop", nret)
	r.floor("error_returns_in_run_loop", 8)
	// ---- (c)
	gr := p.Func("runtime", "(*GoCont).RunInThread")
	if gr == nil {
		r.broken("anchor unresolved: runtime.(*GoCont).RunInThread")
		return r
	}
	var dispatch *ssa.Call
	forEachInstr(gr, func(ins ssa.Instruction) {
		if call, ok := ins.(*ssa.Call); ok && call.Call.StaticCallee() == nil && !call.Call.IsInvoke() {
			if _, isB := call.Call.Value.(*ssa.Builtin); !isB {
				dispatch = call
			}
		}
	})
	if dispatch == nil {
		r.broken("no dispatch call in (*GoCont).RunInThread")
		return r
	}
	// the error extracted from the dispatch is what the function returns (stored to the named result and not overwritten afterwards)
	var errEx *ssa.Extract
	for _, ref := range *dispatch.Referrers() {
		if ex, ok := ref.(*ssa.Extract); ok && ex.Index == 1 {
			errEx = ex
		}
	}
	okFlow := false
	if errEx != nil {
		for _, ref := range *errEx.Referrers() {
			if st, ok := ref.(*ssa.Store); ok {
				if al, ok := st.Addr.(*ssa.Alloc); ok {
					// no later store of something else to that alloc on the paths after the dispatch
					overwritten := false
					for _, r2 := range *al.Referrers() {
						if st2, ok := r2.(*ssa.Store); ok && st2 != st && st2.Addr == al && (instrDominates(st, st2) || blockReaches(st.Block(), st2.Block())) && st2.Block() != st.Block() {
							overwritten = true
						}
					}
					if !overwritten {
						okFlow = true
					}
				}
			}
			if _, ok := ref.(*ssa.Return); ok {
				okFlow = true
			}
		}
	}
	if okFlow {
		r.ok("(c) GoCont.RunInThread returns the Go function's error unchanged")
	} else {
		r.fail("gocont-error-altered", p.Pos(gr.Pos()), "(*GoCont).RunInThread no longer returns the error value the Go function produced (error(v) must deliver v itself to the nearest protected call)")
	}
	// (e) only string messages get the position prefix: in (*Error).AddContext the store
	// that replaces the message is behind the 'ok' of a conversion that can only say yes
	// to a string — a conversion that can format a number (it reaches strconv or fmt)
	// would turn error(42) into the string "chunk:1: 42"
	if ac := p.Func("runtime", "(*Error).AddContext"); ac == nil {
		r.broken("anchor unresolved: runtime.(*Error).AddContext")
	} else {
		formats := func(f *ssa.Function) string {
			seen := map[*ssa.Function]bool{}
			hit := ""
			var walk func(g *ssa.Function, d int)
			walk = func(g *ssa.Function, d int) {
				if g == nil || seen[g] || g.Blocks == nil || d > 3 {
					return
				}
				seen[g] = true
				forEachInstr(g, func(ins ssa.Instruction) {
					call, ok := ins.(ssa.CallInstruction)
					if !ok {
						return
					}
					cal := call.Common().StaticCallee()
					if cal == nil {
						return
					}
					if p.InModule(cal) {
						walk(cal, d+1)
						return
					}
					if n := fullName(cal); strings.HasPrefix(n, "strconv.") || strings.HasPrefix(n, "fmt.") {
						hit = n
					}
				})
			}
			walk(f, 0)
			return hit
		}
		nStores := 0
		gc := newGuardCtx(ac)
		forEachInstr(ac, func(ins ssa.Instruction) {
			st, ok := ins.(*ssa.Store)
			if !ok {
				return
			}
			fa, ok := st.Addr.(*ssa.FieldAddr)
			if !ok {
				return
			}
			if _, tn, fn := fieldOfAddr(fa); tn != "Error" || fn != "message" {
				return
			}
			// only the store of a freshly built string value (the prefixed message)
			fresh := false
			for w := range backSliceAllocs(st.Val, false) {
				if cl, ok := w.(*ssa.Call); ok && calleeNamed(cl, "StringValue") {
					fresh = true
				}
			}
			if !fresh {
				return
			}
			nStores++
			verdict := "the store is not behind the result of a conversion"
			for _, ge := range gc.MustEdges(ins.Block()) {
				for w := range backSlice(ge.If.Cond, false) {
					ex, ok := w.(*ssa.Extract)
					if !ok || ex.Index != 1 {
						continue
					}
					cl, ok := ex.Tuple.(*ssa.Call)
					if !ok {
						continue
					}
					cal := cl.Call.StaticCallee()
					if cal == nil {
						continue
					}
					if hit := formats(cal); hit != "" {
						verdict = fnKey(cal) + " can format a value that is not a string (it reaches " + hit + ")"
					} else {
						verdict = ""
					}
				}
			}
			if verdict == "" {
				r.ok("(e) AddContext prefixes the message only when a string-only conversion says it is a string")
			} else {
				r.fail("non-string-error-value-replaced", p.InstrPos(st), "(*Error).AddContext replaces the error value by a prefixed string, and "+verdict+": error(42) then reaches pcall as the string 'chunk:1: 42' instead of the number 42 — error(v) must deliver v itself unless v is a string")
			}
		})
		r.count("addcontext_message_rewrites", nStores)
		if nStores == 0 {
			r.broken("(*Error).AddContext no longer stores a prefixed message (anchor moved?)")
		}
	}
	return r
}

func hasRealReferrer(v ssa.Value) bool {
	refs := v.Referrers()
	if refs == nil {
		return false
	}
	for _, ref := range *refs {
		if _, isDbg := ref.(*ssa.DebugRef); isDbg {
			continue
		}
		return true
	}
	return false
}

func rulePool(c *Ctx) *RuleResult {
	r := newResult("R-POOL", "nothing is used after it went back to a pool, and nothing goes back while it can still be needed: (a) the pool release functions (goContPool.release, argsPool.release, luaContPool.release, regPool.release, cellPool.release, (*LuaCont).release) are called only from their known owner functions; (b) never from a deferred function (a deferred release also runs while a panic — termination, coroutine close — unwinds through a frame whose continuation is still referenced); (c) a GoCont and its argument slice are released only on the err == nil path; (d) after a release the released value is not used again in the function except to be returned")
	p := c.P
	owners := map[string]map[string]bool{
		"goContPool.release":  {"(*runtime.GoCont).RunInThread": true},
		"argsPool.release":    {"(*runtime.GoCont).RunInThread": true},
		"luaContPool.release": {"(*runtime.LuaCont).release": true},
		"regPool.release":     {"(*runtime.LuaCont).release": true},
		"cellPool.release":    {"(*runtime.LuaCont).release": true},
		"LuaCont.release":     {"(*runtime.LuaCont).RunInThread": true},
	}
	poolName := func(cal *ssa.Function) string {
		if cal == nil || cal.Name() != "release" || cal.Signature.Recv() == nil {
			return ""
		}
		_, tn, ok := namedOf(cal.Signature.Recv().Type())
		if !ok || relPkg(funcPkgPath(cal)) != "runtime" {
			return ""
		}
		switch tn {
		case "goContPool":
			return "goContPool.release"
		case "valuePool":
			return "" // decided by the field it is called through below
		case "luaContPool":
			return "luaContPool.release"
		case "cellPool":
			return "cellPool.release"
		case "LuaCont":
			return "LuaCont.release"
		}
		return tn + ".release"
	}
	n := 0
	for _, f := range p.ModFuncs() {
		if f.Blocks == nil || relPkg(funcPkgPath(f)) != "runtime" || f.Synthetic != "" {
			continue // synthetic: pointer-receiver wrappers of the value-receiver pools in the no-pool builds
		}
		forEachInstr(f, func(ins ssa.Instruction) {
			call, ok := ins.(ssa.CallInstruction)
			if !ok {
				return
			}
			cal := call.Common().StaticCallee()
			if cal == nil || cal.Name() != "release" || cal.Signature.Recv() == nil || relPkg(funcPkgPath(cal)) != "runtime" {
				return
			}
			pn := poolName(cal)
			if pn == "" {
				// valuePool is used for both the register pool and the args pool: name by field
				if fa, ok := call.Common().Args[0].(*ssa.FieldAddr); ok {
					_, _, fn := fieldOfAddr(fa)
					pn = fn + ".release"
				} else if u, ok := call.Common().Args[0].(*ssa.UnOp); ok {
					if fa, ok := u.X.(*ssa.FieldAddr); ok {
						_, _, fn := fieldOfAddr(fa)
						pn = fn + ".release"
					}
				}
			}
			n++
			owner := f
			deferred := false
			if _, isDefer := ins.(*ssa.Defer); isDefer {
				deferred = true
			}
			for owner.Parent() != nil {
				// inside a closure: is that closure deferred by its parent?
				par := owner.Parent()
				forEachInstr(par, func(pi ssa.Instruction) {
					if d, ok := pi.(*ssa.Defer); ok {
						if mc, ok := d.Call.Value.(*ssa.MakeClosure); ok && mc.Fn == owner {
							deferred = true
						}
					}
				})
				owner = par
			}
			if allowed, known := owners[pn]; known {
				if !allowed[fnKey(owner)] {
					r.fail("pool-release-foreign-caller:"+pn+":"+fnKey(owner), p.InstrPos(ins), fmt.Sprintf("%s calls %s; only %v may: a second release site can hand an object back while it is still referenced", fnKey(owner), pn, keysOf(allowed)))
					return
				}
			} else {
				r.fail("pool-release-unknown:"+pn+":"+fnKey(owner), p.InstrPos(ins), fmt.Sprintf("%s calls %s, a pool release the owner table does not know", fnKey(owner), pn))
				return
			}
			if deferred {
				r.fail("pool-release-deferred:"+pn+":"+fnKey(owner), p.InstrPos(ins), fmt.Sprintf("%s releases to %s from a deferred function: it also runs while a panic (context termination, coroutine close) unwinds through the frame, when the error result is still nil and the continuation is still referenced by the dying thread; the pooled build then differs from the unpooled one (zeroed continuation in tracebacks, reuse while live)", fnKey(owner), strings.TrimSuffix(pn, ".release")))
				return
			}
			// (c) GoCont: only when err == nil
			if strings.HasPrefix(pn, "goContPool") || strings.HasPrefix(pn, "argsPool") {
				gc := newGuardCtx(f)
				okErr := false
				for _, ge := range gc.MustEdges(ins.Block()) {
					if rel, ok := ge.Relation(); ok && rel.Op.String() == "==" && (isNilConst(rel.A) || isNilConst(rel.B)) {
						v := rel.A
						if isNilConst(rel.A) {
							v = rel.B
						}
						if isErrorType(v.Type()) {
							okErr = true
						}
					}
				}
				if !okErr {
					r.fail("pool-release-on-error-path:"+pn, p.InstrPos(ins), fmt.Sprintf("%s is reached without the err == nil test: on the error path the continuation is still needed for error handling (traceback, message handler)", pn))
					return
				}
			}
			// (d) no use after release (same function): the released value must not be used by any instruction reachable after
			released := call.Common().Args[len(call.Common().Args)-1]
			if pn == "LuaCont.release" {
				released = call.Common().Args[0]
			}
			usedAfter := ""
			idx := instrIndex(ins)
			var after []ssa.Instruction
			after = append(after, ins.Block().Instrs[idx+1:]...)
			seen := map[*ssa.BasicBlock]bool{}
			stack := append([]*ssa.BasicBlock(nil), ins.Block().Succs...)
			for len(stack) > 0 {
				b := stack[len(stack)-1]
				stack = stack[:len(stack)-1]
				if seen[b] || b == ins.Block() {
					continue
				}
				seen[b] = true
				after = append(after, b.Instrs...)
				stack = append(stack, b.Succs...)
			}
			if pn != "LuaCont.release" || true {
				for _, a := range after {
					if _, isRet := a.(*ssa.Return); isRet {
						continue
					}
					if _, isRD := a.(*ssa.RunDefers); isRD {
						continue
					}
					for _, op := range a.Operands(nil) {
						if op != nil && *op == released {
							if c2, ok := a.(ssa.CallInstruction); ok {
								if cal2 := c2.Common().StaticCallee(); cal2 != nil && cal2.Name() == "release" {
									continue // another release of a sibling resource taking the same receiver
								}
								if cal2 := c2.Common().StaticCallee(); cal2 != nil && (cal2.Name() == "ReleaseSize" || cal2.Name() == "ReleaseArrSize") {
									continue
								}
							}
							if _, isFA := a.(*ssa.FieldAddr); isFA && pn != "LuaCont.release" && pn != "goContPool.release" {
								continue
							}
							usedAfter = p.InstrPos(a)
						}
					}
				}
			}
			if usedAfter != "" && pn != "LuaCont.release" {
				// within (*LuaCont).release and GoCont.RunInThread the receiver is legitimately used to release sibling parts
				if fnKey(owner) == "(*runtime.LuaCont).release" {
					usedAfter = ""
				}
			}
			if usedAfter != "" {
				r.fail("use-after-release:"+pn+":"+fnKey(owner), p.InstrPos(ins), fmt.Sprintf("%s uses the value it handed to %s again at %s: the pool may already have given it to someone else", fnKey(owner), pn, usedAfter))
				return
			}
			r.ok(fmt.Sprintf("%s called from %s: owner, not deferred, no later use", pn, fnKey(owner)))
		})
	}
	r.count("pool_release_call_sites", n)
	if p.Config.Tags == "" {
		r.floor("pool_release_call_sites", 6)
	}
	// a register set goes back to a pool wiped: in the pooling builds the store of the
	// set into the pool is behind a loop over that set that stores the zero value into
	// every element, on every path. A set recycled with its old cells would make the
	// next function's locals alias whatever the previous user's cells were (upvalues of
	// its closure included) — a difference between the pooled and the unpooled builds
	nWipe := 0
	for _, name := range []string{"(*cellPool).release", "(*valuePool).release"} {
		f := p.Func("runtime", name)
		if f == nil || f.Blocks == nil {
			continue // the no-pool builds have value receivers and empty bodies
		}
		set := f.Params[1]
		var poolStores []*ssa.Store
		forEachInstr(f, func(ins ssa.Instruction) {
			st, ok := ins.(*ssa.Store)
			if !ok || stripConv(st.Val) != ssa.Value(set) {
				return
			}
			if _, ok := st.Addr.(*ssa.IndexAddr); ok {
				poolStores = append(poolStores, st)
			}
		})
		if len(poolStores) == 0 {
			continue
		}
		nWipe++
		// wiping stores: element of the set <- zero value
		var wipeBlocks []*ssa.BasicBlock
		forEachInstr(f, func(ins ssa.Instruction) {
			st, ok := ins.(*ssa.Store)
			if !ok {
				return
			}
			ia, ok := st.Addr.(*ssa.IndexAddr)
			if !ok || stripConv(ia.X) != ssa.Value(set) {
				return
			}
			if k, ok := st.Val.(*ssa.Const); ok && (k.Value == nil) {
				wipeBlocks = append(wipeBlocks, st.Block())
			}
		})
		okAll := len(wipeBlocks) > 0
		for _, ps := range poolStores {
			// the loop that wipes: its header (the unique predecessor region entry of the
			// wiping block that dominates it and is in a cycle with it) dominates the pool store
			dom := false
			for _, wb := range wipeBlocks {
				for h := wb; h != nil; h = h.Idom() {
					if blockReaches(wb, h) && h.Dominates(wb) && h != wb && h.Dominates(ps.Block()) {
						dom = true
					}
				}
			}
			if !dom {
				okAll = false
			}
		}
		if okAll {
			r.ok(fmt.Sprintf("%s wipes the register set before putting it into the pool, on every path", name))
		} else {
			r.fail("pool-set-not-wiped:"+name, p.Pos(f.Pos()), fmt.Sprintf("runtime.%s can put a register set into the pool without having stored the zero value into every element first: the next continuation that gets the set sees the previous user's cells or values, which the build without pools never does", name))
		}
	}
	r.count("pooling_release_functions", nWipe)
	return r
}

// rewrapTable: functions that deliberately return a new error built from a Lua error they received.
var rewrapTable = map[string]string{
	"(*runtime.Thread).RunContinuation->RunInThread": "the one designated place where the error a continuation returns is turned into a Lua error and given its position: ToError keeps an *Error as it is, AddContext prefixes once, and a handled error is returned unchanged",
}
