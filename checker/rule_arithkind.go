package main

import (
	"fmt"
	"go/token"
	"go/types"
	"sort"
	"strings"

	"golang.org/x/tools/go/ssa"
)

func init() { registerRule("R-ARITHKIND", false, ruleArithKind) }

// arithArm: what a success return of an arithmetic function computes.
type arithArm struct {
	ctor, op string
	pos      string
}

func ruleArithKind(c *Ctx) *RuleResult {
	r := newResult("R-ARITHKIND", "the type-dispatched arithmetic functions of the runtime have, arm by arm, the shape the manual prescribes: for each pair of operand kinds (integer/float, read with AsInt/AsFloat from the first and the second parameter in that order) the result is built by the constructor and the Go operator or helper of this reference table — Add/Sub/Mul: integer x integer stays an integer computed with + - * on int64 (which wraps modulo 2^64), every mixed or float pair is a float computed with the same operator; Div: always a float quotient; Idiv/Mod: integer pairs go to floordivInt/modInt, all others to floordivFloat/modFloat. The arithmetic inside the helpers is not examined")
	p := c.P
	type want struct {
		ii, other arithArm
	}
	ref := map[string]want{
		"Add":  {arithArm{ctor: "IntValue", op: "+"}, arithArm{ctor: "FloatValue", op: "+"}},
		"Sub":  {arithArm{ctor: "IntValue", op: "-"}, arithArm{ctor: "FloatValue", op: "-"}},
		"Mul":  {arithArm{ctor: "IntValue", op: "*"}, arithArm{ctor: "FloatValue", op: "*"}},
		"Div":  {arithArm{ctor: "FloatValue", op: "/"}, arithArm{ctor: "FloatValue", op: "/"}},
		"Idiv": {arithArm{ctor: "IntValue", op: "floordivInt"}, arithArm{ctor: "FloatValue", op: "floordivFloat"}},
		"Mod":  {arithArm{ctor: "IntValue", op: "modInt"}, arithArm{ctor: "FloatValue", op: "modFloat"}},
	}
	// comparisons: same kinds compare directly, mixed kinds go through the exact helpers
	// (a float64 conversion of the integer is not exact beyond 2^53)
	cmpRef := map[string][4]string{ // ii, if, fi, ff
		"numIsLessThan": {"<", "ltIntAndFloat", "ltFloatAndInt", "<"},
		"isLessThan":    {"<", "ltIntAndFloat", "ltFloatAndInt", "<"},
		"le":            {"<=", "leIntAndFloat", "leFloatAndInt", "<="},
	}
	for n, c4 := range cmpRef {
		ref[n] = want{}
		_ = c4
	}
	var names []string
	for n := range ref {
		names = append(names, n)
	}
	sort.Strings(names)
	for _, name := range names {
		f := p.Func("runtime", name)
		_, isCmp := cmpRef[name]
		if f == nil || len(f.Params) < 2 {
			r.broken("anchor unresolved: runtime.%s(x, y Value)", name)
			continue
		}
		xyParams := f.Params[len(f.Params)-2:]
		// kind of an operand expression and the parameter it comes from
		kindOf := func(v ssa.Value) (string, int) {
			kind, prm := "", -1
			for w := range backSlice(v, true) {
				call, ok := w.(*ssa.Call)
				if !ok {
					continue
				}
				cal := call.Call.StaticCallee()
				if cal == nil || len(call.Call.Args) == 0 {
					continue
				}
				var k string
				switch cal.Name() {
				case "AsInt":
					k = "i"
				case "AsFloat":
					k = "f"
				default:
					continue
				}
				if kind != "" && kind != k {
					return "?", -1
				}
				kind = k
				recv := stripConv(call.Call.Args[0])
				// a parameter whose address is taken is spilled to a local: look through the load
				if u, ok := recv.(*ssa.UnOp); ok && u.Op == token.MUL {
					if al, ok := u.X.(*ssa.Alloc); ok {
						for _, ref := range *al.Referrers() {
							if st, ok := ref.(*ssa.Store); ok && st.Addr == ssa.Value(al) {
								recv = st.Val
							}
						}
					}
				}
				for i, fp := range xyParams {
					if recv == ssa.Value(fp) {
						prm = i
					}
				}
			}
			return kind, prm
		}
		arms := map[string]arithArm{}
		problem := ""
		forEachInstr(f, func(ins ssa.Instruction) {
			ret, ok := ins.(*ssa.Return)
			if !ok || len(ret.Results) < 1 {
				return
			}
			ctor := ""
			var expr ssa.Value
			if isCmp {
				if _, isK := ret.Results[0].(*ssa.Const); isK {
					return // the 'not numbers' return
				}
				expr = ret.Results[0]
			} else {
				if len(ret.Results) < 2 {
					return
				}
				if k, isK := constInt(ret.Results[1]); !isK || k == 0 {
					return // not a success return
				}
				if len(ret.Results) == 3 && !isNilConst(ret.Results[2]) {
					return // error return (division by zero)
				}
				mk, ok := ret.Results[0].(*ssa.Call)
				if !ok || mk.Call.StaticCallee() == nil || len(mk.Call.Args) != 1 {
					problem = "a success return at " + p.InstrPos(ins) + " does not build its result with IntValue/FloatValue"
					return
				}
				ctor = mk.Call.StaticCallee().Name()
				expr = mk.Call.Args[0]
			}
			var a, b ssa.Value
			op := ""
			switch e := stripConv(expr).(type) {
			case *ssa.BinOp:
				a, b, op = e.X, e.Y, e.Op.String()
			case *ssa.Call:
				if cal := e.Call.StaticCallee(); cal != nil && len(e.Call.Args) == 2 {
					a, b, op = e.Call.Args[0], e.Call.Args[1], cal.Name()
				}
			}
			if op == "" {
				if isCmp {
					return // a metamethod result, Truth(res)
				}
				problem = "the value returned at " + p.InstrPos(ins) + " is neither a binary operation nor a two-argument helper call"
				return
			}
			ka, pa := kindOf(a)
			kb, pb := kindOf(b)
			if isCmp && ka == "" && kb == "" {
				return // the string comparison
			}
			if ka == "" || kb == "" || ka == "?" || kb == "?" {
				problem = "cannot tell the operand kinds of the return at " + p.InstrPos(ins)
				return
			}
			if pa != 0 || pb != 1 {
				arms[ka+kb+"!order"] = arithArm{ctor, op, p.InstrPos(ins)}
				return
			}
			arms[ka+kb] = arithArm{ctor, op, p.InstrPos(ins)}
		})
		if problem != "" {
			r.broken("runtime.%s: %s (shape not recognised; the reference table cannot be applied)", name, problem)
			continue
		}
		for ci, combo := range []string{"ii", "if", "fi", "ff"} {
			w := ref[name].other
			if combo == "ii" {
				w = ref[name].ii
			}
			if isCmp {
				w = arithArm{ctor: "", op: cmpRef[name][ci]}
			}
			got, ok := arms[combo]
			kinds := strings.NewReplacer("i", "integer ", "f", "float ").Replace(combo)
			switch {
			case !ok:
				if bad, swapped := arms[combo+"!order"]; swapped {
					r.fail("arith-operand-order:"+name+":"+combo, bad.pos, fmt.Sprintf("runtime.%s: for operands (%s) the Go operands are not (first parameter, second parameter) in that order: %s is not commutative for every one of these operations", name, strings.TrimSpace(kinds), bad.op))
				} else {
					r.fail("arith-arm-missing:"+name+":"+combo, p.Pos(f.Pos()), fmt.Sprintf("runtime.%s has no success return for operands (%s): that pair of numbers is reported as 'not a number' and goes to the metamethod fallback", name, strings.TrimSpace(kinds)))
				}
			case got.ctor != w.ctor || got.op != w.op:
				extra := ""
				if isCmp {
					extra = " (an integer and a float must be compared exactly: float64(n) rounds beyond 2^53)"
				}
				r.fail("arith-arm:"+name+":"+combo, got.pos, fmt.Sprintf("runtime.%s, operands (%s): the result is %s(… %s …); the manual's rule for this operation gives %s(… %s …)%s", name, strings.TrimSpace(kinds), got.ctor, got.op, w.ctor, w.op, extra))
			default:
				r.ok(fmt.Sprintf("runtime.%s (%s): %s(%s)", name, strings.TrimSpace(kinds), w.ctor, w.op))
			}
		}
	}
	// the helpers the mixed arms delegate to compare exactly: none of them orders the
	// operands after converting the integer to a float (float64(n) rounds beyond 2^53,
	// so math.maxinteger < 2^63 came out false)
	nh := 0
	for _, hn := range []string{"ltIntAndFloat", "ltFloatAndInt", "leIntAndFloat", "leFloatAndInt", "equalIntAndFloat"} {
		h := p.Func("runtime", hn)
		if h == nil {
			r.broken("anchor unresolved: runtime.%s", hn)
			continue
		}
		nh++
		var intParam ssa.Value
		for _, prm := range h.Params {
			if b, ok := prm.Type().Underlying().(*types.Basic); ok && b.Kind() == types.Int64 {
				intParam = prm
			}
		}
		badAt := ""
		forEachInstr(h, func(ins ssa.Instruction) {
			bo, ok := ins.(*ssa.BinOp)
			if !ok {
				return
			}
			switch bo.Op {
			case token.LSS, token.LEQ, token.GTR, token.GEQ, token.EQL, token.NEQ:
			default:
				return
			}
			for _, side := range []ssa.Value{bo.X, bo.Y} {
				cv, ok := side.(*ssa.Convert)
				if !ok {
					continue
				}
				if b, ok := cv.Type().Underlying().(*types.Basic); !ok || b.Info()&types.IsFloat == 0 {
					continue
				}
				if intParam != nil && backSliceAllocs(cv.X, false)[intParam] {
					badAt = p.InstrPos(ins)
				}
			}
		})
		if badAt == "" {
			r.ok("runtime." + hn + " does not compare its operands through float64(integer operand)")
		} else {
			r.fail("inexact-mixed-comparison:"+hn, badAt, "runtime."+hn+" compares after converting its integer operand to a float: beyond 2^53 the conversion rounds, so e.g. math.maxinteger < 2^63 (and <= against 2^63, and their mirrors) give the wrong answer; the integer must be compared with the floor or ceiling of the float, which are exact")
		}
	}
	r.count("exact_comparison_helpers", nh)
	return r
}
