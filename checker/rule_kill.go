package main

import (
	"fmt"
	"go/token"
	"go/types"
	"strings"

	"golang.org/x/tools/go/callgraph"
	"golang.org/x/tools/go/ssa"
)

func init() {
	registerRule("R-KILL", true, ruleKill)
}

// killOwners: the frames that are meant to stop a ContextTerminationError.
var killOwners = map[string]string{
	"(*runtime.Thread).CallContext": "the context boundary: turns the termination into the context's 'killed' status",
	"(*runtime.Thread).Start$1":     "coroutine goroutine: forwards the termination to the resumer through t.end (checked below)",
	"(*runtime.Thread).closeOnEnd":  "to-be-closed handlers of an ending coroutine: a termination raised by a handler is returned to Thread.end, which forwards it to the resumer",
	"(*runtime.Runtime).Close":      "closing the runtime",
	"runtime.DoInContext":           "deprecated helper deferring Runtime.Close",
	"(*..luaCmd).run":               "the golua command (host)",
	"(*..luaCmd).runChunk":          "the golua command (host)",
	"lib/golib.goCall":              "Go interop (declares no compliance flags: unreachable from a cpu-limited context)",
}

func ruleKill(c *Ctx) *RuleResult {
	r := newResult("R-KILL", "termination cannot be intercepted: (a) every frame whose deferred recover() would keep a runtime.ContextTerminationError (it swallows/converts everything, or type-asserts a type the error satisfies, e.g. `error`) is either one of the designated owners (CallContext, the coroutine goroutine, Runtime.Close) or has a protected region (the frame and everything it calls, through Lua dispatch too) that cannot reach (*runtimeContextManager).TerminateContext; (b) ContextTerminationError values are built only in methods of the context manager, and every function that panics with one stores status=Killed before panicking; (c) the coroutine forwarding chain Start.defer -> t.end(.., r) -> caller.sendResumeValues(.., exception) -> getResumeValues -> panic(exception) is intact (def-use of the recovered value at each hop); (d) CallContext's handler only truncates the close stack on the kill path (no Lua code runs there)")
	p := c.P
	cte := p.TypeNamed("runtime", "ContextTerminationError")
	if cte == nil {
		r.broken("anchor unresolved: runtime.ContextTerminationError")
		return r
	}
	terms := p.terminators()
	if len(terms) == 0 {
		r.broken("anchor unresolved: no function panics with a runtime.ContextTerminationError")
		return r
	}
	recs := collectRecovers(p)
	r.count("recover_frames", len(recs))
	r.floor("recover_frames", 12)
	ownersSeen := 0
	for _, ri := range recs {
		key := fnKey(ri.Frame)
		keeps := ri.accepts(cte)
		if !keeps {
			r.ok(fmt.Sprintf("%s re-panics ContextTerminationError (keeps only %s)", key, typeList(ri.Accepts)))
			continue
		}
		if why, ok := killOwners[key]; ok {
			ownersSeen++
			r.ok(fmt.Sprintf("owner %s: %s", key, why))
			continue
		}
		// region must not reach TerminateContext
		reach := &Reach{p: p, PreciseCallbacks: true}
		found := false
		var foundSt searchState
		var foundEdge *callgraph.Edge
		// do not cut the gated dispatch here: Lua code run under the frame counts
		visit := func(e *callgraph.Edge, cur searchState) {
			if terms[e.Callee.Func] && !found {
				found = true
				foundSt = cur
				foundEdge = e
			}
		}
		runUncut(reach, []*ssa.Function{ri.Frame}, visit)
		if !found {
			r.ok(fmt.Sprintf("%s keeps every panic value but its protected region cannot reach TerminateContext", key))
			continue
		}
		path := reach.PathTo(foundSt, foundEdge)
		if len(path) > 12 {
			path = append(path[:5], append([]string{"…"}, path[len(path)-6:]...)...)
		}
		what := "swallows or converts every recovered value"
		if !ri.AcceptAll {
			what = "keeps values of type " + typeList(ri.Accepts) + ", which ContextTerminationError satisfies"
		}
		r.fail("kill-intercepted:"+key, p.Pos(ri.Frame.Pos()), fmt.Sprintf("the deferred recover in %s %s, and code it protects can hit a resource limit: the termination of the context would be turned into an ordinary value and Lua code would keep running after the kill", key, what), path...)
	}
	r.count("designated_owner_frames", ownersSeen)
	r.floor("designated_owner_frames", 3)

	// (b) construction sites of ContextTerminationError: a local of that type
	// that is filled field by field (or left zero), not a copy of an existing value
	nctor := 0
	for _, f := range p.ModFuncs() {
		if f.Blocks == nil {
			continue
		}
		forEachInstr(f, func(ins ssa.Instruction) {
			al, ok := ins.(*ssa.Alloc)
			if !ok {
				return
			}
			pt, ok := al.Type().Underlying().(*types.Pointer)
			if !ok || !types.Identical(pt.Elem(), cte) {
				return
			}
			copyOf := false
			if al.Referrers() != nil {
				for _, ref := range *al.Referrers() {
					if st, ok := ref.(*ssa.Store); ok && st.Addr == al {
						copyOf = true
					}
				}
			}
			if copyOf {
				return
			}
			nctor++
			if f.Signature.Recv() != nil && strings.HasSuffix(f.Signature.Recv().Type().String(), "runtime.runtimeContextManager") {
				r.ok("ContextTerminationError built in " + fnKey(f) + ", a method of the context manager")
			} else {
				r.fail("cte-built-elsewhere:"+fnKey(f), p.InstrPos(ins), "a ContextTerminationError value is constructed outside the context manager's methods: a termination can be faked without the context being marked killed")
			}
		})
	}
	r.count("termination_error_constructions", nctor)
	r.floor("termination_error_constructions", 1)
	// status = Killed stored before the panic in every function that raises a termination (quota build)
	if p.Config.Tags != "noquotas" {
		for term := range terms {
			var store *ssa.Store
			var pan *ssa.Panic
			forEachInstr(term, func(ins ssa.Instruction) {
				switch x := ins.(type) {
				case *ssa.Store:
					if fa, ok := x.Addr.(*ssa.FieldAddr); ok {
						if _, tn, fn := fieldOfAddr(fa); tn == "runtimeContextManager" && fn == "status" {
							store = x
						}
					}
				case *ssa.Panic:
					pan = x
				}
			})
			if store != nil && pan != nil && instrDominates(store, pan) {
				r.ok(fnKey(term) + " stores status before panicking")
			} else {
				r.fail("terminate-status-order", p.Pos(term.Pos()), fnKey(term)+" does not store the context status before the panic on every path: a killed context could report another status")
			}
		}
	}

	// (c) forwarding chain
	checkForwardingChain(p, r)

	// (c') Thread.end runs Lua code (the pending __close handlers) only when no
	// termination is in flight: every call of end that can reach RunContinuation
	// lies on the exception == nil branch
	if end := p.Func("runtime", "(*Thread).end"); end != nil {
		runc := p.Func("runtime", "(*Thread).RunContinuation")
		exc := end.Params[len(end.Params)-1]
		n := 0
		forEachInstr(end, func(ins ssa.Instruction) {
			call, ok := ins.(*ssa.Call)
			if !ok {
				return
			}
			cal := call.Call.StaticCallee()
			if cal == nil || !p.InModule(cal) {
				return
			}
			reach := &Reach{p: p}
			hit := cal == runc
			runUncut(reach, []*ssa.Function{cal}, func(e *callgraph.Edge, cur searchState) {
				if e.Callee.Func == runc {
					hit = true
				}
			})
			if !hit {
				return
			}
			n++
			guarded := false
			gc := newGuardCtx(end)
			for _, ge := range gc.MustEdges(ins.Block()) {
				rel, ok := ge.Relation()
				if ok && rel.Op == token.EQL && ((rel.A == exc && isNilConst(rel.B)) || (rel.B == exc && isNilConst(rel.A))) {
					guarded = true
				}
			}
			if guarded {
				r.ok("Thread.end calls " + fnKey(cal) + " (runs Lua) only when no termination is in flight")
			} else {
				r.fail("end-runs-lua-after-kill:"+fnKey(cal), p.InstrPos(ins), "Thread.end calls "+fnKey(cal)+", which can run Lua code, also when the coroutine ends because its context was terminated: __close handlers would run after the kill, unmetered (TerminateContext is a no-op once the status is killed)")
			}
		})
		r.count("lua_running_calls_in_Thread.end", n)
	} else {
		r.broken("anchor unresolved: runtime.(*Thread).end")
	}

	// (d) CallContext kill path: between recover() != nil and the type test no
	// call that can run Lua code (only closeStack.truncate / PopContext)
	cc := p.Func("runtime", "(*Thread).CallContext")
	if cc == nil {
		r.broken("anchor unresolved: runtime.(*Thread).CallContext")
		return r
	}
	var handler *ssa.Function
	for _, af := range cc.AnonFuncs {
		has := false
		forEachInstr(af, func(ins ssa.Instruction) {
			if call, ok := ins.(*ssa.Call); ok {
				if b, ok := call.Call.Value.(*ssa.Builtin); ok && b.Name() == "recover" {
					has = true
				}
			}
		})
		if has {
			handler = af
		}
	}
	if handler == nil {
		r.broken("anchor unresolved: recover handler of CallContext")
		return r
	}
	runc := p.Func("runtime", "(*Thread).RunContinuation")
	bad := ""
	forEachInstr(handler, func(ins ssa.Instruction) {
		call, ok := ins.(*ssa.Call)
		if !ok {
			return
		}
		cal := call.Call.StaticCallee()
		if cal == nil || !p.InModule(cal) {
			return
		}
		// may this callee run Lua code?
		reach := &Reach{p: p}
		hit := false
		runUncut(reach, []*ssa.Function{cal}, func(e *callgraph.Edge, cur searchState) {
			if e.Callee.Func == runc {
				hit = true
			}
		})
		if hit || cal == runc {
			// PopContext may run finalizers of the popped context only when it is not
			// killed... it is called before recover(); accept PopContext by name with
			// the reason recorded, anything else is a finding
			if cal.Name() == "PopContext" {
				return
			}
			bad = fnKey(cal) + " at " + p.InstrPos(ins)
		}
	})
	if bad == "" {
		r.ok("CallContext's recover handler runs no Lua code on the kill path (only PopContext and closeStack.truncate)")
	} else {
		r.fail("callcontext-handler-runs-lua", p.Pos(handler.Pos()), "CallContext's recover handler calls "+bad+", which can run Lua code after the context was killed")
	}
	return r
}

// runUncut runs a reachability search that also follows the flag-gated
// dispatch edge (for questions about everything that can execute under a frame).
func runUncut(reach *Reach, srcs []*ssa.Function, visit func(e *callgraph.Edge, cur searchState)) {
	reach.FollowGated = true
	reach.Run(srcs, visit)
}

func typeList(ts []types.Type) string {
	var s []string
	for _, t := range ts {
		s = append(s, typeKey(t))
	}
	return strings.Join(s, ", ")
}

func checkForwardingChain(p *Program, r *RuleResult) {
	start := p.Func("runtime", "(*Thread).Start")
	end := p.Func("runtime", "(*Thread).end")
	send := p.Func("runtime", "(*Thread).sendResumeValues")
	get := p.Func("runtime", "(*Thread).getResumeValues")
	if start == nil || end == nil || send == nil || get == nil {
		r.broken("anchor unresolved: Thread.Start/end/sendResumeValues/getResumeValues")
		return
	}
	// hop 1: in Start's goroutine handler the recovered value reaches t.end's last argument
	hop1 := false
	var walk func(f *ssa.Function)
	walk = func(f *ssa.Function) {
		forEachInstr(f, func(ins ssa.Instruction) {
			if call, ok := ins.(ssa.CallInstruction); ok && call.Common().StaticCallee() == end {
				args := call.Common().Args
				if derivesFromRecover(args[len(args)-1], 0) {
					hop1 = true
				}
			}
		})
		for _, af := range f.AnonFuncs {
			walk(af)
		}
	}
	walk(start)
	// hop 2: end passes its exception parameter to sendResumeValues's exception argument
	hop2 := false
	forEachInstr(end, func(ins ssa.Instruction) {
		if call, ok := ins.(ssa.CallInstruction); ok && call.Common().StaticCallee() == send {
			args := call.Common().Args
			for v := range backSlice(args[len(args)-1], false) {
				if v == end.Params[len(end.Params)-1] {
					hop2 = true
				}
			}
		}
	})
	// hop 3: sendResumeValues puts its exception parameter into the value sent on the channel
	hop3 := false
	forEachInstr(send, func(ins ssa.Instruction) {
		if s, ok := ins.(*ssa.Send); ok {
			for v := range backSlice(s.X, false) {
				if v == send.Params[len(send.Params)-1] {
					hop3 = true
				}
			}
			// struct built in an Alloc: look at stores into it
			if u, ok := s.X.(*ssa.UnOp); ok {
				if al, ok := u.X.(*ssa.Alloc); ok {
					for _, ref := range *al.Referrers() {
						if fa, ok := ref.(*ssa.FieldAddr); ok {
							for _, fr := range *fa.Referrers() {
								if st, ok := fr.(*ssa.Store); ok && st.Val == send.Params[len(send.Params)-1] {
									hop3 = true
								}
							}
						}
					}
				}
			}
		}
	})
	// hop 4: getResumeValues panics with the exception field of what it received
	hop4 := false
	forEachInstr(get, func(ins ssa.Instruction) {
		if pn, ok := ins.(*ssa.Panic); ok {
			for v := range backSlice(pn.X, false) {
				if u, ok := v.(*ssa.UnOp); ok && u.Op == token.ARROW {
					hop4 = true
				}
				if al, ok := v.(*ssa.Alloc); ok {
					for _, ref := range *al.Referrers() {
						if st, ok := ref.(*ssa.Store); ok && st.Addr == al {
							if u, ok := st.Val.(*ssa.UnOp); ok && u.Op == token.ARROW {
								hop4 = true
							}
						}
					}
				}
			}
		}
	})
	// hop 2b: where end obtains the exception from a helper (closeOnEnd: the pending
	// __close handlers run first and may themselves hit the limit), the helper's result
	// that feeds the exception carries the value it recovered
	forEachInstr(end, func(ins ssa.Instruction) {
		call, ok := ins.(ssa.CallInstruction)
		if !ok || call.Common().StaticCallee() != send {
			return
		}
		args := call.Common().Args
		for v := range backSlice(args[len(args)-1], false) {
			ex, ok := v.(*ssa.Extract)
			if !ok {
				continue
			}
			hc, ok := ex.Tuple.(*ssa.Call)
			if !ok {
				continue
			}
			h := hc.Call.StaticCallee()
			if h == nil || !p.InModule(h) || h.Blocks == nil {
				continue
			}
			// the result slot: the Alloc that the helper's returns load result #ex.Index from
			var slot *ssa.Alloc
			forEachInstr(h, func(hi ssa.Instruction) {
				if ret, ok := hi.(*ssa.Return); ok && ex.Index < len(ret.Results) {
					if u, ok := ret.Results[ex.Index].(*ssa.UnOp); ok {
						if al, ok := u.X.(*ssa.Alloc); ok {
							slot = al
						}
					}
				}
			})
			forwards := false
			if slot != nil {
				forEachInstr(h, func(hi ssa.Instruction) {
					mc, ok := hi.(*ssa.MakeClosure)
					if !ok {
						return
					}
					fn := mc.Fn.(*ssa.Function)
					for bi, b := range mc.Bindings {
						if b != ssa.Value(slot) || bi >= len(fn.FreeVars) {
							continue
						}
						fv := fn.FreeVars[bi]
						for _, ref := range *fv.Referrers() {
							if st, ok := ref.(*ssa.Store); ok && st.Addr == ssa.Value(fv) && derivesFromRecover(st.Val, 0) {
								forwards = true
							}
						}
					}
				})
			}
			if forwards {
				r.ok("forwarding chain: " + fnKey(h) + " hands the termination it recovered to Thread.end as the exception")
			} else {
				r.fail("forwarding-chain-helper:"+fnKey(h), p.Pos(h.Pos()), fmt.Sprintf("Thread.end takes the exception it forwards to the resumer from result #%d of %s, but that result never receives the value the helper recovers: a context killed while the ending coroutine's __close handlers run is reported to the resumer as an ordinary error, and the resumer carries on in a context that is already marked killed (its limits no longer enforced)", ex.Index, fnKey(h)))
			}
		}
	})
	for i, ok := range []bool{hop1, hop2, hop3, hop4} {
		name := []string{"Start's handler hands the recovered value to t.end", "t.end passes its exception parameter to caller.sendResumeValues", "sendResumeValues sends its exception parameter on the resume channel", "getResumeValues panics with the exception it received"}[i]
		if ok {
			r.ok("forwarding chain: " + name)
		} else {
			r.fail(fmt.Sprintf("forwarding-chain-hop%d", i+1), "runtime/thread.go", "the chain that forwards a termination from a coroutine's goroutine to its resumer is broken: "+name+" no longer holds, so a kill inside a coroutine would not stop the resumer")
		}
	}
}
