package main

import (
	"go/types"
	"sort"

	"golang.org/x/tools/go/callgraph"
	"golang.org/x/tools/go/ssa"
)

// gatedDispatchEdge reports whether e is the dynamic call c.f(t, c) in
// (*GoCont).RunInThread: the one edge the reachability rules cut, because
// R-GATE proves it is dominated by the compliance-flag check, so a callee
// reached that way is judged on its own declaration.
func (p *Program) isGatedDispatch(e *callgraph.Edge) bool {
	if e.Site == nil || e.Caller == nil {
		return false
	}
	f := e.Caller.Func
	if !isMethodOf(f, "runtime", "GoCont", "RunInThread") {
		return false
	}
	return e.Site.Common().StaticCallee() == nil && !e.Site.Common().IsInvoke()
}

func edgeIsStatic(e *callgraph.Edge) bool {
	return e.Site != nil && e.Site.Common().StaticCallee() != nil
}

type searchMode int

const (
	modeModule searchMode = iota
	modeExtStatic
	modeExtDynamic
)

type searchState struct {
	fn   *ssa.Function
	mode searchMode
	// entry: for external modes, the module function that called into the
	// standard library (used to filter callbacks back into module code).
	entry *ssa.Function
}

type searchHop struct {
	prev  searchState
	edge  *callgraph.Edge
	valid bool
}

// Reach is a reachability query over the VTA call graph.
type Reach struct {
	p *Program
	// Skip: do not traverse into this function (callee).
	Skip func(callee *ssa.Function) bool
	// CutEdge: ignore this edge entirely.
	CutEdge func(e *callgraph.Edge) bool
	// PreciseCallbacks: a call from standard-library code back into a module
	// function g is followed only if the module function that entered the
	// library can have supplied g (it references g, materialises g's receiver
	// type, or has interface/function-typed parameters it may be forwarding).
	PreciseCallbacks bool
	TrackEntry       bool
	// FollowGated: also follow the flag-gated dispatch c.f(t,c) (for questions
	// about everything that can execute under a frame, whatever its flags).
	FollowGated bool
	prev        map[searchState]searchHop
	order       []searchState
}

// Run explores from the given sources. visit is called for each edge whose
// caller has been reached, with the caller's mode.
func (r *Reach) Run(sources []*ssa.Function, visit func(e *callgraph.Edge, caller searchState)) {
	g := r.p.CallGraph()
	r.prev = map[searchState]searchHop{}
	var queue []searchState
	for _, s := range sources {
		st := searchState{fn: s, mode: modeModule}
		if _, ok := r.prev[st]; !ok {
			r.prev[st] = searchHop{}
			queue = append(queue, st)
		}
	}
	for len(queue) > 0 {
		cur := queue[0]
		queue = queue[1:]
		r.order = append(r.order, cur)
		n := g.Nodes[cur.fn]
		if n == nil {
			continue
		}
		out := append([]*callgraph.Edge(nil), n.Out...)
		sort.SliceStable(out, func(i, j int) bool {
			return fnKey(out[i].Callee.Func) < fnKey(out[j].Callee.Func)
		})
		for _, e := range out {
			if r.CutEdge != nil && r.CutEdge(e) {
				continue
			}
			if !r.FollowGated && r.p.isGatedDispatch(e) {
				continue
			}
			callee := e.Callee.Func
			if visit != nil {
				visit(e, cur)
			}
			if r.Skip != nil && r.Skip(callee) {
				continue
			}
			var m searchMode
			var entry *ssa.Function
			switch {
			case r.p.InModule(callee):
				m = modeModule
				if cur.mode != modeModule && r.PreciseCallbacks && !r.p.mayCallBack(cur.entry, callee) {
					continue // a callback the entering module function cannot have supplied
				}
			case cur.mode == modeExtDynamic:
				m = modeExtDynamic
				entry = cur.entry
			case edgeIsStatic(e):
				m = modeExtStatic
				entry = cur.entry
			default:
				m = modeExtDynamic
				entry = cur.entry
			}
			if cur.mode == modeModule && m != modeModule {
				entry = cur.fn
			}
			if !r.PreciseCallbacks && !r.TrackEntry {
				entry = nil // fewer states when nobody needs the entering function
			}
			st := searchState{callee, m, entry}
			if _, ok := r.prev[st]; !ok {
				r.prev[st] = searchHop{prev: cur, edge: e, valid: true}
				queue = append(queue, st)
			}
		}
	}
}

// PathTo reconstructs the hops from a source to the given state, then the
// final edge, as printable lines.
func (r *Reach) PathTo(st searchState, last *callgraph.Edge) []string {
	var hops []*callgraph.Edge
	if last != nil {
		hops = append(hops, last)
	}
	for {
		h, ok := r.prev[st]
		if !ok || !h.valid {
			break
		}
		hops = append(hops, h.edge)
		st = h.prev
	}
	var out []string
	for i := len(hops) - 1; i >= 0; i-- {
		e := hops[i]
		pos := "?"
		if e.Site != nil {
			pos = r.p.InstrPos(e.Site)
		}
		out = append(out, fnKey(e.Caller.Func)+" -> "+calleeName(r.p, e.Callee.Func)+"   ["+pos+"]")
	}
	return out
}

func calleeName(p *Program, f *ssa.Function) string {
	if p.InModule(f) {
		return fnKey(f)
	}
	return fullName(f)
}

// ReachedModuleFuncs returns the module functions reached, sorted.
func (r *Reach) ReachedModuleFuncs() []*ssa.Function {
	seen := map[*ssa.Function]bool{}
	var out []*ssa.Function
	for st := range r.prev {
		if st.mode == modeModule && !seen[st.fn] {
			seen[st.fn] = true
			out = append(out, st.fn)
		}
	}
	sort.Slice(out, func(i, j int) bool { return fnKey(out[i]) < fnKey(out[j]) })
	return out
}

func (r *Reach) Reached(f *ssa.Function) bool {
	for st := range r.prev {
		if st.fn == f {
			return true
		}
	}
	return false
}

var siteCalleeIndex map[ssa.CallInstruction][]*ssa.Function

// CalleesAt returns the call graph's callees of a call site (dynamic calls
// resolved by VTA).
func (p *Program) CalleesAt(site ssa.CallInstruction) []*ssa.Function {
	if siteCalleeIndex == nil {
		siteCalleeIndex = map[ssa.CallInstruction][]*ssa.Function{}
		for _, n := range p.CallGraph().Nodes {
			for _, e := range n.Out {
				if e.Site != nil {
					siteCalleeIndex[e.Site] = append(siteCalleeIndex[e.Site], e.Callee.Func)
				}
			}
		}
	}
	return siteCalleeIndex[site]
}

var callbackCache = map[*ssa.Function]*callbackInfo{}

type callbackInfo struct {
	funcs    map[*ssa.Function]bool
	types    map[string]bool
	forwards bool
	anyIface bool // converts some value to an interface or re-types one
}

func (p *Program) callbackInfoOf(f *ssa.Function) *callbackInfo {
	if ci, ok := callbackCache[f]; ok {
		return ci
	}
	ci := &callbackInfo{funcs: map[*ssa.Function]bool{}, types: map[string]bool{}}
	callbackCache[f] = ci
	for _, prm := range f.Params {
		switch prm.Type().Underlying().(type) {
		case *types.Interface, *types.Signature:
			ci.forwards = true
		}
	}
	for _, fv := range f.FreeVars {
		switch fv.Type().Underlying().(type) {
		case *types.Interface, *types.Signature:
			ci.forwards = true
		}
	}
	var addType func(t types.Type, depth int)
	addType = func(t types.Type, depth int) {
		if t == nil || depth > 4 {
			return
		}
		if rel, name, ok := namedOf(t); ok {
			k := rel + "." + name
			if ci.types[k] && depth > 0 {
				return
			}
			ci.types[k] = true
		}
		switch u := t.Underlying().(type) {
		case *types.Pointer:
			addType(u.Elem(), depth+1)
		case *types.Struct:
			for i := 0; i < u.NumFields(); i++ {
				addType(u.Field(i).Type(), depth+1)
			}
		case *types.Slice:
			addType(u.Elem(), depth+1)
		case *types.Array:
			addType(u.Elem(), depth+1)
		case *types.Map:
			addType(u.Key(), depth+1)
			addType(u.Elem(), depth+1)
		}
	}
	var scan func(g *ssa.Function)
	scan = func(g *ssa.Function) {
		forEachInstr(g, func(ins ssa.Instruction) {
			for _, op := range ins.Operands(nil) {
				if op == nil || *op == nil {
					continue
				}
				switch v := (*op).(type) {
				case *ssa.Function:
					ci.funcs[v] = true
				case *ssa.MakeClosure:
					ci.funcs[v.Fn.(*ssa.Function)] = true
				}
			}
			switch x := ins.(type) {
			case *ssa.MakeClosure:
				ci.funcs[x.Fn.(*ssa.Function)] = true
			case *ssa.MakeInterface:
				// a concrete value handed to someone as an interface: its methods
				// (and those of what it contains) may be called back
				addType(x.X.Type(), 0)
				ci.anyIface = true
			case *ssa.ChangeInterface:
				// an interface value re-typed as another interface: the dynamic
				// type was put there by someone else; covered by the
				// reflection-callback list and by that someone's own MakeInterface
				ci.anyIface = true
			}
		})
		for _, af := range g.AnonFuncs {
			ci.funcs[af] = true
			scan(af)
		}
	}
	scan(f)
	return ci
}

// mayCallBack: can the module function `entry`, having called into the
// standard library, be the origin of a callback to module function g?
func (p *Program) mayCallBack(entry, g *ssa.Function) bool {
	return p.mayCallBackMode(entry, g, true)
}

// mayCallBackMode: with conservative=false the reflection-callback fallback
// (String/Error methods of values hidden inside interface-typed fields) is not
// applied; only types the entering function itself converts to an interface
// (and what they structurally contain) count.
func (p *Program) mayCallBackMode(entry, g *ssa.Function, conservative bool) bool {
	if entry == nil {
		return true
	}
	ci := p.callbackInfoOf(entry)
	if ci.forwards {
		return true
	}
	// reflection-driven callbacks (fmt and friends call these on values nested
	// anywhere inside their operands, including inside interface-typed fields)
	switch g.Name() {
	case "String", "Error", "GoString", "Format", "MarshalJSON", "MarshalText", "UnmarshalJSON", "UnmarshalText":
		// allowed when the entering function hands over some interface value at
		// all (fmt-style APIs); g == entry itself needs its own type handed over
		if conservative && g.Signature.Recv() != nil && g != entry && ci.anyIface {
			return true
		}
	}
	for h := g; h != nil; h = h.Parent() {
		if ci.funcs[h] {
			return true
		}
	}
	if recv := g.Signature.Recv(); recv != nil {
		if rel, name, ok := namedOf(recv.Type()); ok && ci.types[rel+"."+name] {
			return true
		}
	}
	return false
}
