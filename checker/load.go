package main

import (
	"fmt"
	"go/token"
	"go/types"
	"os"
	"sort"
	"strings"

	"golang.org/x/tools/go/callgraph"
	"golang.org/x/tools/go/callgraph/cha"
	"golang.org/x/tools/go/callgraph/vta"
	"golang.org/x/tools/go/packages"
	"golang.org/x/tools/go/ssa"
	"golang.org/x/tools/go/ssa/ssautil"
)

const modPath = "github.com/arnodel/golua"

// BuildConfig is one of the build configurations a check is run under.
type BuildConfig struct {
	Name string
	Tags string
	GOOS string
}

var allConfigs = []BuildConfig{
	{Name: "default"},
	{Name: "noquotas", Tags: "noquotas"},
	{Name: "noregpool", Tags: "noregpool"},
	{Name: "nocontpool", Tags: "nocontpool"},
	{Name: "noregpool+nocontpool", Tags: "noregpool,nocontpool"},
	{Name: "safepool", Tags: "safepool"},
	{Name: "windows", GOOS: "windows"},
}

func configByName(n string) (BuildConfig, bool) {
	for _, c := range allConfigs {
		if c.Name == n {
			return c, true
		}
	}
	return BuildConfig{}, false
}

// Program is the loaded, type-checked, SSA-built repository.
type Program struct {
	Config   BuildConfig
	RepoDir  string
	Fset     *token.FileSet
	Pkgs     []*packages.Package // module packages only
	AllPkgs  map[string]*packages.Package
	SSA      *ssa.Program
	SSAPkgs  map[string]*ssa.Package // by import path
	AllFuncs map[*ssa.Function]bool
	cg       *callgraph.Graph
	modFuncs []*ssa.Function
}

func repoDir() string {
	if d := os.Getenv("LUAVERIF_REPO"); d != "" {
		return d
	}
	return "/repo"
}

// Load loads ./... of the repository under the given configuration. Any type
// error or an implausibly small package count is a fatal (broken check, never a
// pass).
func Load(cfg BuildConfig, needSSA bool) (*Program, error) {
	dir := repoDir()
	env := []string{}
	for _, e := range os.Environ() {
		if strings.HasPrefix(e, "GOWORK=") || strings.HasPrefix(e, "GOFLAGS=") || strings.HasPrefix(e, "GOOS=") {
			continue
		}
		env = append(env, e)
	}
	env = append(env, "GOFLAGS=-mod=mod", "GOPROXY=off", "GOSUMDB=off", "GOTOOLCHAIN=local", "GOWORK=off")
	if cfg.GOOS != "" {
		env = append(env, "GOOS="+cfg.GOOS)
	}
	pcfg := &packages.Config{
		Mode: packages.LoadAllSyntax,
		Dir:  dir,
		Env:  env,
	}
	if cfg.Tags != "" {
		pcfg.BuildFlags = []string{"-tags=" + cfg.Tags}
	}
	pkgs, err := packages.Load(pcfg, "./...")
	if err != nil {
		return nil, fmt.Errorf("packages.Load: %v", err)
	}
	var errs []string
	packages.Visit(pkgs, nil, func(p *packages.Package) {
		for _, e := range p.Errors {
			errs = append(errs, p.PkgPath+": "+e.Error())
		}
	})
	if len(errs) > 0 {
		sort.Strings(errs)
		if len(errs) > 10 {
			errs = errs[:10]
		}
		return nil, fmt.Errorf("type/load errors in configuration %s:\n  %s", cfg.Name, strings.Join(errs, "\n  "))
	}
	p := &Program{Config: cfg, RepoDir: dir, AllPkgs: map[string]*packages.Package{}, SSAPkgs: map[string]*ssa.Package{}}
	for _, pk := range pkgs {
		if pk.PkgPath == modPath || strings.HasPrefix(pk.PkgPath, modPath+"/") {
			p.Pkgs = append(p.Pkgs, pk)
		}
	}
	packages.Visit(pkgs, nil, func(pk *packages.Package) { p.AllPkgs[pk.PkgPath] = pk })
	if len(p.Pkgs) < 30 {
		return nil, fmt.Errorf("only %d module packages loaded from %s (expected >= 30)", len(p.Pkgs), dir)
	}
	sort.Slice(p.Pkgs, func(i, j int) bool { return p.Pkgs[i].PkgPath < p.Pkgs[j].PkgPath })
	p.Fset = pkgs[0].Fset
	if !needSSA {
		return p, nil
	}
	prog, _ := ssautil.AllPackages(pkgs, ssa.InstantiateGenerics)
	prog.Build()
	p.SSA = prog
	for _, sp := range prog.AllPackages() {
		p.SSAPkgs[sp.Pkg.Path()] = sp
	}
	p.AllFuncs = ssautil.AllFunctions(prog)
	for f := range p.AllFuncs {
		if p.InModule(f) {
			p.modFuncs = append(p.modFuncs, f)
		}
	}
	sort.Slice(p.modFuncs, func(i, j int) bool { return fnKey(p.modFuncs[i]) < fnKey(p.modFuncs[j]) })
	return p, nil
}

// CallGraph builds (once) the VTA call graph seeded with CHA.
func (p *Program) CallGraph() *callgraph.Graph {
	if p.cg == nil {
		p.cg = vta.CallGraph(p.AllFuncs, cha.CallGraph(p.SSA))
	}
	return p.cg
}

// ModFuncs returns all SSA functions (including closures and wrappers) that
// belong to the golua module, sorted by key.
func (p *Program) ModFuncs() []*ssa.Function { return p.modFuncs }

func funcPkgPath(f *ssa.Function) string {
	for f.Parent() != nil {
		f = f.Parent()
	}
	if f.Pkg != nil {
		return f.Pkg.Pkg.Path()
	}
	if o := f.Object(); o != nil && o.Pkg() != nil {
		return o.Pkg().Path()
	}
	if f.Origin() != nil {
		return funcPkgPath(f.Origin())
	}
	return ""
}

func (p *Program) InModule(f *ssa.Function) bool {
	pp := funcPkgPath(f)
	return pp == modPath || strings.HasPrefix(pp, modPath+"/")
}

// relPkg strips the module prefix: "runtime", "lib/base", "" for the root.
func relPkg(path string) string {
	if path == modPath {
		return "."
	}
	return strings.TrimPrefix(path, modPath+"/")
}

// fnKey is a stable, line-free name for a function: relpkg.(*T).M, relpkg.F,
// relpkg.F$1 for closures.
func fnKey(f *ssa.Function) string {
	if f == nil {
		return "<nil>"
	}
	s := f.String()
	s = strings.ReplaceAll(s, modPath+"/", "")
	s = strings.ReplaceAll(s, modPath, ".")
	return s
}

// Func finds a function or method by package (relative) and name, e.g.
// Func("runtime", "(*GoCont).RunInThread") or Func("safeio", "OpenFile").
func (p *Program) Func(rel, name string) *ssa.Function {
	path := modPath + "/" + rel
	if rel == "." {
		path = modPath
	}
	sp := p.SSAPkgs[path]
	if sp == nil {
		return nil
	}
	if strings.HasPrefix(name, "(") {
		// method: (*T).M or (T).M
		i := strings.Index(name, ").")
		recv := name[1:i]
		meth := name[i+2:]
		ptr := strings.HasPrefix(recv, "*")
		recv = strings.TrimPrefix(recv, "*")
		tn, _ := sp.Pkg.Scope().Lookup(recv).(*types.TypeName)
		if tn == nil {
			return nil
		}
		var t types.Type = tn.Type()
		if ptr {
			t = types.NewPointer(t)
		}
		ms := p.SSA.MethodSets.MethodSet(t)
		for i := 0; i < ms.Len(); i++ {
			sel := ms.At(i)
			if sel.Obj().Name() == meth {
				fn := p.SSA.MethodValue(sel)
				// unwrap promoted-method wrappers only if declared on T itself
				return fn
			}
		}
		return nil
	}
	if i := strings.Index(name, "$"); i >= 0 {
		parent := p.Func(rel, name[:i])
		if parent == nil {
			return nil
		}
		for _, af := range parent.AnonFuncs {
			if af.Name() == name {
				return af
			}
		}
		return nil
	}
	return sp.Func(name)
}

func (p *Program) Pos(pos token.Pos) string {
	if !pos.IsValid() {
		return "?"
	}
	ps := p.Fset.Position(pos)
	fn := ps.Filename
	if strings.HasPrefix(fn, p.RepoDir+"/") {
		fn = fn[len(p.RepoDir)+1:]
	}
	return fmt.Sprintf("%s:%d", fn, ps.Line)
}

// instrPos returns a usable position for an instruction (falls back to the
// enclosing function's position).
func (p *Program) InstrPos(i ssa.Instruction) string {
	if i.Pos().IsValid() {
		return p.Pos(i.Pos())
	}
	if c, ok := i.(ssa.CallInstruction); ok {
		if c.Common().Pos().IsValid() {
			return p.Pos(c.Common().Pos())
		}
	}
	if i.Parent() != nil {
		return p.Pos(i.Parent().Pos()) + "(func)"
	}
	return "?"
}

// Type lookups ----------------------------------------------------------------

func (p *Program) TypeNamed(rel, name string) *types.Named {
	path := modPath + "/" + rel
	pk := p.AllPkgs[path]
	if pk == nil || pk.Types == nil {
		return nil
	}
	o := pk.Types.Scope().Lookup(name)
	if o == nil {
		return nil
	}
	n, _ := o.Type().(*types.Named)
	return n
}

func (p *Program) Pkg(rel string) *packages.Package {
	if rel == "." {
		return p.AllPkgs[modPath]
	}
	return p.AllPkgs[modPath+"/"+rel]
}

// calleeOf returns the statically known callee of a call instruction, or nil.
func calleeOf(c ssa.CallInstruction) *ssa.Function {
	return c.Common().StaticCallee()
}

// isMethod reports whether f is the method `name` whose receiver's named type is
// relpkg.typeName (pointer or value receiver).
func isMethodOf(f *ssa.Function, rel, typeName, name string) bool {
	if f == nil || f.Signature.Recv() == nil || f.Name() != name {
		return false
	}
	t := f.Signature.Recv().Type()
	if pt, ok := t.(*types.Pointer); ok {
		t = pt.Elem()
	}
	n, ok := t.(*types.Named)
	if !ok || n.Obj().Pkg() == nil {
		return false
	}
	return n.Obj().Name() == typeName && relPkg(n.Obj().Pkg().Path()) == rel
}

func isFuncOf(f *ssa.Function, rel, name string) bool {
	if f == nil || f.Signature.Recv() != nil || f.Name() != name || f.Parent() != nil {
		return false
	}
	return relPkg(funcPkgPath(f)) == rel
}

// namedOf returns the (relpkg, name) of a possibly-pointer named type.
func namedOf(t types.Type) (string, string, bool) {
	if pt, ok := t.(*types.Pointer); ok {
		t = pt.Elem()
	}
	n, ok := t.(*types.Named)
	if !ok {
		return "", "", false
	}
	if n.Obj().Pkg() == nil {
		return "", n.Obj().Name(), true
	}
	return relPkg(n.Obj().Pkg().Path()), n.Obj().Name(), true
}

// fullName of an external function, e.g. "os.Open", "(*os/exec.Cmd).Start".
func fullName(f *ssa.Function) string {
	if f == nil {
		return ""
	}
	if o := f.Object(); o != nil {
		if fo, ok := o.(*types.Func); ok {
			return fo.FullName()
		}
	}
	return f.String()
}
