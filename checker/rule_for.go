package main

import (
	"fmt"
	"go/constant"
	"go/token"
	"go/types"
	"strings"

	"golang.org/x/tools/go/ssa"
)

func init() {
	registerRule("R-PRIVREG", false, rulePrivReg)
	registerRule("R-FOR", false, ruleFor)
}

// resolveThroughClosure: follow a value through closure free variables and
// local allocs back to what produced it; returns the producing values.
func producers(v ssa.Value, depth int, seen map[ssa.Value]bool, out *[]ssa.Value) {
	if v == nil || seen[v] || depth > 10 {
		return
	}
	seen[v] = true
	switch x := v.(type) {
	case *ssa.FreeVar:
		fn := x.Parent()
		idx := -1
		for i, fv := range fn.FreeVars {
			if fv == x {
				idx = i
			}
		}
		// find MakeClosure of fn in the parent
		if par := fn.Parent(); par != nil && idx >= 0 {
			forEachInstr(par, func(ins ssa.Instruction) {
				if mc, ok := ins.(*ssa.MakeClosure); ok && mc.Fn == fn && idx < len(mc.Bindings) {
					producers(mc.Bindings[idx], depth+1, seen, out)
				}
			})
		}
	case *ssa.UnOp:
		if x.Op == token.MUL {
			producers(x.X, depth+1, seen, out)
			return
		}
		*out = append(*out, v)
	case *ssa.Alloc:
		for _, ref := range *x.Referrers() {
			if st, ok := ref.(*ssa.Store); ok && st.Addr == x {
				producers(st.Val, depth+1, seen, out)
			}
		}
	case *ssa.Phi:
		for _, e := range x.Edges {
			producers(e, depth+1, seen, out)
		}
	case *ssa.ChangeType:
		producers(x.X, depth+1, seen, out)
	case *ssa.Convert:
		producers(x.X, depth+1, seen, out)
	default:
		*out = append(*out, v)
	}
}

func rulePrivReg(c *Ctx) *RuleResult {
	r := newResult("R-PRIVREG", "values the compiler must hold while other user expressions or the loop body are evaluated live in private registers: the Table and Index operands of the SetIndex emitted for an indexed assignment target, and the Start, Stop and Step operands of PrepForLoop/AdvForLoop, are registers obtained directly from GetFreeRegister() (the expression is compiled into, or moved to, that fresh register), never the register an expression compiler handed back — which can be a user variable's own register that a later assignment changes")
	p := c.P
	type site struct {
		fn, strct string
		fields    []string
	}
	sites := []site{
		{"(*assignCompiler).ProcessIndexExpVar", "SetIndex", []string{"Table", "Index"}},
		{"(*compiler).ProcessForStat", "PrepForLoop", []string{"Start", "Stop", "Step"}},
		{"(*compiler).ProcessForStat", "AdvForLoop", []string{"Start", "Stop", "Step"}},
	}
	for _, s := range sites {
		f := p.Func("astcomp", s.fn)
		if f == nil {
			r.broken("anchor unresolved: astcomp.%s", s.fn)
			continue
		}
		funcs := append([]*ssa.Function{f}, f.AnonFuncs...)
		found := 0
		for _, g := range funcs {
			forEachInstr(g, func(ins ssa.Instruction) {
				st, ok := ins.(*ssa.Store)
				if !ok {
					return
				}
				fa, ok := st.Addr.(*ssa.FieldAddr)
				if !ok {
					return
				}
				_, tn, fn := fieldOfAddr(fa)
				if tn != s.strct {
					return
				}
				want := false
				for _, w := range s.fields {
					if w == fn {
						want = true
					}
				}
				if !want {
					return
				}
				found++
				var prods []ssa.Value
				producers(st.Val, 0, map[ssa.Value]bool{}, &prods)
				bad := ""
				for _, pv := range prods {
					call, ok := pv.(*ssa.Call)
					if ok && calleeNamed(call, "GetFreeRegister") {
						continue
					}
					bad = pv.String()
					if ok {
						if cal := call.Call.StaticCallee(); cal != nil {
							bad = "the result of " + cal.Name()
						}
					}
				}
				if bad == "" && len(prods) > 0 {
					r.ok(fmt.Sprintf("%s: %s.%s is a register obtained from GetFreeRegister", s.fn, s.strct, fn))
				} else {
					r.fail(fmt.Sprintf("held-operand-not-private:%s:%s.%s", s.fn, s.strct, fn), p.InstrPos(st), fmt.Sprintf("astcomp.%s uses %s as the %s operand of %s instead of a register of its own: when the expression is a plain local, the held operand is that variable's register, so an assignment made before the operand is used (an earlier target of a multiple assignment, or the loop body) changes it", s.fn, bad, fn, s.strct))
				}
			})
		}
		if found == 0 {
			r.broken("%s: no %s literal found (anchor moved?)", s.fn, s.strct)
		}
	}
	return r
}

func ruleFor(c *Ctx) *RuleResult {
	r := newResult("R-FOR", "the numeric-for plumbing has the dependencies the manual needs: compile side — the loop variable seen by the body is a register of its own (GetFreeRegister), initialised by a move from the hidden start register after the loop label and declared in a scope pushed for the body; run-time side — in the prepare branch a non-number in any of the three operands and a zero step each lead to an error return; in the advance branch every store to the hidden start register is either nil or a new value whose selection depends, in the code that leads to that store, on a comparison of the new value with the limit AND on a comparison of the new value with the old one (the overflow test). Dependency presence only: that the comparisons are the right ones is not decided")
	p := c.P
	// ---- compile side
	pfs := p.Func("astcomp", "(*compiler).ProcessForStat")
	if pfs == nil {
		r.broken("anchor unresolved: astcomp.(*compiler).ProcessForStat")
		return r
	}
	var declLocal ssa.CallInstruction
	forEachInstr(pfs, func(ins ssa.Instruction) {
		if call, ok := ins.(ssa.CallInstruction); ok && calleeNamed(call, "DeclareLocal") {
			declLocal = call
		}
	})
	if declLocal == nil {
		r.fail("for-no-declarelocal", p.Pos(pfs.Pos()), "ProcessForStat no longer declares the loop variable")
	} else {
		args := declLocal.Common().Args
		reg := args[len(args)-1]
		var prods []ssa.Value
		producers(reg, 0, map[ssa.Value]bool{}, &prods)
		fresh := len(prods) > 0
		for _, pv := range prods {
			if call, ok := pv.(*ssa.Call); !ok || !calleeNamed(call, "GetFreeRegister") {
				fresh = false
			}
		}
		// not one of the registers given to PrepForLoop
		shared := false
		forEachInstr(pfs, func(ins ssa.Instruction) {
			if st, ok := ins.(*ssa.Store); ok {
				if fa, ok := st.Addr.(*ssa.FieldAddr); ok {
					if _, tn, _ := fieldOfAddr(fa); (tn == "PrepForLoop" || tn == "AdvForLoop") && st.Val == reg {
						shared = true
					}
				}
			}
		})
		// a scope is pushed between the loop label and DeclareLocal, and a move into reg precedes it
		pushes := callsWhere(pfs, func(c ssa.CallInstruction) bool { return calleeNamed(c, "PushContext") })
		labels := callsWhere(pfs, func(c ssa.CallInstruction) bool { return calleeNamed(c, "EmitLabelNoLine") })
		scoped := false
		for _, pc := range pushes {
			for _, lc := range labels {
				if instrDominates(lc, pc) && instrDominates(pc, declLocal) {
					scoped = true
				}
			}
		}
		moved := false
		for _, mc := range callsWhere(pfs, func(c ssa.CallInstruction) bool { return calleeNamed(c, "EmitMoveNoLine") }) {
			a := mc.Common().Args
			if len(a) >= 3 && a[1] == reg && instrDominates(mc, declLocal) {
				for _, lc := range labels {
					if instrDominates(lc, mc) {
						moved = true
					}
				}
			}
		}
		switch {
		case !fresh || shared:
			r.fail("for-loopvar-not-private", p.InstrPos(declLocal), "the numeric for's loop variable is bound to a register that is not its own fresh register: assigning to the loop variable in the body would disturb the iteration")
		case !scoped:
			r.fail("for-loopvar-not-scoped", p.InstrPos(declLocal), "the numeric for's loop variable is not declared inside a scope pushed per iteration (after the loop label): closures capturing it would share one variable across iterations")
		case !moved:
			r.fail("for-loopvar-not-copied", p.InstrPos(declLocal), "the numeric for's loop variable is not initialised by a move from the hidden start register after the loop label")
		default:
			r.ok("ProcessForStat: the loop variable is a fresh register, copied from the hidden counter after the loop label, declared in a per-iteration scope")
		}
	}
	// ---- run-time side
	run := p.Func("runtime", "(*LuaCont).RunInThread")
	if run == nil {
		r.broken("anchor unresolved: runtime.(*LuaCont).RunInThread")
		return r
	}
	// find the Type7 block: calls GetA, GetB, GetC and ends with If on GetF()
	var t7 *ssa.BasicBlock
	var startReg ssa.Value
	for _, b := range run.Blocks {
		var a, bb, cc, f ssa.Value
		for _, ins := range b.Instrs {
			if call, ok := ins.(*ssa.Call); ok {
				switch {
				case calleeNamed(call, "GetA"):
					a = call
				case calleeNamed(call, "GetB"):
					bb = call
				case calleeNamed(call, "GetC"):
					cc = call
				case calleeNamed(call, "GetF"):
					f = call
				}
			}
		}
		if a != nil && bb != nil && cc != nil && f != nil {
			if iff, ok := b.Instrs[len(b.Instrs)-1].(*ssa.If); ok && iff.Cond == f {
				// and the three operands are read with getReg
				n := 0
				for _, ins := range b.Instrs {
					if call, ok := ins.(*ssa.Call); ok && calleeNamed(call, "getReg") {
						n++
					}
				}
				if n >= 3 {
					t7 = b
					startReg = a
				}
			}
		}
	}
	if t7 == nil {
		r.broken("cannot locate the numeric-for opcode block in (*LuaCont).RunInThread (anchor moved?)")
		return r
	}
	adv, prep := t7.Succs[0], t7.Succs[1]
	region := func(entry *ssa.BasicBlock) map[*ssa.BasicBlock]bool {
		m := map[*ssa.BasicBlock]bool{}
		for _, b := range run.Blocks {
			if entry == b || entry.Dominates(b) {
				m[b] = true
			}
		}
		return m
	}
	advR, prepR := region(adv), region(prep)
	// prepare: error returns
	nanErr, zeroErr := false, false
	for b := range prepR {
		for _, ins := range b.Instrs {
			ret, ok := ins.(*ssa.Return)
			if !ok || len(ret.Results) != 2 || isNilConst(ret.Results[1]) {
				continue
			}
			gc := newGuardCtx(run)
			for _, ge := range gc.MustEdges(b) {
				for w := range backSlice(ge.If.Cond, true) {
					if call, ok := w.(*ssa.Call); ok && calleeNamed(call, "isZero") {
						zeroErr = true
					}
					if call, ok := w.(*ssa.Call); ok && calleeNamed(call, "ToNumberValue") {
						nanErr = true
					}
				}
			}
		}
	}
	toNum := 0
	for b := range prepR {
		for _, ins := range b.Instrs {
			if call, ok := ins.(*ssa.Call); ok && calleeNamed(call, "ToNumberValue") {
				toNum++
			}
		}
	}
	if nanErr && zeroErr && toNum >= 3 {
		r.ok("prepare branch: three ToNumberValue conversions; non-numbers and a zero step lead to error returns")
	} else {
		r.fail("for-prepare-errors", p.Pos(run.Pos()), fmt.Sprintf("the numeric-for prepare branch lost an error exit (non-number operand error: %v, zero-step error: %v, ToNumberValue conversions: %d): a zero step would loop forever, a non-number would be used as a number", nanErr, zeroErr, toNum))
	}
	// nanFalse: a module function that answers false whenever an operand is NaN — its
	// results derive only from ordered or equality comparisons (directly, or through
	// other such functions), constants and phis, with no negation and no != anywhere
	nanFalseMemo := map[*ssa.Function]int{} // 0 unknown, 1 yes, 2 no
	var nanFalse func(f *ssa.Function, depth int) bool
	nanFalse = func(f *ssa.Function, depth int) bool {
		if f == nil || f.Blocks == nil || !p.InModule(f) || depth > 3 {
			return false
		}
		switch nanFalseMemo[f] {
		case 1:
			return true
		case 2:
			return false
		}
		nanFalseMemo[f] = 2 // recursion guard
		ok := true
		nret := 0
		forEachInstr(f, func(ins ssa.Instruction) {
			switch x := ins.(type) {
			case *ssa.UnOp:
				if x.Op == token.NOT {
					ok = false
				}
			case *ssa.BinOp:
				if x.Op == token.NEQ {
					ok = false
				}
			case *ssa.Return:
				if len(x.Results) == 0 {
					return
				}
				if b, isB := x.Results[0].Type().Underlying().(*types.Basic); !isB || b.Kind() != types.Bool {
					ok = false
					return
				}
				nret++
				for w := range backSlice(x.Results[0], false) {
					switch y := w.(type) {
					case *ssa.Const, *ssa.Phi, *ssa.Parameter, *ssa.Extract, *ssa.Convert, *ssa.FieldAddr, *ssa.Field, *ssa.Alloc:
					case *ssa.BinOp:
						switch y.Op {
						case token.LSS, token.LEQ, token.GTR, token.GEQ, token.EQL:
						default:
							// arithmetic feeding a comparison is fine; anything boolean else is not
							if b, isB := y.Type().Underlying().(*types.Basic); isB && b.Kind() == types.Bool {
								ok = false
							}
						}
					case *ssa.Call:
						if b, isB := y.Type().Underlying().(*types.Basic); isB && b.Kind() == types.Bool {
							if !nanFalse(y.Call.StaticCallee(), depth+1) {
								ok = false
							}
						}
					case *ssa.UnOp:
						if y.Op == token.NOT {
							ok = false
						}
					}
				}
			}
		})
		if ok && nret > 0 {
			nanFalseMemo[f] = 1
			return true
		}
		return false
	}
	// advance: stores to the start register
	nStores := 0
	for b := range advR {
		for _, ins := range b.Instrs {
			call, ok := ins.(*ssa.Call)
			if !ok || !calleeNamed(call, "setReg") || len(call.Call.Args) < 4 || call.Call.Args[2] != startReg {
				continue
			}
			nStores++
			// the new value: an addition that some store to the hidden counter in this
			// branch derives from (the store of nil has no addition of its own, but the
			// tests on the way to it are about the same new value)
			var newVals []ssa.Value
			var storedVals []ssa.Value
			for b2 := range advR {
				for _, i2 := range b2.Instrs {
					if c2, ok := i2.(*ssa.Call); ok && calleeNamed(c2, "setReg") && len(c2.Call.Args) >= 4 && c2.Call.Args[2] == startReg {
						storedVals = append(storedVals, c2.Call.Args[3])
					}
				}
			}
			for _, sv := range storedVals {
				for w := range backSliceAllocs(sv, true) {
					if cl, ok := w.(*ssa.Call); ok && calleeNamed(cl, "Add") {
						newVals = append(newVals, cl)
						for _, ref := range *cl.Referrers() {
							if ex, ok := ref.(*ssa.Extract); ok {
								newVals = append(newVals, ex)
							}
						}
					}
					if bo, ok := w.(*ssa.BinOp); ok && bo.Op == token.ADD {
						newVals = append(newVals, bo)
					}
				}
			}
			for w := range backSliceAllocs(call.Call.Args[3], false) {
				if cl, ok := w.(*ssa.Call); ok && calleeNamed(cl, "Add") {
					newVals = append(newVals, cl)
					for _, ref := range *cl.Referrers() {
						if ex, ok := ref.(*ssa.Extract); ok {
							newVals = append(newVals, ex)
						}
					}
				}
				if bo, ok := w.(*ssa.BinOp); ok && bo.Op == token.ADD {
					newVals = append(newVals, bo)
				}
			}
			// comparisons in the code leading to this store
			limitCmp, overflowCmp := 0, 0
			reachesWithin := func(from, to *ssa.BasicBlock) bool {
				// a path that stays inside the advance branch (the enclosing interpreter
				// loop would otherwise connect every block to every other)
				seen := map[*ssa.BasicBlock]bool{}
				stack := []*ssa.BasicBlock{from}
				for len(stack) > 0 {
					x := stack[len(stack)-1]
					stack = stack[:len(stack)-1]
					if seen[x] || !advR[x] {
						continue
					}
					seen[x] = true
					if x == to {
						return true
					}
					stack = append(stack, x.Succs...)
				}
				return false
			}
			for rb := range advR {
				if !reachesWithin(rb, b) {
					continue
				}
				for _, ri := range rb.Instrs {
					var ops []ssa.Value
					switch x := ri.(type) {
					case *ssa.Call:
						if calleeNamed(x, "numIsLessThan") || calleeNamed(x, "isLessThan") || calleeNamed(x, "Lt") || nanFalse(x.Call.StaticCallee(), 0) {
							ops = x.Call.Args
						}
					case *ssa.BinOp:
						switch x.Op {
						case token.LSS, token.GTR, token.LEQ, token.GEQ:
							ops = []ssa.Value{x.X, x.Y}
						}
					}
					if len(ops) != 2 {
						continue
					}
					isNew := func(v ssa.Value) bool {
						for w := range backSliceAllocs(v, false) {
							for _, nv := range newVals {
								if w == nv {
									return true
								}
							}
						}
						return false
					}
					n0, n1 := isNew(ops[0]), isNew(ops[1])
					if n0 == n1 {
						continue // both or neither involve the new value
					}
					other := ops[0]
					if n0 {
						other = ops[1]
					}
					// other derives from the old start register value or from the limit register value?
					src := regSourceOf(other)
					switch src {
					case "GetA":
						overflowCmp++
					case "GetB":
						limitCmp++
					}
				}
			}
			if limitCmp >= 1 && overflowCmp >= 1 {
				r.ok(fmt.Sprintf("advance branch: the start register store at %s depends on %d limit comparison(s) and %d overflow comparison(s)", p.InstrPos(call), limitCmp, overflowCmp))
			} else {
				r.fail("for-advance-missing-test", p.InstrPos(call), fmt.Sprintf("a store to the numeric for's hidden counter in the advance branch depends on %d comparison(s) of the new value with the limit and %d with the old value: without the second an integer loop near math.maxinteger/mininteger wraps around instead of ending; without the first it never ends", limitCmp, overflowCmp))
			}
		}
	}
	if nStores == 0 {
		r.broken("no store to the start register found in the advance branch (anchor moved?)")
	}
	r.count("advance_branch_counter_stores", nStores)

	// advance: an unordered operand ends the loop. Every ordered comparison with a
	// NaN is false, so a loop that only ends when some `<` holds never ends. The
	// branch is walked twice — the new counter value is NaN; the limit is NaN — with
	// every ordered comparison false and the NaN tests of that operand true: each
	// walk must store nil to the hidden counter on every path.
	isNaNTest := func(f *ssa.Function) bool {
		if f == nil {
			return false
		}
		if fullName(f) == "math.IsNaN" {
			return true
		}
		if f.Blocks == nil || !p.InModule(f) {
			return false
		}
		found := false
		forEachInstr(f, func(ins ssa.Instruction) {
			if bo, ok := ins.(*ssa.BinOp); ok && bo.Op == token.NEQ && bo.X == bo.Y {
				found = true
			}
			if call, ok := ins.(*ssa.Call); ok {
				if cal := call.Call.StaticCallee(); cal != nil && fullName(cal) == "math.IsNaN" {
					found = true
				}
			}
		})
		return found
	}
	var addVals []ssa.Value
	for b := range advR {
		for _, ins := range b.Instrs {
			if cl, ok := ins.(*ssa.Call); ok && calleeNamed(cl, "Add") {
				addVals = append(addVals, cl)
			}
		}
	}
	derivesFromAdd := func(v ssa.Value) bool {
		for w := range backSliceAllocs(v, false) {
			for _, a := range addVals {
				if w == a {
					return true
				}
			}
		}
		return false
	}
	for _, scenario := range []string{"new-value", "limit"} {
		operandIsNaN := func(v ssa.Value) bool {
			if scenario == "new-value" {
				return derivesFromAdd(v)
			}
			return !derivesFromAdd(v) && regSourceOf(v) == "GetB"
		}
		const (
			unk = iota
			yes
			no
		)
		var eval func(v ssa.Value, pred map[*ssa.BasicBlock]*ssa.BasicBlock, depth int) int
		eval = func(v ssa.Value, pred map[*ssa.BasicBlock]*ssa.BasicBlock, depth int) int {
			if depth > 8 {
				return unk
			}
			switch x := v.(type) {
			case *ssa.Const:
				if x.Value != nil && x.Value.Kind() == constant.Bool {
					if constant.BoolVal(x.Value) {
						return yes
					}
					return no
				}
			case *ssa.UnOp:
				if x.Op == token.NOT {
					switch eval(x.X, pred, depth+1) {
					case yes:
						return no
					case no:
						return yes
					}
				}
			case *ssa.Phi:
				pb := pred[x.Block()]
				for i, pp := range x.Block().Preds {
					if pp == pb {
						return eval(x.Edges[i], pred, depth+1)
					}
				}
			case *ssa.Extract:
				if cl, ok := x.Tuple.(*ssa.Call); ok && x.Index == 0 && (calleeNamed(cl, "isLessThan") || calleeNamed(cl, "Lt") || calleeNamed(cl, "le") || nanFalse(cl.Call.StaticCallee(), 0)) {
					return no
				}
				// "is this operand an integer?" — a (integer, bool) conversion applied to an
				// operand that the scenario makes a float: the counter and the step when the
				// new value is NaN (they have one numeric type, and integers never add up to
				// NaN), the limit when the limit is NaN
				if x.Index == 1 {
					var operand ssa.Value
					switch t := x.Tuple.(type) {
					case *ssa.Call:
						if sig := t.Call.Signature(); sig != nil && sig.Results().Len() == 2 && len(t.Call.Args) >= 1 {
							if b, ok := sig.Results().At(0).Type().Underlying().(*types.Basic); ok && b.Info()&types.IsInteger != 0 {
								operand = t.Call.Args[0]
							}
						}
					case *ssa.TypeAssert:
						if b, ok := t.AssertedType.Underlying().(*types.Basic); ok && b.Info()&types.IsInteger != 0 {
							operand = t.X
						}
					}
					if operand != nil {
						src := regSourceOf(operand)
						if (scenario == "limit" && src == "GetB") || (scenario == "new-value" && (src == "GetA" || src == "GetC")) {
							return no
						}
					}
				}
			case *ssa.Call:
				if calleeNamed(x, "numIsLessThan") || nanFalse(x.Call.StaticCallee(), 0) {
					return no
				}
				if isNaNTest(x.Call.StaticCallee()) && len(x.Call.Args) >= 1 {
					if operandIsNaN(x.Call.Args[len(x.Call.Args)-1]) {
						return yes
					}
					return no
				}
			case *ssa.BinOp:
				switch x.Op {
				case token.LSS, token.GTR, token.LEQ, token.GEQ:
					if b, ok := x.X.Type().Underlying().(*types.Basic); ok && b.Info()&types.IsFloat != 0 {
						return no
					}
				case token.NEQ:
					if x.X == x.Y {
						if operandIsNaN(x.X) {
							return yes
						}
						return no
					}
				}
			}
			return unk
		}
		isNilValue := func(v ssa.Value) bool {
			if u, ok := v.(*ssa.UnOp); ok && u.Op == token.MUL {
				if g, ok := u.X.(*ssa.Global); ok && g.Name() == "NilValue" {
					return true
				}
			}
			return false
		}
		paths, badAt := 0, ""
		var walk func(b *ssa.BasicBlock, pred map[*ssa.BasicBlock]*ssa.BasicBlock, steps int)
		walk = func(b *ssa.BasicBlock, pred map[*ssa.BasicBlock]*ssa.BasicBlock, steps int) {
			if steps > 64 || paths > 4096 || !advR[b] {
				return
			}
			for _, ins := range b.Instrs {
				if call, ok := ins.(*ssa.Call); ok && calleeNamed(call, "setReg") && len(call.Call.Args) >= 4 && call.Call.Args[2] == startReg {
					paths++
					v := call.Call.Args[3]
					for i := 0; i < 4; i++ {
						phi, ok := v.(*ssa.Phi)
						if !ok {
							break
						}
						pb := pred[phi.Block()]
						for j, pp := range phi.Block().Preds {
							if pp == pb {
								v = phi.Edges[j]
							}
						}
					}
					if !isNilValue(v) && badAt == "" {
						badAt = p.InstrPos(call)
					}
					return
				}
			}
			next := func(to *ssa.BasicBlock) {
				np := map[*ssa.BasicBlock]*ssa.BasicBlock{}
				for k, v := range pred {
					np[k] = v
				}
				np[to] = b
				walk(to, np, steps+1)
			}
			switch last := b.Instrs[len(b.Instrs)-1].(type) {
			case *ssa.If:
				switch eval(last.Cond, pred, 0) {
				case yes:
					next(b.Succs[0])
				case no:
					next(b.Succs[1])
				default:
					next(b.Succs[0])
					next(b.Succs[1])
				}
			case *ssa.Jump:
				next(b.Succs[0])
			}
		}
		walk(adv, map[*ssa.BasicBlock]*ssa.BasicBlock{adv: t7}, 0)
		switch {
		case paths == 0:
			r.broken("advance branch: no path to a store of the hidden counter found when walking with a NaN " + scenario)
		case badAt != "":
			r.fail("for-advance-nan-never-ends:"+scenario, badAt, "in the advance branch of the numeric for, when the "+scenario+" is NaN every ordered comparison is false and no test of the operand against itself (x != x, math.IsNaN) steps in: the hidden counter is not set to nil, so `for i = 1, 0/0 do end` (or a NaN step) never ends, where the reference implementation runs the body at most once")
		default:
			r.ok(fmt.Sprintf("advance branch: with a NaN %s every path (%d) stores nil to the hidden counter", scenario, paths))
		}
	}
	return r
}

// regSourceOf: which opcode field (GetA/GetB/GetC) the register read that v
// derives from used: v <- ... <- getReg(regs, cells, <GetX()>).
func regSourceOf(v ssa.Value) string {
	// first without looking through calls; then through them (a conversion such as
	// x.TryInt() keeps the register its operand was read from)
	for _, through := range []bool{false, true} {
		found := map[string]bool{}
		for w := range backSliceAllocs(v, through) {
			if call, ok := w.(*ssa.Call); ok && calleeNamed(call, "getReg") && len(call.Call.Args) >= 3 {
				if src, ok := call.Call.Args[2].(*ssa.Call); ok {
					for _, n := range []string{"GetA", "GetB", "GetC"} {
						if calleeNamed(src, n) {
							found[n] = true
						}
					}
				}
			}
		}
		if len(found) == 1 {
			for n := range found {
				return n
			}
		}
		if len(found) > 1 {
			return "" // derives from several registers: not a plain operand
		}
	}
	return ""
}

var _ = strings.Contains

func init() { registerRule("R-ACC", false, ruleAcc) }

// ruleAcc: the vararg accumulator is never recycled.
func ruleAcc(c *Ctx) *RuleResult {
	r := newResult("R-ACC", "the slice a Lua frame accumulates extra arguments in (LuaCont.acc) is handed to a register as the frame's '...' (ArrayValue(c.acc)) and shares its backing array from then on: the field is therefore only ever assigned nil or the result of append on itself — never a reslice of itself (c.acc[:0]), which would let the next open-ended receive overwrite the values '...' still denotes")
	p := c.P
	n := 0
	for _, f := range p.ModFuncs() {
		if relPkg(funcPkgPath(f)) != "runtime" || f.Blocks == nil {
			continue
		}
		forEachInstr(f, func(ins ssa.Instruction) {
			st, ok := ins.(*ssa.Store)
			if !ok {
				return
			}
			fa, ok := st.Addr.(*ssa.FieldAddr)
			if !ok {
				return
			}
			if _, tn, fn := fieldOfAddr(fa); tn != "LuaCont" || fn != "acc" {
				return
			}
			n++
			v := st.Val
			switch x := v.(type) {
			case *ssa.Const:
				if x.Value == nil {
					r.ok(fnKey(f) + " resets acc to nil")
					return
				}
			case *ssa.Call:
				if b, ok := x.Call.Value.(*ssa.Builtin); ok && b.Name() == "append" {
					// what is appended is charged to the memory quota first (argument lists
					// are one of the allocations the program sizes)
					charged := false
					forEachInstr(f, func(o ssa.Instruction) {
						if cc, ok := o.(ssa.CallInstruction); ok && instrDominates(o, ins) {
							if cal := cc.Common().StaticCallee(); cal != nil && isChargeCall(cal) && strings.HasPrefix(cal.Name(), "Require") && cal.Name() != "RequireCPU" {
								charged = true
							}
						}
					})
					if charged {
						r.ok(fnKey(f) + " extends acc with append, after a memory charge")
					} else {
						r.fail("acc-append-uncharged:"+fnKey(f), p.InstrPos(ins), fnKey(f)+" appends to LuaCont.acc without a memory charge before it: extra arguments forwarded into a vararg function are then free, and a program that keeps such frames alive holds memory the quota never saw")
					}
					return
				}
			case *ssa.Slice:
				r.fail("acc-resliced:"+fnKey(f), p.InstrPos(ins), fnKey(f)+" assigns LuaCont.acc a reslice of an existing slice: the frame's '...' register still points at that backing array, so the next values accumulated overwrite it (a vararg function that expands a call after using ... sees wrong values)")
				return
			}
			// a value built elsewhere (NewLuaCont's initial nil, a copy): accept fresh allocations only
			if _, ok := v.(*ssa.MakeSlice); ok {
				r.ok(fnKey(f) + " gives acc a fresh slice")
				return
			}
			r.fail("acc-unknown-source:"+fnKey(f), p.InstrPos(ins), fnKey(f)+" assigns LuaCont.acc a value that is neither nil, a fresh slice nor append on itself: it may alias the array behind a '...' register")
		})
	}
	r.count("stores_to_LuaCont_acc", n)
	r.floor("stores_to_LuaCont_acc", 2)
	return r
}
