package main

import (
	"fmt"
	"go/token"
	"go/types"
	"sort"
	"strings"

	"golang.org/x/tools/go/ssa"
)

func init() {
	registerRule("R-SCHEMA", false, ruleSchema)
	registerRule("R-MAPORDER", false, ruleMapOrder)
}

// wireItem: one thing written to / read from the byte stream.
type wireItem struct {
	pos   token.Pos
	sub   int    // index within a variadic call
	what  string // "field:<name>", "len", "len:<name>", "tag:<const>", "loop:<callee>:<field>"
	typ   string // wire type
	where string
}

// variadicElems: the values stored into the array behind a variadic slice argument, in order.
func variadicElems(arg ssa.Value) []ssa.Value {
	sl, ok := arg.(*ssa.Slice)
	if !ok {
		return nil
	}
	al, ok := sl.X.(*ssa.Alloc)
	if !ok {
		return nil
	}
	type el struct {
		idx int64
		v   ssa.Value
	}
	var els []el
	for _, ref := range *al.Referrers() {
		ia, ok := ref.(*ssa.IndexAddr)
		if !ok {
			continue
		}
		k, ok := constInt(ia.Index)
		if !ok {
			continue
		}
		for _, r2 := range *ia.Referrers() {
			if st, ok := r2.(*ssa.Store); ok && st.Addr == ia {
				els = append(els, el{k, st.Val})
			}
		}
	}
	sort.Slice(els, func(i, j int) bool { return els[i].idx < els[j].idx })
	var out []ssa.Value
	for _, e := range els {
		out = append(out, e.v)
	}
	return out
}

// codeFieldOf: v is a load of (or the address of) a field of the *Code parameter.
func codeFieldOf(v ssa.Value) (name string, isAddr bool, ok bool) {
	switch x := v.(type) {
	case *ssa.UnOp:
		if x.Op == token.MUL {
			if fa, ok := x.X.(*ssa.FieldAddr); ok {
				if _, tn, fld := fieldOfAddr(fa); tn == "Code" {
					return fld, false, true
				}
			}
		}
	case *ssa.FieldAddr:
		if _, tn, fld := fieldOfAddr(x); tn == "Code" {
			return fld, true, true
		}
	}
	return "", false, false
}

func wireDescribe(v ssa.Value, reading bool) (what, typ string) {
	if mi, ok := v.(*ssa.MakeInterface); ok {
		v = mi.X
	}
	t := v.Type()
	if reading {
		if fld, isAddr, ok := codeFieldOf(v); ok {
			if isAddr {
				return "field:" + fld, t.(*types.Pointer).Elem().String()
			}
			return "field:" + fld, t.String() // a slice read in place
		}
		if al, ok := v.(*ssa.Alloc); ok {
			return "len", al.Type().(*types.Pointer).Elem().String()
		}
		return "?", t.String()
	}
	if fld, _, ok := codeFieldOf(v); ok {
		return "field:" + fld, t.String()
	}
	if cv, ok := v.(*ssa.Convert); ok {
		if call, ok := cv.X.(*ssa.Call); ok {
			if b, ok := call.Call.Value.(*ssa.Builtin); ok && b.Name() == "len" {
				if fld, _, ok := codeFieldOf(call.Call.Args[0]); ok {
					return "len:" + fld, t.String()
				}
			}
		}
	}
	if k, ok := v.(*ssa.Const); ok {
		return "tag:" + k.Value.String(), t.String()
	}
	return "?", t.String()
}

func shortType(s string) string {
	return strings.ReplaceAll(s, modPath+"/", "")
}

func ruleSchema(c *Ctx) *RuleResult {
	r := newResult("R-SCHEMA", "the dump format's writer and reader agree: (a) the sequence of items (*bwriter).writeCode puts on the wire — field by field, with Go types, length prefixes and nested loops — equals the sequence (*breader).readCode takes off it; every length prefix is immediately followed by the field it measures; (b) together they cover every field of runtime.Code; (c) the value-type tags handled by writeConst and readConst coincide and each tag's payload has the same wire type on both sides; (d) MarshalConst writes, and UnmarshalConst and HasMarshalPrefix compare against, the same marshalPrefix variable")
	p := c.P
	wc := p.Func("runtime", "(*bwriter).writeCode")
	rc := p.Func("runtime", "(*breader).readCode")
	wk := p.Func("runtime", "(*bwriter).writeConst")
	rk := p.Func("runtime", "(*breader).readConst")
	wW := p.Func("runtime", "(*bwriter).write")
	rR := p.Func("runtime", "(*breader).read")
	wS := p.Func("runtime", "(*bwriter).writeString")
	rS := p.Func("runtime", "(*breader).readString")
	if wc == nil || rc == nil || wk == nil || rk == nil || wW == nil || rR == nil || wS == nil || rS == nil {
		r.broken("anchor unresolved: runtime.(*bwriter).{writeCode,writeConst,write,writeString} / (*breader).{readCode,readConst,read,readString}")
		return r
	}
	collect := func(f *ssa.Function, reading bool) []wireItem {
		var items []wireItem
		forEachInstr(f, func(ins ssa.Instruction) {
			call, ok := ins.(*ssa.Call)
			if !ok {
				return
			}
			cal := call.Call.StaticCallee()
			switch cal {
			case wW, rR:
				args := call.Call.Args
				va := args[len(args)-1]
				for i, e := range variadicElems(va) {
					what, typ := wireDescribe(e, reading)
					items = append(items, wireItem{call.Pos(), i, what, shortType(typ), p.InstrPos(ins)})
				}
			default:
				// a helper of the writer/reader that is handed a field of c (a hand-written
				// encoder/decoder for that field): the field is on the wire at this point,
				// with a layout this rule does not look into
				if cal != nil && p.InModule(cal) && cal.Signature.Recv() != nil && cal != wk && cal != rk && cal != wS && cal != rS {
					for _, a := range call.Call.Args[1:] {
						if fld, _, ok := codeFieldOf(a); ok {
							items = append(items, wireItem{call.Pos(), 0, "field:" + fld, "?", p.InstrPos(ins)})
						} else if cv, ok := a.(*ssa.Convert); ok {
							_ = cv
						}
					}
				}
				return
			case wk, rk, wS, rS:
				// an element loop: which field it walks / fills
				field := "?"
				if !reading {
					// the argument comes from ranging over a field of c
					for v := range backSlice(call.Call.Args[len(call.Call.Args)-1], false) {
						if fld, _, ok := codeFieldOf(v); ok {
							field = fld
						}
					}
				} else if refs := call.Referrers(); refs != nil {
					// the result is appended to a field of c: find the store into c.<field> that depends on it
					forEachInstr(f, func(o ssa.Instruction) {
						st, ok := o.(*ssa.Store)
						if !ok {
							return
						}
						if ia, ok := st.Addr.(*ssa.IndexAddr); ok && st.Val == ssa.Value(call) {
							// c.field[i] = r.readX()
							if fld, _, ok := codeFieldOf(ia.X); ok {
								field = fld
							}
							return
						}
						fld, isAddr, ok := codeFieldOf(st.Addr)
						if !ok || !isAddr {
							return
						}
						if ap, ok := st.Val.(*ssa.Call); ok {
							if b, ok := ap.Call.Value.(*ssa.Builtin); ok && b.Name() == "append" && len(ap.Call.Args) == 2 {
								for _, e := range variadicElems(ap.Call.Args[1]) {
									if e == ssa.Value(call) {
										field = fld
									}
								}
							}
						}
					})
				}
				elem := "const"
				if cal == wS || cal == rS {
					elem = "string"
				}
				items = append(items, wireItem{call.Pos(), 0, "loop:" + field, elem, p.InstrPos(ins)})
			}
		})
		sort.SliceStable(items, func(i, j int) bool {
			if items[i].pos != items[j].pos {
				return items[i].pos < items[j].pos
			}
			return items[i].sub < items[j].sub
		})
		return items
	}
	ws := collect(wc, false)
	rs := collect(rc, true)
	// the writer's first item is the tag, consumed by readConst on the other side
	if len(ws) > 0 && strings.HasPrefix(ws[0].what, "tag:") {
		ws = ws[1:]
	} else {
		r.fail("code-tag-missing", p.Pos(wc.Pos()), "writeCode no longer starts by writing the CodeType tag that readConst dispatches on")
	}
	r.count("writer_items", len(ws))
	r.count("reader_items", len(rs))
	r.floor("writer_items", 6)
	r.floor("reader_items", 6)
	render := func(it wireItem, reading bool) string {
		w := it.what
		if strings.HasPrefix(w, "len") {
			w = "len"
		}
		return w + " " + it.typ
	}
	sameItem := func(a, b string) bool {
		if a == b {
			return true
		}
		// a field handled by a helper has an unknown wire type: compare the field only
		fa, fb := strings.Fields(a), strings.Fields(b)
		if len(fa) == 2 && len(fb) == 2 && fa[0] == fb[0] && (fa[1] == "?" || fb[1] == "?") {
			return true
		}
		return false
	}
	n := len(ws)
	if len(rs) > n {
		n = len(rs)
	}
	for i := 0; i < n; i++ {
		var a, b string
		if i < len(ws) {
			a = render(ws[i], false)
		}
		if i < len(rs) {
			b = render(rs[i], true)
		}
		if sameItem(a, b) {
			r.ok(fmt.Sprintf("(a) item %d: %s", i, a))
		} else {
			pos := ""
			if i < len(rs) {
				pos = rs[i].where
			} else {
				pos = ws[i].where
			}
			r.fail(fmt.Sprintf("schema-mismatch:item%d:%s|%s", i, strings.ReplaceAll(a, " ", "_"), strings.ReplaceAll(b, " ", "_")), pos, fmt.Sprintf("item %d of a dumped function: writeCode writes [%s], readCode reads [%s]: load(string.dump(f)) decodes the bytes that follow with the wrong meaning", i, a, b))
			break // later items are shifted: one report
		}
	}
	// each length prefix is followed by its field
	for i, it := range ws {
		if strings.HasPrefix(it.what, "len:") {
			fld := strings.TrimPrefix(it.what, "len:")
			okNext := i+1 < len(ws) && (ws[i+1].what == "field:"+fld || ws[i+1].what == "loop:"+fld)
			if okNext {
				r.ok("(a) length of " + fld + " is followed by " + fld)
			} else {
				r.fail("length-not-followed-by-field:"+fld, it.where, fmt.Sprintf("writeCode writes len(c.%s) but the next item is not c.%s", fld, fld))
			}
		}
	}
	// (b) field coverage
	ct := p.TypeNamed("runtime", "Code")
	if ct == nil {
		r.broken("anchor unresolved: runtime.Code")
		return r
	}
	st := ct.Underlying().(*types.Struct)
	has := func(items []wireItem, fld string) bool {
		for _, it := range items {
			if it.what == "field:"+fld || it.what == "loop:"+fld {
				return true
			}
		}
		return false
	}
	for i := 0; i < st.NumFields(); i++ {
		fld := st.Field(i).Name()
		switch {
		case has(ws, fld) && has(rs, fld):
			r.ok("(b) Code." + fld + " is written and read")
		case !has(ws, fld) && !has(rs, fld):
			r.fail("field-not-serialised:"+fld, "runtime/loadunit.go", fmt.Sprintf("runtime.Code.%s is neither written by writeCode nor read by readCode: a reloaded function loses it", fld))
		case !has(ws, fld):
			r.fail("field-not-written:"+fld, p.Pos(wc.Pos()), fmt.Sprintf("runtime.Code.%s is read by readCode but never written by writeCode", fld))
		default:
			r.fail("field-not-read:"+fld, p.Pos(rc.Pos()), fmt.Sprintf("runtime.Code.%s is written by writeCode but never read by readCode", fld))
		}
	}
	// (c) tag sets and payloads
	vt := constsOfType(p, "runtime", "ValueType")
	wt := comparedConsts(wk, "runtime", "ValueType")
	rt := comparedConsts(rk, "runtime", "ValueType")
	payload := func(blks []*ssa.BasicBlock, f *ssa.Function, reading bool) string {
		var out []string
		seen := map[*ssa.BasicBlock]bool{}
		for _, b := range blks {
			for _, d := range f.Blocks {
				if !b.Dominates(d) || seen[d] {
					continue
				}
				seen[d] = true
				for _, ins := range d.Instrs {
					call, ok := ins.(*ssa.Call)
					if !ok {
						continue
					}
					switch call.Call.StaticCallee() {
					case wW, rR:
						for _, e := range variadicElems(call.Call.Args[len(call.Call.Args)-1]) {
							if mi, ok := e.(*ssa.MakeInterface); ok {
								e = mi.X
							}
							if _, isK := e.(*ssa.Const); isK && !reading {
								continue // the tag
							}
							t := e.Type()
							if reading {
								if pt, ok := t.(*types.Pointer); ok {
									t = pt.Elem()
								}
							}
							out = append(out, shortType(t.String()))
						}
					case wS, rS:
						out = append(out, "string")
					case wc, rc:
						out = append(out, "code")
					}
				}
			}
		}
		sort.Strings(out)
		return strings.Join(out, ",")
	}
	var tags []int64
	for k := range wt {
		tags = append(tags, k)
	}
	for k := range rt {
		if _, ok := wt[k]; !ok {
			tags = append(tags, k)
		}
	}
	sort.Slice(tags, func(i, j int) bool { return tags[i] < tags[j] })
	r.count("value_type_tags", len(tags))
	r.floor("value_type_tags", 4)
	for _, k := range tags {
		n := nameOfConst(vt, k)
		_, inW := wt[k]
		_, inR := rt[k]
		switch {
		case inW && !inR:
			r.fail("tag-not-read:"+n, p.Pos(rk.Pos()), fmt.Sprintf("writeConst emits constants tagged %s but readConst has no case for that tag: load(string.dump(f)) fails for functions with such a constant", n))
		case inR && !inW:
			r.fail("tag-not-written:"+n, p.Pos(wk.Pos()), fmt.Sprintf("readConst accepts tag %s but writeConst never emits it", n))
		default:
			a, b := payload(wt[k], wk, false), payload(rt[k], rk, true)
			if a == b {
				r.ok(fmt.Sprintf("(c) tag %s: payload %s on both sides", n, a))
			} else {
				r.fail("tag-payload-mismatch:"+n, p.Pos(rk.Pos()), fmt.Sprintf("constants tagged %s are written as [%s] and read as [%s]", n, a, b))
			}
		}
	}
	// (d) prefix
	sp := p.SSAPkgs[modPath+"/runtime"]
	pfx, _ := sp.Members["marshalPrefix"].(*ssa.Global)
	if pfx == nil {
		r.broken("anchor unresolved: runtime.marshalPrefix")
		return r
	}
	for _, fn := range []string{"MarshalConst", "UnmarshalConst", "HasMarshalPrefix"} {
		f := p.Func("runtime", fn)
		if f == nil {
			r.broken("anchor unresolved: runtime.%s", fn)
			continue
		}
		uses := false
		forEachInstr(f, func(ins ssa.Instruction) {
			for _, op := range ins.Operands(nil) {
				if op != nil && *op == pfx {
					uses = true
				}
			}
		})
		if uses {
			r.ok("(d) " + fn + " uses marshalPrefix")
		} else {
			r.fail("prefix-not-shared:"+fn, p.Pos(f.Pos()), fmt.Sprintf("runtime.%s no longer refers to marshalPrefix: writer, reader and sniffer can disagree on the magic bytes", fn))
		}
	}
	// nobody writes marshalPrefix after init
	for _, f := range p.ModFuncs() {
		if isInitFunc(f) {
			continue
		}
		forEachInstr(f, func(ins ssa.Instruction) {
			if st, ok := ins.(*ssa.Store); ok && globalOf(st.Addr, 0) == pfx {
				r.fail("prefix-written:"+fnKey(f), p.InstrPos(ins), fnKey(f)+" modifies marshalPrefix at run time")
			}
		})
	}
	return r
}

// ruleMapOrder: determinism of dumping.
func ruleMapOrder(c *Ctx) *RuleResult {
	r := newResult("R-MAPORDER", "dumping is deterministic as far as the shape of the code can tell: no function reachable from string.dump (constant re-indexing, serialisation) iterates over a Go map, whose order differs from run to run; table-listed exceptions need a reason why the order cannot reach the output")
	p := c.P
	dump := p.Func("lib/stringlib", "dump")
	if dump == nil {
		r.broken("anchor unresolved: lib/stringlib.dump")
		return r
	}
	re := &Reach{p: p, PreciseCallbacks: true}
	re.Run([]*ssa.Function{dump}, nil)
	fns := re.ReachedModuleFuncs()
	r.count("functions_reachable_from_dump", len(fns))
	r.floor("functions_reachable_from_dump", 15)
	isMapRange := func(ins ssa.Instruction) bool {
		rg, ok := ins.(*ssa.Range)
		if !ok {
			return false
		}
		_, isMap := rg.X.Type().Underlying().(*types.Map)
		return isMap
	}
	mustReach := map[string]bool{"(*runtime.Runtime).RefactorCodeConsts": false, "(*runtime.bwriter).writeCode": false}
	for _, f := range fns {
		if _, ok := mustReach[fnKey(f)]; ok {
			mustReach[fnKey(f)] = true
		}
		found := false
		forEachInstr(f, func(ins ssa.Instruction) {
			if isMapRange(ins) {
				found = true
				key := "map-iteration-on-dump-path:" + fnKey(f)
				if why, ok := mapOrderTable[fnKey(f)]; ok {
					r.ok("table: " + key + " — " + why)
					return
				}
				r.fail(key, p.InstrPos(ins), fmt.Sprintf("%s, reachable from string.dump, ranges over a map: Go randomises that order, so whatever the loop numbers, appends or writes can differ between two dumps of the same function", fnKey(f)), re.PathTo(searchState{fn: f, mode: modeModule}, nil)...)
			}
		})
		if !found {
			r.ok("")
		}
	}
	for k, ok := range mustReach {
		if !ok {
			r.broken("reachability lost: %s is not reached from lib/stringlib.dump", k)
		}
	}
	// positive control: the detector recognises map ranges (there are some elsewhere in the module)
	total := 0
	for _, f := range p.ModFuncs() {
		forEachInstr(f, func(ins ssa.Instruction) {
			if isMapRange(ins) {
				total++
			}
		})
	}
	r.count("map_ranges_in_module", total)
	r.floor("map_ranges_in_module", 1)
	return r
}

// mapOrderTable: functions on the dump path allowed to range over a map.
var mapOrderTable = map[string]string{}
