// luaverif: repository-specific static analyser deciding structural necessary
// conditions of the golua properties in /verif/properties.jsonl. It never runs
// golua code. See /verif/DESIGN.md.
package main

import (
	"encoding/json"
	"flag"
	"fmt"
	"os"
	"os/exec"
	"path/filepath"
	"runtime/debug"
	"sort"
	"strconv"
	"strings"
	"sync"
	"time"
)

type Ctx struct {
	Tier string
	P    *Program
	reg  *RegTable
}

type ruleFn func(c *Ctx) *RuleResult

type ruleSpec struct {
	Name string
	Fn   ruleFn
	// AllConfigs: in the thorough tier, run under every build configuration.
	AllConfigs bool
}

type propSpec struct {
	ID          string
	Rules       []string
	Explanation string
	Assumptions []string
	NotDecided  string
	// Scope: if set, only findings located under these path prefixes belong to this
	// property (the same rules run unrestricted under the property that owns the rest).
	Scope []string
}

var ruleTable = map[string]*ruleSpec{}

func registerRule(name string, allConfigs bool, fn ruleFn) {
	ruleTable[name] = &ruleSpec{Name: name, Fn: fn, AllConfigs: allConfigs}
}

func main() {
	if len(os.Args) < 2 {
		usage()
	}
	switch os.Args[1] {
	case "check":
		os.Exit(cmdCheck(os.Args[2:]))
	case "rules":
		os.Exit(cmdRules(os.Args[2:]))
	case "list":
		ids := []string{}
		for id := range propTable {
			ids = append(ids, id)
		}
		sort.Strings(ids)
		for _, id := range ids {
			fmt.Println(id, strings.Join(propTable[id].Rules, ","))
		}
	default:
		usage()
	}
}

func usage() {
	fmt.Fprintln(os.Stderr, "usage: luaverif check <Cxx> [--tier quick|thorough]\n       luaverif rules <r1,r2,..> [--config name] [--tier t]   (prints JSON)\n       luaverif list")
	os.Exit(2)
}

// runRules loads the repo under cfg and runs the named rules in-process. A
// panic inside a rule marks it broken (never a pass).
func runRules(cfg BuildConfig, tier string, names []string) ([]*RuleResult, error) {
	p, err := Load(cfg, true)
	if err != nil {
		return nil, err
	}
	ctx := &Ctx{Tier: tier, P: p}
	var out []*RuleResult
	for _, n := range names {
		spec := ruleTable[n]
		if spec == nil {
			return nil, fmt.Errorf("unknown rule %s", n)
		}
		out = append(out, safeRun(ctx, spec))
	}
	return out, nil
}

func safeRun(ctx *Ctx, spec *ruleSpec) (res *RuleResult) {
	defer func() {
		if r := recover(); r != nil {
			res = newResult(spec.Name, "")
			res.broken("checker panic in rule %s: %v\n%s", spec.Name, r, debug.Stack())
		}
	}()
	res = spec.Fn(ctx)
	if res == nil {
		res = newResult(spec.Name, "")
		res.broken("rule returned nothing")
	}
	return res
}

func cmdRules(args []string) int {
	fs := flag.NewFlagSet("rules", flag.ExitOnError)
	cfgName := fs.String("config", "default", "build configuration")
	tier := fs.String("tier", "quick", "tier")
	if len(args) < 1 {
		usage()
	}
	names := strings.Split(args[0], ",")
	fs.Parse(args[1:])
	cfg, ok := configByName(*cfgName)
	if !ok {
		fmt.Fprintln(os.Stderr, "unknown config", *cfgName)
		return 2
	}
	res, err := runRules(cfg, *tier, names)
	if err != nil {
		// a load failure under this configuration is itself a result
		rr := newResult("LOAD", "the repository type-checks under build configuration "+cfg.Name)
		rr.broken("%v", err)
		res = []*RuleResult{rr}
	}
	for _, r := range res {
		for i := range r.Findings {
			r.Findings[i].Config = cfg.Name
		}
	}
	json.NewEncoder(os.Stdout).Encode(res)
	return 0
}

func cmdCheck(args []string) int {
	if len(args) < 1 {
		usage()
	}
	id := args[0]
	fs := flag.NewFlagSet("check", flag.ExitOnError)
	tierFlag := fs.String("tier", "", "quick|thorough")
	fs.Parse(args[1:])
	tier := *tierFlag
	if tier == "" {
		tier = os.Getenv("VERIF_TIER")
	}
	if tier != "thorough" {
		tier = "quick"
	}
	seed, _ := strconv.Atoi(os.Getenv("VERIF_SEED"))
	spec := propTable[id]
	if spec == nil {
		fmt.Fprintf(os.Stderr, "no check for property %s\n", id)
		return 2
	}
	start := time.Now()
	evPath := filepath.Join(evidenceDir(), id+".json")
	os.Remove(evPath)
	vdir := filepath.Join(evidenceDir(), "violations")
	if old, _ := filepath.Glob(filepath.Join(vdir, id+"-*.json")); len(old) > 0 {
		for _, o := range old {
			os.Remove(o)
		}
	}

	var results []*RuleResult
	var configsRun []string
	if tier == "quick" {
		cfg := allConfigs[0]
		res, err := runRules(cfg, tier, spec.Rules)
		if err != nil {
			fmt.Printf("CHECK-BROKEN property=%s: %v\n", id, err)
			return 2
		}
		results = res
		configsRun = []string{cfg.Name}
	} else {
		// thorough: every configuration in its own subprocess (memory), merged.
		var allCfgRules, defOnly []string
		for _, n := range spec.Rules {
			if ruleTable[n].AllConfigs {
				allCfgRules = append(allCfgRules, n)
			} else {
				defOnly = append(defOnly, n)
			}
		}
		type job struct {
			cfg   BuildConfig
			rules []string
			out   []*RuleResult
			err   error
		}
		var jobs []*job
		jobs = append(jobs, &job{cfg: allConfigs[0], rules: spec.Rules})
		if len(allCfgRules) > 0 {
			for _, c := range allConfigs[1:] {
				jobs = append(jobs, &job{cfg: c, rules: allCfgRules})
			}
		}
		_ = defOnly
		self, _ := os.Executable()
		var wg sync.WaitGroup
		sem := make(chan struct{}, 4)
		for _, j := range jobs {
			wg.Add(1)
			go func(j *job) {
				defer wg.Done()
				sem <- struct{}{}
				defer func() { <-sem }()
				cmd := exec.Command(self, "rules", strings.Join(j.rules, ","), "--config", j.cfg.Name, "--tier", tier)
				cmd.Stderr = os.Stderr
				b, err := cmd.Output()
				if err != nil {
					j.err = fmt.Errorf("subprocess for config %s: %v", j.cfg.Name, err)
					return
				}
				j.err = json.Unmarshal(b, &j.out)
			}(j)
		}
		wg.Wait()
		merged := map[string]*RuleResult{}
		var order []string
		for _, j := range jobs {
			configsRun = append(configsRun, j.cfg.Name)
			if j.err != nil {
				fmt.Printf("CHECK-BROKEN property=%s: %v\n", id, j.err)
				return 2
			}
			for _, r := range j.out {
				m := merged[r.Rule]
				if m == nil {
					merged[r.Rule] = r
					order = append(order, r.Rule)
					if j.cfg.Name != "default" {
						for i := range r.Broken {
							r.Broken[i] = "[" + j.cfg.Name + "] " + r.Broken[i]
						}
					}
					continue
				}
				m.Obligations += r.Obligations
				m.Discharged += r.Discharged
				for k, v := range r.Counters {
					m.Counters[j.cfg.Name+":"+k] = v
				}
				seen := map[string]bool{}
				for _, f := range m.Findings {
					seen[f.Key] = true
				}
				for _, f := range r.Findings {
					if !seen[f.Key] {
						m.Findings = append(m.Findings, f)
					}
				}
				for _, b := range r.Broken {
					m.Broken = append(m.Broken, "["+j.cfg.Name+"] "+b)
				}
			}
		}
		for _, n := range order {
			results = append(results, merged[n])
		}
	}

	known, err := loadKnown()
	if err != nil {
		fmt.Printf("CHECK-BROKEN property=%s: %v\n", id, err)
		return 2
	}
	knownKeys := map[string]knownEntry{}
	for _, k := range known {
		if k.Kind == "known" && k.Property == id {
			knownKeys[k.Key] = k
		}
	}

	var broken []string
	outOfScope := 0
	var unlisted, listed []Finding
	obligations, discharged := 0, 0
	var samples []interface{}
	ruleDetails := []interface{}{}
	var ruleTexts []string
	for _, r := range results {
		obligations += r.Obligations
		discharged += r.Discharged
		for _, b := range r.Broken {
			broken = append(broken, r.Rule+": "+b)
		}
		sortFindings(r.Findings)
		for _, f := range r.Findings {
			if len(spec.Scope) > 0 {
				in := false
				for _, pre := range spec.Scope {
					if strings.HasPrefix(f.Pos, pre) {
						in = true
					}
				}
				if !in {
					outOfScope++
					continue
				}
			}
			if _, ok := knownKeys[f.Key]; ok {
				listed = append(listed, f)
			} else {
				unlisted = append(unlisted, f)
			}
		}
		for i, s := range r.Samples {
			if i < 4 {
				samples = append(samples, r.Rule+": "+s)
			}
		}
		ruleTexts = append(ruleTexts, r.Rule+": "+r.Text)
		ruleDetails = append(ruleDetails, map[string]interface{}{
			"rule": r.Rule, "text": r.Text, "analysed": r.Counters, "obligations": r.Obligations,
			"discharged": r.Discharged, "violated_keys": findingKeys(r.Findings), "notes": r.Notes,
			"tables_applied": r.Tables, "samples": r.Samples,
		})
	}
	// known findings that no longer fire are reported (not fatal): the file
	// should then be updated to a fixed: entry.
	firing := map[string]bool{}
	for _, f := range listed {
		firing[f.Key] = true
	}
	var stale []string
	for k := range knownKeys {
		if !firing[k] {
			stale = append(stale, k)
		}
	}
	sort.Strings(stale)

	for _, b := range broken {
		fmt.Printf("CHECK-BROKEN property=%s %s\n", id, b)
	}
	printedKnown := map[string]bool{}
	for _, f := range listed {
		if printedKnown[f.Key] {
			continue
		}
		printedKnown[f.Key] = true
		fmt.Printf("KNOWN-FINDING: property=%s %s [%s at %s] %s\n", id, knownKeys[f.Key].Text, f.Key, f.Pos, f.Msg)
	}
	for _, s := range stale {
		fmt.Printf("NOTE property=%s known finding no longer reported (repaired?): %s\n", id, s)
	}
	for i, f := range unlisted {
		path := filepath.Join(vdir, fmt.Sprintf("%s-%d.json", id, i+1))
		writeJSON(path, map[string]interface{}{
			"property": id, "rule": f.Rule, "key": f.Key, "pos": f.Pos, "message": f.Msg, "path": f.Path,
			"config": f.Config, "rule_text": textOf(results, f.Rule),
			"replay": fmt.Sprintf("/verif/bin/luaverif check %s   # re-analyses /repo; this finding is keyed %q", id, f.Key),
		})
		fmt.Printf("%s: %s: %s\n", f.Pos, f.Key, f.Msg)
		for _, h := range f.Path {
			fmt.Printf("    %s\n", h)
		}
		fmt.Printf("VIOLATION property=%s replay=%s\n", id, path)
	}

	if samples == nil {
		samples = []interface{}{"(no obligations)"}
	}
	ev := evidence{
		PropertyID: id, Tier: tier, Seed: seed, Level: "other",
		Coverage: map[string]interface{}{
			"explanation": spec.Explanation + " NOT decided by this check: " + spec.NotDecided,
			"obligations": obligations, "discharged": discharged,
			"samples":                              samples,
			"rule":                                 strings.Join(ruleTexts, " || "),
			"checker_cmd":                          "/verif/bin/luaverif check " + id + " --tier " + tier,
			"trusted_base":                         []string{"Go type checker (go/types)", "golang.org/x/tools v0.29.0 go/packages, go/ssa, dominators, VTA+CHA call graph as an over-approximation of calls", "frozen tables compiled into the checker (/verif/checker/tables.go), each entry confirmed by reading"},
			"configurations":                       configsRun,
			"rules":                                ruleDetails,
			"known_findings_reported":              len(printedKnown),
			"unlisted_violations":                  len(unlisted),
			"findings_outside_this_property_scope": outOfScope,
			"scope":                                spec.Scope,
			"broken":                               broken,
			"exhaustive":                           true,
		},
		Assumptions: spec.Assumptions,
		WallS:       time.Since(start).Seconds(),
		Violations:  len(unlisted),
	}
	if err := writeJSON(evPath, ev); err != nil {
		fmt.Printf("CHECK-BROKEN property=%s cannot write evidence: %v\n", id, err)
		return 2
	}
	fmt.Printf("property=%s tier=%s configs=%d rules=%d obligations=%d discharged=%d known=%d violations=%d broken=%d wall=%.1fs\n",
		id, tier, len(configsRun), len(results), obligations, discharged, len(printedKnown), len(unlisted), len(broken), time.Since(start).Seconds())
	if len(broken) > 0 {
		return 2
	}
	if len(unlisted) > 0 {
		return 1
	}
	return 0
}

func findingKeys(fs []Finding) []string {
	out := []string{}
	seen := map[string]bool{}
	for _, f := range fs {
		if !seen[f.Key] {
			seen[f.Key] = true
			out = append(out, f.Key)
		}
	}
	return out
}

func textOf(rs []*RuleResult, rule string) string {
	for _, r := range rs {
		if r.Rule == rule {
			return r.Text
		}
	}
	return ""
}
