package main

import (
	"fmt"
	"golang.org/x/tools/go/packages"
	"golang.org/x/tools/go/ssa"
	"golang.org/x/tools/go/ssa/ssautil"
	"golang.org/x/tools/go/callgraph/vta"
	"golang.org/x/tools/go/callgraph/cha"
	_ "golang.org/x/tools/go/cfg"
)

func main() {
	cfg := &packages.Config{Mode: packages.LoadAllSyntax, Dir: "/repo"}
	pkgs, err := packages.Load(cfg, "./...")
	fmt.Println(len(pkgs), err)
	prog, _ := ssautil.AllPackages(pkgs, ssa.InstantiateGenerics)
	prog.Build()
	g := vta.CallGraph(ssautil.AllFunctions(prog), cha.CallGraph(prog))
	fmt.Println(len(g.Nodes))
}
