package main

import (
	"go/token"
	"go/types"

	"golang.org/x/tools/go/ssa"
)

// fieldOfAddr returns (relpkg, struct type name, field name) for a FieldAddr.
func fieldOfAddr(fa *ssa.FieldAddr) (string, string, string) {
	t := fa.X.Type()
	if pt, ok := t.Underlying().(*types.Pointer); ok {
		t = pt.Elem()
	}
	st, ok := t.Underlying().(*types.Struct)
	if !ok {
		return "", "", ""
	}
	rel, name, _ := namedOf(t)
	return rel, name, st.Field(fa.Field).Name()
}

func fieldOfField(f *ssa.Field) (string, string, string) {
	t := f.X.Type()
	st, ok := t.Underlying().(*types.Struct)
	if !ok {
		return "", "", ""
	}
	rel, name, _ := namedOf(t)
	return rel, name, st.Field(f.Field).Name()
}

// forEachInstr visits every instruction of f.
func forEachInstr(f *ssa.Function, fn func(ssa.Instruction)) {
	for _, b := range f.Blocks {
		for _, ins := range b.Instrs {
			fn(ins)
		}
	}
}

// instrIndex returns the index of ins in its block.
func instrIndex(ins ssa.Instruction) int {
	for i, x := range ins.Block().Instrs {
		if x == ins {
			return i
		}
	}
	return -1
}

// instrDominates reports whether a is executed before b on every path to b.
func instrDominates(a, b ssa.Instruction) bool {
	if a.Block() == b.Block() {
		return instrIndex(a) < instrIndex(b)
	}
	return a.Block().Dominates(b.Block())
}

// backSlice collects the values v transitively depends on through
// value-preserving/arithmetical instructions (not through calls' arguments
// unless throughCalls). It is a def-use slice for dependency-presence rules.
func backSlice(v ssa.Value, throughCalls bool) map[ssa.Value]bool {
	seen := map[ssa.Value]bool{}
	var walk func(v ssa.Value)
	walk = func(v ssa.Value) {
		if v == nil || seen[v] {
			return
		}
		seen[v] = true
		switch x := v.(type) {
		case *ssa.Phi:
			for _, e := range x.Edges {
				walk(e)
			}
		case *ssa.BinOp:
			walk(x.X)
			walk(x.Y)
		case *ssa.UnOp:
			walk(x.X)
		case *ssa.Convert:
			walk(x.X)
		case *ssa.ChangeType:
			walk(x.X)
		case *ssa.ChangeInterface:
			walk(x.X)
		case *ssa.MakeInterface:
			walk(x.X)
		case *ssa.Extract:
			walk(x.Tuple)
		case *ssa.FieldAddr:
			walk(x.X)
		case *ssa.Field:
			walk(x.X)
		case *ssa.IndexAddr:
			walk(x.X)
			walk(x.Index)
		case *ssa.Index:
			walk(x.X)
			walk(x.Index)
		case *ssa.Slice:
			walk(x.X)
			walk(x.Low)
			walk(x.High)
		case *ssa.TypeAssert:
			walk(x.X)
		case *ssa.Call:
			if throughCalls {
				for _, a := range x.Call.Args {
					walk(a)
				}
				if x.Call.IsInvoke() {
					walk(x.Call.Value)
				}
			}
		}
	}
	walk(v)
	return seen
}

// condBranch describes an If on a comparison `x OP y`.
type condBranch struct {
	If  *ssa.If
	Op  token.Token
	X   ssa.Value
	Y   ssa.Value
	Neg bool // condition was wrapped in a ! (UnOp NOT)
}

func condOf(i *ssa.If) (condBranch, bool) {
	c := i.Cond
	neg := false
	for {
		if u, ok := c.(*ssa.UnOp); ok && u.Op == token.NOT {
			neg = !neg
			c = u.X
			continue
		}
		break
	}
	b, ok := c.(*ssa.BinOp)
	if !ok {
		return condBranch{If: i, Neg: neg}, false
	}
	return condBranch{If: i, Op: b.Op, X: b.X, Y: b.Y, Neg: neg}, true
}

func isNilConst(v ssa.Value) bool {
	c, ok := v.(*ssa.Const)
	return ok && c.Value == nil
}

// blockReaches reports whether `to` is reachable from `from` in the CFG.
func blockReaches(from, to *ssa.BasicBlock) bool {
	seen := map[*ssa.BasicBlock]bool{}
	var stack = []*ssa.BasicBlock{from}
	for len(stack) > 0 {
		b := stack[len(stack)-1]
		stack = stack[:len(stack)-1]
		if b == to {
			return true
		}
		if seen[b] {
			continue
		}
		seen[b] = true
		stack = append(stack, b.Succs...)
	}
	return false
}

// errNilGuard: given a call instruction `k` returning an error (alone or last
// in a tuple), find the If that tests it against nil and return the successor
// block taken when the error is nil (ok) and the one taken when non-nil (bad).
func errNilGuard(k ssa.Value) (okBlk, badBlk *ssa.BasicBlock, found bool) {
	cands := map[ssa.Value]bool{k: true}
	// include extracts
	if refs := k.Referrers(); refs != nil {
		for _, r := range *refs {
			if ex, ok := r.(*ssa.Extract); ok {
				cands[ex] = true
			}
		}
	}
	for cand := range cands {
		refs := cand.Referrers()
		if refs == nil {
			continue
		}
		for _, r := range *refs {
			b, ok := r.(*ssa.BinOp)
			if !ok || (b.Op != token.NEQ && b.Op != token.EQL) {
				continue
			}
			if !(isNilConst(b.X) || isNilConst(b.Y)) {
				continue
			}
			for _, br := range *b.Referrers() {
				iff, ok := br.(*ssa.If)
				if !ok {
					continue
				}
				if b.Op == token.NEQ {
					return iff.Block().Succs[1], iff.Block().Succs[0], true
				}
				return iff.Block().Succs[0], iff.Block().Succs[1], true
			}
		}
	}
	return nil, nil, false
}

// callsTo lists call instructions in f whose static callee satisfies pred.
func callsTo(f *ssa.Function, pred func(*ssa.Function) bool) []ssa.CallInstruction {
	var out []ssa.CallInstruction
	forEachInstr(f, func(ins ssa.Instruction) {
		if c, ok := ins.(ssa.CallInstruction); ok {
			if cal := c.Common().StaticCallee(); cal != nil && pred(cal) {
				out = append(out, c)
			}
		}
	})
	return out
}

// isCtxMethod reports whether f is the method `name` of the context manager
// (runtimeContextManager), possibly via a promoted-method wrapper on Runtime or
// Thread.
func isCtxMethod(f *ssa.Function, name string) bool {
	if f == nil || f.Name() != name {
		return false
	}
	for _, tn := range []string{"runtimeContextManager", "Runtime", "Thread"} {
		if isMethodOf(f, "runtime", tn, name) {
			return true
		}
	}
	return false
}

// constOf returns the decimal value of a package-level integer constant, "" if absent.
func constOf(p *Program, rel, name string) string {
	pk := p.Pkg(rel)
	if pk == nil {
		return ""
	}
	o := pk.Types.Scope().Lookup(name)
	c, ok := o.(*types.Const)
	if !ok {
		return ""
	}
	return c.Val().ExactString()
}

// backSliceAllocs: backSlice that also follows loads of locals (Allocs) to the
// values stored into them.
func backSliceAllocs(v ssa.Value, throughCalls bool) map[ssa.Value]bool {
	seen := map[ssa.Value]bool{}
	work := []ssa.Value{v}
	for len(work) > 0 {
		x := work[len(work)-1]
		work = work[:len(work)-1]
		for w := range backSlice(x, throughCalls) {
			if seen[w] {
				continue
			}
			seen[w] = true
			if al, ok := w.(*ssa.Alloc); ok && al.Referrers() != nil {
				for _, ref := range *al.Referrers() {
					if st, ok := ref.(*ssa.Store); ok && st.Addr == al && !seen[st.Val] {
						work = append(work, st.Val)
					}
				}
			}
		}
	}
	return seen
}

// terminators: the module functions that raise a context termination, i.e.
// contain panic(v) with v a runtime.ContextTerminationError (found by what they
// do, not by name: TerminateContext, or the helper it shares with the
// budget checks).
func (p *Program) terminators() map[*ssa.Function]bool {
	out := map[*ssa.Function]bool{}
	cte := p.TypeNamed("runtime", "ContextTerminationError")
	if cte == nil {
		return out
	}
	for _, f := range p.ModFuncs() {
		if f.Blocks == nil || f.Synthetic != "" {
			continue
		}
		forEachInstr(f, func(ins ssa.Instruction) {
			if pn, ok := ins.(*ssa.Panic); ok {
				if mi, ok := pn.X.(*ssa.MakeInterface); ok && types.Identical(mi.X.Type(), cte) {
					out[f] = true
				}
			}
		})
	}
	return out
}
