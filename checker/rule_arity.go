package main

import (
	"fmt"
	"go/token"
	"go/types"
	"math"
	"sort"
	"strings"

	"golang.org/x/tools/go/ssa"
)

func init() {
	registerRule("R-ARITY", false, ruleArity)
}

// idxExpr: a symbolic argument index: either a finite set of constants or
// (parameter #param of the enclosing function) + off.
type idxExpr struct {
	param   int // -1: constants
	off     int64
	consts  []int64
	unknown bool
}

func (e idxExpr) String() string {
	if e.unknown {
		return "?"
	}
	if e.param >= 0 {
		return fmt.Sprintf("p%d+%d", e.param, e.off)
	}
	return fmt.Sprint(e.consts)
}

type argRead struct {
	contParam int     // which parameter of the function is the *GoCont
	idx       idxExpr // index read
	nmin      int64   // NArgs() >= nmin is known at the read (from guards on the path)
	symSafe   bool    // guarded by NArgs() > idx itself
	via       string  // chain of helpers, for the report
	pos       string
}

func (r argRead) key() string {
	return fmt.Sprintf("%d|%s|%d|%v", r.contParam, r.idx, r.nmin, r.symSafe)
}

func isGoContPtr(t types.Type) bool {
	rel, name, ok := namedOf(t)
	if !ok {
		return false
	}
	_, isPtr := t.(*types.Pointer)
	return isPtr && rel == "runtime" && name == "GoCont"
}

func paramIndex(f *ssa.Function, v ssa.Value) int {
	for i, p := range f.Params {
		if p == v {
			return i
		}
	}
	return -1
}

func evalIdx(f *ssa.Function, v ssa.Value, depth int) idxExpr {
	if depth > 8 {
		return idxExpr{unknown: true}
	}
	switch x := v.(type) {
	case *ssa.Const:
		if k, ok := constInt(x); ok {
			return idxExpr{param: -1, consts: []int64{k}}
		}
	case *ssa.Parameter:
		if i := paramIndex(f, x); i >= 0 {
			return idxExpr{param: i}
		}
	case *ssa.Convert:
		return evalIdx(f, x.X, depth+1)
	case *ssa.ChangeType:
		return evalIdx(f, x.X, depth+1)
	case *ssa.BinOp:
		if x.Op == token.ADD || x.Op == token.SUB {
			l := evalIdx(f, x.X, depth+1)
			r := evalIdx(f, x.Y, depth+1)
			if l.unknown || r.unknown {
				return idxExpr{unknown: true}
			}
			sign := int64(1)
			if x.Op == token.SUB {
				sign = -1
			}
			if r.param < 0 && len(r.consts) >= 1 {
				if l.param >= 0 && len(r.consts) == 1 {
					return idxExpr{param: l.param, off: l.off + sign*r.consts[0]}
				}
				if l.param < 0 {
					var out []int64
					for _, a := range l.consts {
						for _, b := range r.consts {
							out = append(out, a+sign*b)
						}
					}
					return idxExpr{param: -1, consts: dedupInts(out)}
				}
			}
			if x.Op == token.ADD && l.param < 0 && len(l.consts) == 1 && r.param >= 0 {
				return idxExpr{param: r.param, off: r.off + l.consts[0]}
			}
		}
	case *ssa.Phi:
		var out []int64
		for _, e := range x.Edges {
			ev := evalIdx(f, e, depth+1)
			if ev.unknown || ev.param >= 0 {
				return idxExpr{unknown: true}
			}
			out = append(out, ev.consts...)
		}
		return idxExpr{param: -1, consts: dedupInts(out)}
	}
	return idxExpr{unknown: true}
}

func dedupInts(xs []int64) []int64 {
	sort.Slice(xs, func(i, j int) bool { return xs[i] < xs[j] })
	var out []int64
	for i, x := range xs {
		if i == 0 || x != xs[i-1] {
			out = append(out, x)
		}
	}
	return out
}

// nargsBounds computes, for each block of f, a lower bound on cont.NArgs() that
// holds at block entry, by forward dataflow over guards on NArgs(), CheckNArgs
// and Check1Arg of the same continuation value.
func nargsBounds(f *ssa.Function, cont ssa.Value) map[*ssa.BasicBlock]int64 {
	const top = math.MaxInt64
	isN := func(v ssa.Value) bool {
		for {
			switch x := v.(type) {
			case *ssa.Convert:
				v = x.X
				continue
			case *ssa.ChangeType:
				v = x.X
				continue
			}
			break
		}
		call, ok := v.(*ssa.Call)
		if !ok {
			return false
		}
		cal := call.Call.StaticCallee()
		return cal != nil && isMethodOf(cal, "runtime", "GoCont", "NArgs") && len(call.Call.Args) == 1 && call.Call.Args[0] == cont
	}
	// edgeBound(pred, succIndex): bound implied by taking that edge.
	edgeBound := func(b *ssa.BasicBlock, si int) int64 {
		if len(b.Instrs) == 0 {
			return 0
		}
		iff, ok := b.Instrs[len(b.Instrs)-1].(*ssa.If)
		if !ok {
			return 0
		}
		cb, ok := condOf(iff)
		if !ok {
			return 0
		}
		taken := si == 0 // true branch
		if cb.Neg {
			taken = !taken
		}
		// error-nil guards from CheckNArgs / Check1Arg
		if (cb.Op == token.NEQ || cb.Op == token.EQL) && (isNilConst(cb.X) || isNilConst(cb.Y)) {
			ev := cb.X
			if isNilConst(cb.X) {
				ev = cb.Y
			}
			if call, ok := ev.(*ssa.Call); ok {
				cal := call.Call.StaticCallee()
				if cal != nil && len(call.Call.Args) >= 1 && call.Call.Args[0] == cont {
					var k int64 = -1
					if isMethodOf(cal, "runtime", "GoCont", "Check1Arg") {
						k = 1
					} else if isMethodOf(cal, "runtime", "GoCont", "CheckNArgs") && len(call.Call.Args) == 2 {
						if kk, ok := constInt(call.Call.Args[1]); ok {
							k = kk
						}
					}
					if k >= 0 {
						errNil := (cb.Op == token.EQL) == taken
						if errNil {
							return k
						}
					}
				}
			}
			return 0
		}
		var op token.Token
		var kv ssa.Value
		switch {
		case isN(cb.X):
			op, kv = cb.Op, cb.Y
		case isN(cb.Y):
			kv = cb.X
			switch cb.Op {
			case token.LSS:
				op = token.GTR
			case token.LEQ:
				op = token.GEQ
			case token.GTR:
				op = token.LSS
			case token.GEQ:
				op = token.LEQ
			default:
				op = cb.Op
			}
		default:
			return 0
		}
		k, ok := constInt(kv)
		if !ok {
			return 0
		}
		// N op k, on branch `taken`
		switch op {
		case token.GTR:
			if taken {
				return k + 1
			}
		case token.GEQ:
			if taken {
				return k
			}
		case token.LSS:
			if !taken {
				return k
			}
		case token.LEQ:
			if !taken {
				return k + 1
			}
		case token.EQL:
			if taken {
				return k
			}
			if !taken && k == 0 {
				return 1
			}
		case token.NEQ:
			if !taken {
				return k
			}
			if taken && k == 0 {
				return 1
			}
		}
		return 0
	}
	in := map[*ssa.BasicBlock]int64{}
	for _, b := range f.Blocks {
		in[b] = top
	}
	if len(f.Blocks) == 0 {
		return in
	}
	in[f.Blocks[0]] = 0
	changed := true
	for changed {
		changed = false
		for _, b := range f.Blocks {
			if b == f.Blocks[0] {
				continue
			}
			var m int64 = top
			for _, pr := range b.Preds {
				if in[pr] == top {
					continue
				}
				for si, s := range pr.Succs {
					if s != b {
						continue
					}
					v := in[pr]
					if eb := edgeBound(pr, si); eb > v {
						v = eb
					}
					if v < m {
						m = v
					}
				}
			}
			if m != in[b] && m != top {
				if in[b] == top || m < in[b] || m > in[b] {
					// recompute exactly (monotone from top downwards, but first
					// visit order may overestimate; iterate to fixpoint)
					in[b] = m
					changed = true
				}
			}
		}
	}
	return in
}

// symbolicallyGuarded: the read of index value idx at site is dominated by the
// taken branch of a comparison NArgs() > idx (or idx < NArgs()).
func symbolicallyGuarded(f *ssa.Function, cont ssa.Value, idx ssa.Value, site ssa.Instruction) bool {
	for _, b := range f.Blocks {
		if len(b.Instrs) == 0 {
			continue
		}
		iff, ok := b.Instrs[len(b.Instrs)-1].(*ssa.If)
		if !ok {
			continue
		}
		cb, ok := condOf(iff)
		if !ok {
			continue
		}
		isNv := func(v ssa.Value) bool {
			call, ok := v.(*ssa.Call)
			if !ok {
				return false
			}
			cal := call.Call.StaticCallee()
			return cal != nil && isMethodOf(cal, "runtime", "GoCont", "NArgs") && call.Call.Args[0] == cont
		}
		var safeSucc = -1
		switch {
		case isNv(cb.X) && cb.Y == idx: // N op idx
			switch cb.Op {
			case token.GTR:
				safeSucc = 0
			case token.LEQ:
				safeSucc = 1
			}
		case isNv(cb.Y) && cb.X == idx: // idx op N
			switch cb.Op {
			case token.LSS:
				safeSucc = 0
			case token.GEQ:
				safeSucc = 1
			}
		}
		if safeSucc < 0 {
			continue
		}
		if cb.Neg {
			safeSucc = 1 - safeSucc
		}
		sb := b.Succs[safeSucc]
		if len(sb.Preds) == 1 && sb.Dominates(site.Block()) {
			return true
		}
	}
	return false
}

func ruleArity(c *Ctx) *RuleResult {
	r := newResult("R-ARITY", "for every registration (fn, nArgs): every argument index k that fn or a helper receiving the same *GoCont reads through (*GoCont).Arg / <T>Arg (summaries to a fixpoint; k evaluated to a finite constant set) satisfies k < nArgs, unless the read is dominated by a guard implying NArgs() > k (then it is dead code, reported as a dead argument). GoCont.args has exactly nArgs elements, so an unguarded read with k >= nArgs is an index-out-of-range Go panic")
	p := c.P
	t := c.Reg()
	if len(t.Problems) > 0 {
		for _, pr := range t.Problems {
			r.broken("%s", pr)
		}
		return r
	}
	argFn := p.Func("runtime", "(*GoCont).Arg")
	if argFn == nil {
		r.broken("anchor unresolved: runtime.(*GoCont).Arg")
		return r
	}
	// the base reader must index c.args with its parameter
	baseOK := false
	forEachInstr(argFn, func(ins ssa.Instruction) {
		if ia, ok := ins.(*ssa.IndexAddr); ok && ia.Index == argFn.Params[1] {
			baseOK = true
		}
	})
	if !baseOK {
		r.broken("(*GoCont).Arg no longer indexes c.args with its parameter; rule anchors need review")
		return r
	}
	sum := map[*ssa.Function][]argRead{}
	sum[argFn] = []argRead{{contParam: 0, idx: idxExpr{param: 1}, via: "Arg"}}
	undecided := map[string]string{}

	// candidate functions: module functions with a *GoCont parameter
	var cands []*ssa.Function
	for _, f := range p.ModFuncs() {
		if f == argFn || f.Blocks == nil {
			continue
		}
		for _, prm := range f.Params {
			if isGoContPtr(prm.Type()) {
				cands = append(cands, f)
				break
			}
		}
	}
	r.count("functions_with_GoCont_param", len(cands))
	boundsCache := map[*ssa.Function]map[ssa.Value]map[*ssa.BasicBlock]int64{}
	getBounds := func(f *ssa.Function, cont ssa.Value) map[*ssa.BasicBlock]int64 {
		m := boundsCache[f]
		if m == nil {
			m = map[ssa.Value]map[*ssa.BasicBlock]int64{}
			boundsCache[f] = m
		}
		if b, ok := m[cont]; ok {
			return b
		}
		b := nargsBounds(f, cont)
		m[cont] = b
		return b
	}
	for round := 0; round < 12; round++ {
		changed := false
		for _, f := range cands {
			have := map[string]bool{}
			for _, e := range sum[f] {
				have[e.key()] = true
			}
			forEachInstr(f, func(ins ssa.Instruction) {
				call, ok := ins.(ssa.CallInstruction)
				if !ok {
					return
				}
				cal := call.Common().StaticCallee()
				args := call.Common().Args
				if cal == nil {
					// dynamic call receiving a *GoCont parameter of f: undecided unless the
					// call graph resolves it (handled below through VTA callees)
					return
				}
				for _, rd := range sum[cal] {
					if rd.contParam >= len(args) {
						continue
					}
					contV := args[rd.contParam]
					cp := paramIndex(f, contV)
					if cp < 0 {
						continue // a continuation built locally, not the function's own
					}
					var idx idxExpr
					var idxV ssa.Value
					if rd.idx.param >= 0 {
						if rd.idx.param >= len(args) {
							continue
						}
						idxV = args[rd.idx.param]
						idx = evalIdx(f, idxV, 0)
						if !idx.unknown {
							if idx.param >= 0 {
								idx.off += rd.idx.off
							} else {
								for i := range idx.consts {
									idx.consts[i] += rd.idx.off
								}
							}
						}
					} else {
						idx = rd.idx
					}
					nmin := getBounds(f, contV)[ins.Block()]
					if nmin == math.MaxInt64 {
						return // unreachable block
					}
					if rd.nmin > nmin {
						nmin = rd.nmin
					}
					e := argRead{contParam: cp, idx: idx, nmin: nmin, symSafe: rd.symSafe, via: cal.Name() + "<" + rd.via, pos: p.InstrPos(ins)}
					if idxV != nil && symbolicallyGuarded(f, contV, idxV, ins) {
						e.symSafe = true
					}
					if idx.unknown && !e.symSafe {
						undecided[fnKey(f)+" via "+cal.Name()] = p.InstrPos(ins)
					}
					if !have[e.key()] {
						have[e.key()] = true
						sum[f] = append(sum[f], e)
						changed = true
					}
				}
			})
		}
		if !changed {
			break
		}
		if round == 11 {
			r.broken("summary fixpoint not reached in 12 rounds")
		}
	}
	nsum := 0
	for _, v := range sum {
		if len(v) > 0 {
			nsum++
		}
	}
	r.count("functions_with_arg_read_summaries", nsum)

	// dynamic calls that pass the function's own GoCont on: must be resolvable
	for _, reg := range t.Regs {
		if !reg.Resolved {
			continue
		}
		for _, fn := range reg.Funcs {
			if fn.Blocks == nil {
				continue
			}
			contParam := -1
			for i, prm := range fn.Params {
				if isGoContPtr(prm.Type()) {
					contParam = i
				}
			}
			if contParam < 0 {
				r.fail("no-cont-param:"+fnKey(fn), p.Pos(fn.Pos()), "registered function has no *GoCont parameter")
				continue
			}
			r.count("registered_functions_checked", 1)
			bad := false
			var maxRead int64 = -1
			for _, rd := range sum[fn] {
				if rd.contParam != contParam || rd.symSafe {
					continue
				}
				if rd.idx.unknown || rd.idx.param >= 0 {
					r.fail("undecided-index:"+reg.Key(), rd.pos, fmt.Sprintf("%s reads an argument whose index (%s, via %s) is not a compile-time constant set; cannot be compared with the declared arity %d", fnKey(fn), rd.idx, rd.via, reg.NArgs))
					bad = true
					continue
				}
				for _, k := range rd.idx.consts {
					if k > maxRead {
						maxRead = k
					}
					if k < int64(reg.NArgs) && k >= 0 {
						continue
					}
					if k < rd.nmin {
						r.note("dead argument: %s (%q, arity %d) reads Arg(%d) only under a guard NArgs() >= %d, which can never hold [%s]", fnKey(fn), reg.LuaName, reg.NArgs, k, rd.nmin, rd.pos)
						continue
					}
					bad = true
					r.fail(fmt.Sprintf("arg-out-of-range:%s:Arg(%d)", reg.Key(), k), rd.pos,
						fmt.Sprintf("%s is registered as %q with %d fixed argument(s) but reads Arg(%d) (via %s) without a guard implying NArgs() > %d: index out of range panic in (*GoCont).Arg", fnKey(fn), reg.LuaName, reg.NArgs, k, strings.TrimSuffix(rd.via, "<Arg"), k),
						"registration at "+p.InstrPos(reg.Site))
				}
			}
			// dynamic calls receiving the cont
			forEachInstr(fn, func(ins ssa.Instruction) {
				call, ok := ins.(ssa.CallInstruction)
				if !ok || call.Common().StaticCallee() != nil {
					return
				}
				for _, a := range call.Common().Args {
					if a == fn.Params[contParam] && !call.Common().IsInvoke() {
						if _, isBuiltin := call.Common().Value.(*ssa.Builtin); isBuiltin {
							continue
						}
						// resolve through the closure's free variable / value
						fs, ok := resolveFuncs(p, call.Common().Value, 0, map[ssa.Value]bool{})
						if !ok || len(fs) == 0 {
							fs = p.CalleesAt(call)
							ok = len(fs) > 0
						}
						if !ok || len(fs) == 0 {
							r.fail("cont-passed-to-dynamic-call:"+reg.Key(), p.InstrPos(ins), fnKey(fn)+" passes its *GoCont to a dynamic call that cannot be resolved; argument reads behind it are undecided")
							bad = true
							continue
						}
						for _, g := range fs {
							for _, rd := range sum[g] {
								if rd.idx.param < 0 && !rd.symSafe {
									for _, k := range rd.idx.consts {
										if k >= int64(reg.NArgs) && k >= rd.nmin {
											bad = true
											r.fail(fmt.Sprintf("arg-out-of-range:%s:Arg(%d)", reg.Key(), k), rd.pos,
												fmt.Sprintf("%s (arity %d) forwards its continuation to %s which reads Arg(%d)", fnKey(fn), reg.NArgs, fnKey(g), k))
										}
									}
								}
							}
						}
					}
				}
			})
			if !bad {
				r.ok(fmt.Sprintf("%s nArgs=%d max index read=%d", reg.Key(), reg.NArgs, maxRead))
			}
		}
	}
	r.floor("registered_functions_checked", 120)
	r.floor("functions_with_arg_read_summaries", 100)
	return r
}
