package main

import (
	"fmt"
	"go/token"
	"strings"

	"golang.org/x/tools/go/callgraph"

	"golang.org/x/tools/go/ssa"
)

func init() {
	registerRule("R-FINALIZE", true, ruleFinalize)
}

func calleeNamed(call ssa.CallInstruction, names ...string) bool {
	n := ""
	if call.Common().IsInvoke() {
		n = call.Common().Method.Name()
	} else if cal := call.Common().StaticCallee(); cal != nil {
		n = cal.Name()
	}
	for _, x := range names {
		if n == x {
			return true
		}
	}
	return false
}

func ruleFinalize(c *Ctx) *RuleResult {
	r := newResult("R-FINALIZE", "finalisers before releases, releases unconditional, extraction marks what it hands out: (a) in PopContext and runPendingFinalizers the call extracting values to finalise precedes (dominates) the call extracting values to release, and in Runtime.Close the finalisers run in the body while the release sits in the deferred function; (b) every Extract*Release result flows into releaseResources, on a path that does not depend on the context status (a killed context skips finalisers, not releases); (c) in CallContext the finalisers of an isolated context are run (runFinalizers(ExtractAllMarkedFinalize())) on the non-kill path before the context is popped; (d) in ClonePool every entry appended to a list handed out for finalising is guarded by the 'not yet finalised' flag test and has the flag set in the same step (at most once), and likewise entries handed out for release are guarded by the 'not yet released' test")
	p := c.P
	relRes := p.Func("runtime", "releaseResources")
	if relRes == nil {
		r.broken("anchor unresolved: runtime.releaseResources")
		return r
	}
	type site struct {
		rel, name string
		deferOK   bool // release may live in a deferred closure of the function
	}
	for _, s := range []site{{"runtime", "(*runtimeContextManager).PopContext", false}, {"runtime", "(*Runtime).runPendingFinalizers", false}, {"runtime", "(*Runtime).Close", true}} {
		f := p.Func(s.rel, s.name)
		if f == nil {
			r.broken("anchor unresolved: %s.%s", s.rel, s.name)
			continue
		}
		if p.Config.Tags == "noquotas" && strings.Contains(s.name, "PopContext") {
			r.note("noquotas: PopContext has no per-context pool; clause (a) not applicable to it")
			continue
		}
		funcs := []*ssa.Function{f}
		if s.deferOK {
			funcs = append(funcs, f.AnonFuncs...)
		}
		var fin, rel []ssa.CallInstruction
		for _, g := range funcs {
			forEachInstr(g, func(ins ssa.Instruction) {
				call, ok := ins.(ssa.CallInstruction)
				if !ok {
					return
				}
				if calleeNamed(call, "ExtractAllMarkedFinalize", "ExtractPendingFinalize") {
					fin = append(fin, call)
				}
				if calleeNamed(call, "ExtractAllMarkedRelease", "ExtractPendingRelease") {
					rel = append(rel, call)
				}
			})
		}
		if len(fin) == 0 || len(rel) == 0 {
			r.fail("finalize-release-missing:"+s.name, p.Pos(f.Pos()), fmt.Sprintf("%s no longer both extracts the values to finalise and the values to release (%d/%d calls found): finalisers or resource releases of the context are dropped", s.name, len(fin), len(rel)))
			continue
		}
		for _, rc := range rel {
			// (a) order
			okOrder := false
			for _, fc := range fin {
				if fc.Parent() == rc.Parent() && instrDominates(fc, rc) {
					okOrder = true
				}
				if s.deferOK && fc.Parent() == f && rc.Parent() != f {
					okOrder = true // body first, deferred closure afterwards
				}
			}
			if okOrder {
				r.ok(fmt.Sprintf("(a) %s: finalise-extraction precedes release-extraction", s.name))
			} else {
				r.fail("release-before-finalize:"+s.name, p.InstrPos(rc), s.name+" extracts the values to release on a path where the values to finalise were not extracted first: a resource could be released before (or without) its finaliser having had its turn")
			}
			// (b) result flows into releaseResources
			v, _ := rc.(ssa.Value)
			flows := false
			if v != nil && v.Referrers() != nil {
				for _, ref := range *v.Referrers() {
					if call, ok := ref.(ssa.CallInstruction); ok && call.Common().StaticCallee() == relRes {
						flows = true
						// not conditional on status
						gc := newGuardCtx(rc.Parent())
						for _, ge := range gc.MustEdges(call.Block()) {
							for w := range backSlice(ge.If.Cond, true) {
								if fa, ok := w.(*ssa.FieldAddr); ok {
									if _, tn, fn := fieldOfAddr(fa); tn == "runtimeContextManager" && fn == "status" {
										r.fail("release-conditional-on-status:"+s.name, p.InstrPos(call), s.name+" releases resources only for some context statuses: a killed context must skip finalisers but still release")
										flows = true
									}
								}
							}
						}
					}
					if ln, ok := ref.(ssa.Value); ok && ln.Referrers() != nil {
						// len(pending) test followed by the call with the same value
						_ = ln
					}
				}
			}
			if flows {
				r.ok(fmt.Sprintf("(b) %s: extracted releases are passed to releaseResources", s.name))
			} else {
				r.fail("release-dropped:"+s.name, p.InstrPos(rc), s.name+" extracts the values to release but does not pass them to releaseResources: Go-side resources (open files) of the context leak")
			}
		}
	}
	// (c) CallContext
	if cc := p.Func("runtime", "(*Thread).CallContext"); cc != nil && p.Config.Tags != "noquotas" {
		var runFin ssa.CallInstruction
		forEachInstr(cc, func(ins ssa.Instruction) {
			if call, ok := ins.(ssa.CallInstruction); ok && calleeNamed(call, "runFinalizers") {
				runFin = call
			}
		})
		if runFin == nil {
			r.fail("callcontext-no-finalizers", p.Pos(cc.Pos()), "CallContext no longer runs the finalisers of an isolated context before popping it: values created in a limited context would be finalised outside it (or never)")
		} else {
			fromExtract := false
			for _, a := range runFin.Common().Args {
				if call, ok := a.(ssa.CallInstruction); ok && calleeNamed(call, "ExtractAllMarkedFinalize") {
					fromExtract = true
				}
			}
			// every normal return is behind the finalisers, unless the context is not an
			// isolated one (the false edge of the GCPolicy test)
			skipped := ""
			{
				seen := map[*ssa.BasicBlock]bool{cc.Blocks[0]: true}
				q := []*ssa.BasicBlock{cc.Blocks[0]}
				for len(q) > 0 && skipped == "" {
					b := q[0]
					q = q[1:]
					if b == runFin.Block() {
						continue
					}
					if _, ok := b.Instrs[len(b.Instrs)-1].(*ssa.Return); ok && (cc.Recover == nil || b != cc.Recover) {
						skipped = p.InstrPos(b.Instrs[len(b.Instrs)-1])
						break
					}
					for i, sc := range b.Succs {
						if iff, ok := b.Instrs[len(b.Instrs)-1].(*ssa.If); ok && i == 1 {
							// the policy test: not an isolated context, nothing to finalise here
							isPolicy := false
							for v := range backSlice(iff.Cond, true) {
								if call, ok := v.(*ssa.Call); ok && calleeNamed(call, "GCPolicy") {
									isPolicy = true
								}
							}
							if isPolicy {
								continue
							}
						}
						if !seen[sc] {
							seen[sc] = true
							q = append(q, sc)
						}
					}
				}
			}
			if skipped != "" {
				r.fail("callcontext-finalizers-skipped", skipped, "CallContext can return without running the finalisers of an isolated context (other than when the context is not isolated): on that path — e.g. when the protected function ends with an error — the values marked in the context are dropped with its pool and their __gc handlers never run, not even when the runtime closes")
			} else {
				r.ok("(c) every normal return of CallContext is behind runFinalizers for an isolated context")
			}
			if fromExtract {
				r.ok("(c) CallContext runs runFinalizers(ExtractAllMarkedFinalize()) on its normal path")
			} else {
				r.fail("callcontext-finalizers-arg", p.InstrPos(runFin), "CallContext's runFinalizers no longer receives ExtractAllMarkedFinalize()")
			}
		}
	} else if cc == nil {
		r.broken("anchor unresolved: runtime.(*Thread).CallContext")
	}
	// (d) ClonePool extraction marks
	checkPool := func(fname, flagConst string, wantSet bool) {
		f := p.Func("runtime/internal/luagc", fname)
		if f == nil {
			r.broken("anchor unresolved: luagc.%s", fname)
			return
		}
		n := 0
		forEachInstr(f, func(ins ssa.Instruction) {
			call, ok := ins.(*ssa.Call)
			if !ok {
				return
			}
			b, ok := call.Call.Value.(*ssa.Builtin)
			if !ok || b.Name() != "append" {
				return
			}
			// appended element must be a cloneEntry (lists handed out)
			n++
			gc := newGuardCtx(f)
			guarded := false
			for _, ge := range gc.MustEdges(call.Block()) {
				cnd := ge.If.Cond
				holds := ge.Taken
				for {
					if u, ok := cnd.(*ssa.UnOp); ok && u.Op.String() == "!" {
						holds = !holds
						cnd = u.X
						continue
					}
					break
				}
				if hc, ok := cnd.(*ssa.Call); ok && calleeNamed(hc, "hasFlag") && !holds {
					if k, ok := constInt(hc.Call.Args[len(hc.Call.Args)-1]); ok && fmt.Sprint(k) == flagConst {
						guarded = true
					}
				}
			}
			set := false
			forEachInstr(f, func(o ssa.Instruction) {
				if sc, ok := o.(*ssa.Call); ok && calleeNamed(sc, "setFlag") && o.Block() == call.Block() {
					if k, ok := constInt(sc.Call.Args[len(sc.Call.Args)-1]); ok && fmt.Sprint(k) == flagConst {
						set = true
					}
				}
			})
			switch {
			case !guarded:
				r.fail("pool-extract-unguarded:"+fname, p.InstrPos(call), fmt.Sprintf("luagc.%s hands out an entry without testing that it was not handed out before: a value could be finalised or released twice", fname))
			case wantSet && !set:
				r.fail("pool-extract-unmarked:"+fname, p.InstrPos(call), fmt.Sprintf("luagc.%s hands out an entry for finalising without marking it finalised in the same step: the next extraction would hand it out again", fname))
			default:
				r.ok(fmt.Sprintf("(d) luagc.%s: entries handed out are guarded by the flag test%s", fname, map[bool]string{true: " and marked", false: ""}[wantSet]))
			}
		})
		if n == 0 {
			r.broken("no append found in luagc.%s (anchor moved?)", fname)
		}
	}
	// flag constants: wrFinalized, wrReleased
	pk := p.Pkg("runtime/internal/luagc")
	if pk == nil {
		r.broken("package luagc not loaded")
		return r
	}
	flagVal := func(name string) string {
		o := pk.Types.Scope().Lookup(name)
		if o == nil {
			return "?"
		}
		if cst, ok := o.(interface {
			Val() interface{ String() string }
		}); ok {
			return cst.Val().String()
		}
		return "?"
	}
	_ = flagVal
	fin, rel := constOf(p, "runtime/internal/luagc", "wrFinalized"), constOf(p, "runtime/internal/luagc", "wrReleased")
	if fin == "" || rel == "" {
		r.broken("anchor unresolved: luagc.wrFinalized / wrReleased")
		return r
	}
	// (e) a pending list is cleared only after its content has been taken over:
	// every store of nil to pendingFinalize/pendingRelease is preceded by a load of
	// the same field whose value reaches the function's result
	for _, f := range p.ModFuncs() {
		if relPkg(funcPkgPath(f)) != "runtime/internal/luagc" || f.Blocks == nil {
			continue
		}
		forEachInstr(f, func(ins ssa.Instruction) {
			st, ok := ins.(*ssa.Store)
			if !ok || !isNilConst(st.Val) {
				return
			}
			fa, ok := st.Addr.(*ssa.FieldAddr)
			if !ok {
				return
			}
			_, tn, fn := fieldOfAddr(fa)
			if tn != "ClonePool" || (fn != "pendingFinalize" && fn != "pendingRelease") {
				return
			}
			// loads of the same field dominating the store
			taken := false
			forEachInstr(f, func(o ssa.Instruction) {
				u, ok := o.(*ssa.UnOp)
				if !ok {
					return
				}
				fa2, ok := u.X.(*ssa.FieldAddr)
				if !ok || fa2.Field != fa.Field || !sameLoadChain(fa2.X, fa.X) || !instrDominates(o, st) {
					return
				}
				// does the loaded list reach a return value?
				seen := map[ssa.Value]bool{}
				var visit func(v ssa.Value, d int)
				visit = func(v ssa.Value, d int) {
					if d > 8 || seen[v] || v.Referrers() == nil {
						return
					}
					seen[v] = true
					for _, ref := range *v.Referrers() {
						switch x := ref.(type) {
						case *ssa.Return:
							taken = true
						case ssa.Value:
							visit(x, d+1)
						}
					}
				}
				visit(u, 0)
			})
			if taken {
				r.ok(fmt.Sprintf("(e) %s clears ClonePool.%s after taking its content into the result", fnKey(f), fn))
			} else {
				r.fail("pending-list-discarded:"+fn+":"+fnKey(f), p.InstrPos(st), fmt.Sprintf("%s sets ClonePool.%s to nil without taking over the entries that were in it: values the Go collector had already queued (and flagged) are dropped, so they are never finalised/released", fnKey(f), fn))
			}
		})
	}
	// (a') after the values to release have been extracted, nothing that can run
	// Lua code (and so be terminated) may follow in that function: the extracted
	// list would be lost
	if runc := p.Func("runtime", "(*Thread).RunContinuation"); runc != nil {
		for _, name := range []string{"(*Runtime).runPendingFinalizers", "(*runtimeContextManager).PopContext"} {
			f := p.Func("runtime", name)
			if f == nil || (p.Config.Tags == "noquotas" && strings.Contains(name, "PopContext")) {
				continue
			}
			forEachInstr(f, func(ins ssa.Instruction) {
				rc, ok := ins.(ssa.CallInstruction)
				if !ok || !calleeNamed(rc, "ExtractAllMarkedRelease", "ExtractPendingRelease") {
					return
				}
				// instructions reachable after rc
				var after []ssa.Instruction
				idx := instrIndex(ins)
				after = append(after, ins.Block().Instrs[idx+1:]...)
				seen := map[*ssa.BasicBlock]bool{}
				stack := append([]*ssa.BasicBlock(nil), ins.Block().Succs...)
				for len(stack) > 0 {
					b := stack[len(stack)-1]
					stack = stack[:len(stack)-1]
					if seen[b] {
						continue
					}
					seen[b] = true
					after = append(after, b.Instrs...)
					stack = append(stack, b.Succs...)
				}
				bad := ""
				for _, a := range after {
					call, ok := a.(ssa.CallInstruction)
					if !ok {
						continue
					}
					cal := call.Common().StaticCallee()
					if cal == nil || !p.InModule(cal) || cal == relRes {
						continue
					}
					reach := &Reach{p: p}
					hit := cal == runc
					runUncut(reach, []*ssa.Function{cal}, func(e *callgraph.Edge, cur searchState) {
						if e.Callee.Func == runc {
							hit = true
						}
					})
					if hit {
						bad = fnKey(cal) + " at " + p.InstrPos(a)
					}
				}
				if bad == "" {
					r.ok(fmt.Sprintf("(a') %s: nothing that can run Lua follows the extraction of the values to release", name))
				} else {
					r.fail("lua-after-release-extraction:"+name, p.InstrPos(ins), fmt.Sprintf("%s extracts the values to release and then calls %s, which can run Lua code and be terminated: the extracted list would be lost and those resources never released", name, bad))
				}
			})
		}
	}
	// (f) sibling pools: every Mark with non-zero flags re-stamps the entry's
	// mark order (finalisers run in reverse order of *marking*, and the two pool
	// implementations must agree on what a re-mark does)
	for _, tn := range []string{"ClonePool", "UnsafePool"} {
		f := p.Func("runtime/internal/luagc", "(*"+tn+").Mark")
		if f == nil {
			r.broken("anchor unresolved: luagc.(*%s).Mark", tn)
			continue
		}
		var stamps []ssa.Instruction
		forEachInstr(f, func(ins ssa.Instruction) {
			if st, ok := ins.(*ssa.Store); ok {
				if fa, ok := st.Addr.(*ssa.FieldAddr); ok {
					if _, _, fn := fieldOfAddr(fa); fn == "markOrder" {
						stamps = append(stamps, ins)
					}
				}
			}
		})
		okAll := len(stamps) > 0
		gc := newGuardCtx(f)
		forEachInstr(f, func(ins ssa.Instruction) {
			ret, ok := ins.(*ssa.Return)
			if !ok || (f.Recover != nil && ret.Block() == f.Recover) {
				return
			}
			// returns on the flags == 0 branch are exempt
			for _, ge := range gc.MustEdges(ret.Block()) {
				if rel, ok := ge.Relation(); ok && rel.Op.String() == "==" {
					if k, isK := constInt(rel.B); isK && k == 0 && rel.A == f.Params[len(f.Params)-1] {
						return
					}
				}
			}
			dom := false
			for _, st := range stamps {
				if instrDominates(st, ret) {
					dom = true
				}
			}
			if !dom {
				okAll = false
			}
		})
		if okAll {
			r.ok(fmt.Sprintf("(f) luagc.(*%s).Mark stamps a new mark order on every mark", tn))
		} else {
			r.fail("mark-order-not-restamped:"+tn, p.Pos(f.Pos()), fmt.Sprintf("luagc.(*%s).Mark does not assign a new mark order on every path with non-zero flags: re-marking a value (a second setmetatable) would keep its old place, so finalisers run in an order that differs from the other pool implementation and from 'reverse order of marking'", tn))
		}
	}
	// (f') the clone pool keeps a clone of each marked value, and the clone is what its
	// finaliser is later run on (it snapshots the metatable): every Mark refreshes it, or a
	// value marked again (a second setmetatable with another __gc) is finalised with the
	// old metatable under this pool and with the new one under the other
	if f := p.Func("runtime/internal/luagc", "(*ClonePool).Mark"); f != nil {
		var clones []ssa.Instruction
		forEachInstr(f, func(ins ssa.Instruction) {
			st, ok := ins.(*ssa.Store)
			if !ok {
				return
			}
			for w := range backSliceAllocs(st.Val, false) {
				if cl, ok := w.(ssa.CallInstruction); ok {
					c := cl.Common()
					if (c.Method != nil && c.Method.Name() == "Clone") || (c.StaticCallee() != nil && c.StaticCallee().Name() == "Clone") {
						clones = append(clones, ins)
					}
				}
			}
		})
		okAll := len(clones) > 0
		gcm := newGuardCtx(f)
		forEachInstr(f, func(ins ssa.Instruction) {
			ret, ok := ins.(*ssa.Return)
			if !ok || (f.Recover != nil && ret.Block() == f.Recover) {
				return
			}
			// returns on the flags == 0 branch (un-marking) are exempt
			for _, ge := range gcm.MustEdges(ret.Block()) {
				if rel, ok := ge.Relation(); ok && rel.Op.String() == "==" {
					if k, isK := constInt(rel.B); isK && k == 0 && rel.A == f.Params[len(f.Params)-1] {
						return
					}
				}
			}
			dom := false
			for _, st := range clones {
				if instrDominates(st, ret) {
					dom = true
				}
			}
			if !dom {
				okAll = false
			}
		})
		if okAll {
			r.ok("(f') luagc.(*ClonePool).Mark refreshes the clone on every mark")
		} else {
			r.fail("clone-not-refreshed-on-mark", p.Pos(f.Pos()), "luagc.(*ClonePool).Mark does not store a fresh clone of the value on every path: the clone carries the metatable the finaliser will be looked up in, so a table given a second metatable with another __gc is finalised with the old one in the default build and with the new one under -tags safepool")
		}
	}
	checkPool("(*ClonePool).ExtractAllMarkedFinalize", fin, true)
	checkPool("(*ClonePool).ExtractAllMarkedRelease", rel, false)
	// (h) PopContext releases the child's pool before anything that can terminate a
	// context: charging the child's usage to the parent, or refreshing the parent's
	// elapsed time, may kill the parent — a panic out of PopContext — and whatever has not
	// been released by then is lost with the child's pool
	if pc := p.Func("runtime", "(*runtimeContextManager).PopContext"); pc != nil && p.Config.Tags != "noquotas" {
		terms := p.terminators()
		var rel ssa.Instruction
		forEachInstr(pc, func(ins ssa.Instruction) {
			if call, ok := ins.(ssa.CallInstruction); ok && calleeNamed(call, "releaseResources") {
				rel = ins
			}
		})
		if len(terms) == 0 || rel == nil {
			r.broken("anchor unresolved: PopContext's releaseResources call / a function that panics with a ContextTerminationError")
		} else {
			reachesTerm := map[*ssa.Function]bool{}
			var reach func(f *ssa.Function, depth int) bool
			reach = func(f *ssa.Function, depth int) bool {
				if terms[f] {
					return true
				}
				if v, ok := reachesTerm[f]; ok {
					return v
				}
				reachesTerm[f] = false
				if depth > 6 || f.Blocks == nil {
					return false
				}
				res := false
				forEachInstr(f, func(ins ssa.Instruction) {
					if call, ok := ins.(ssa.CallInstruction); ok {
						if cal := call.Common().StaticCallee(); cal != nil && p.InModule(cal) && reach(cal, depth+1) {
							res = true
						}
					}
				})
				reachesTerm[f] = res
				return res
			}
			early := ""
			forEachInstr(pc, func(ins ssa.Instruction) {
				call, ok := ins.(ssa.CallInstruction)
				if !ok || ins == rel {
					return
				}
				cal := call.Common().StaticCallee()
				if cal == nil || !p.InModule(cal) || !reach(cal, 0) {
					return
				}
				if instrDominates(ins, rel) || (ins.Block() != rel.Block() && blockReaches(ins.Block(), rel.Block())) {
					early = fnKey(cal) + " at " + p.InstrPos(ins)
				}
			})
			if early == "" {
				r.ok("(h) PopContext releases the child's resources before any call that can terminate a context")
			} else {
				r.fail("popcontext-release-after-terminating-call", p.InstrPos(rel), fmt.Sprintf("PopContext calls %s, which can terminate the parent context (a panic out of PopContext), before it has released the resources of the child's pool: when that happens — e.g. the outer time limit expires while an inner limited context is being left — the child's userdata is never released, not even when the runtime closes", early))
			}
		}
	}
	// (i) every hard limit gives the context a pool of its own: finalisers of values
	// created under a limit run inside that context and are charged to it, and a killed
	// context releases its resources when it is left. For each of the three limits some
	// test `ctx.HardLimits.X > 0` in PushContext has a true edge from which the store
	// gcPolicy = ShareGCPolicy cannot be reached (boolean locals set on the way are tracked)
	if push := p.Func("runtime", "(*runtimeContextManager).PushContext"); push != nil && p.Config.Tags != "noquotas" {
		gcC := constsOfType(p, "runtime", "GCPolicy")
		shareV, okShare := gcC["ShareGCPolicy"]
		var shareBlk *ssa.BasicBlock
		forEachInstr(push, func(ins ssa.Instruction) {
			st, ok := ins.(*ssa.Store)
			if !ok {
				return
			}
			fa, ok := st.Addr.(*ssa.FieldAddr)
			if !ok {
				return
			}
			if _, _, fld := fieldOfAddr(fa); fld != "gcPolicy" {
				return
			}
			if k, isK := constInt(st.Val); isK && okShare && k == shareV {
				shareBlk = st.Block()
			}
		})
		if shareBlk == nil {
			r.broken("anchor unresolved: PushContext's store gcPolicy = ShareGCPolicy")
		} else {
			limitOf := func(cond ssa.Value) string {
				b, ok := cond.(*ssa.BinOp)
				if !ok || b.Op != token.GTR {
					return ""
				}
				if k, isK := constInt(b.Y); !isK || k != 0 {
					return ""
				}
				name, hard := "", false
				for v := range backSlice(b.X, false) {
					if fa, ok := v.(*ssa.FieldAddr); ok {
						_, tn, fld := fieldOfAddr(fa)
						if fld == "HardLimits" {
							hard = true
						}
						if tn == "RuntimeResources" {
							name = fld
						}
					}
				}
				if hard {
					return name
				}
				return ""
			}
			// path-sensitive reachability with known-true booleans
			var canReach func(b, pred *ssa.BasicBlock, known map[ssa.Value]bool, depth int, seen map[string]bool) bool
			canReach = func(b, pred *ssa.BasicBlock, known map[ssa.Value]bool, depth int, seen map[string]bool) bool {
				if b == shareBlk {
					return true
				}
				if depth > 60 {
					return true // give up conservatively
				}
				key := fmt.Sprintf("%d/%d/%d", b.Index, len(known), func() int {
					if pred == nil {
						return -1
					}
					return pred.Index
				}())
				if seen[key] {
					return false
				}
				seen[key] = true
				k2 := map[ssa.Value]bool{}
				for v := range known {
					k2[v] = true
				}
				// phis of this block, given the edge we came in on
				if pred != nil {
					for _, ins := range b.Instrs {
						phi, ok := ins.(*ssa.Phi)
						if !ok {
							break
						}
						for i, pb := range b.Preds {
							if pb != pred {
								continue
							}
							e := phi.Edges[i]
							if kc, isK := e.(*ssa.Const); isK {
								if v, ok := constInt(kc); ok && v != 0 {
									k2[phi] = true
								}
							} else if k2[e] {
								k2[phi] = true
							}
						}
					}
				}
				last := b.Instrs[len(b.Instrs)-1]
				if iff, ok := last.(*ssa.If); ok {
					if k2[iff.Cond] {
						return canReach(b.Succs[0], b, k2, depth+1, seen)
					}
					kt := map[ssa.Value]bool{}
					for v := range k2 {
						kt[v] = true
					}
					kt[iff.Cond] = true
					return canReach(b.Succs[0], b, kt, depth+1, seen) || canReach(b.Succs[1], b, k2, depth+1, seen)
				}
				for _, sc := range b.Succs {
					if canReach(sc, b, k2, depth+1, seen) {
						return true
					}
				}
				return false
			}
			for _, lim := range []string{"Cpu", "Memory", "Millis"} {
				nTests, isolated := 0, false
				for _, b := range push.Blocks {
					iff, ok := b.Instrs[len(b.Instrs)-1].(*ssa.If)
					if !ok || limitOf(iff.Cond) != lim {
						continue
					}
					nTests++
					if !canReach(b.Succs[0], b, map[ssa.Value]bool{iff.Cond: true}, 0, map[string]bool{}) {
						isolated = true
					}
				}
				switch {
				case nTests == 0:
					r.broken("PushContext has no test of ctx.HardLimits.%s > 0 (anchor moved?)", lim)
				case isolated:
					r.ok("(i) a hard " + lim + " limit gives the context its own pool")
				default:
					r.fail("limit-does-not-isolate-pool:"+lim, p.Pos(push.Pos()), fmt.Sprintf("in PushContext a context with a hard %s limit can still be given its parent's pool (gcPolicy = ShareGCPolicy is reachable after every test of ctx.HardLimits.%s > 0): finalisers of values created in it then run later, outside it, unlimited and uncharged, and a killed context no longer releases its resources when it is left", lim, lim))
				}
			}
		}
	}
	// (g) marking happens where the metatable is set: (*Runtime).SetRawMetatable is
	// the only place that gives a table or userdata a non-nil metatable and it marks
	// the value for finalisation/release; nothing Lua can call sets one around it
	srm := p.Func("runtime", "(*Runtime).SetRawMetatable")
	tsm := p.Func("runtime", "(*Table).SetMetatable")
	usm := p.Func("runtime", "(*UserData).SetMetatable")
	addFin := p.Func("runtime", "(*Runtime).addFinalizer")
	if srm == nil || tsm == nil || usm == nil || addFin == nil {
		r.broken("anchor unresolved: runtime.(*Runtime).SetRawMetatable / addFinalizer / (*Table).SetMetatable / (*UserData).SetMetatable")
		return r
	}
	nSetters := 0
	for _, f := range p.ModFuncs() {
		if !luaReachablePkg(relPkg(funcPkgPath(f))) || f == srm {
			continue
		}
		forEachInstr(f, func(ins ssa.Instruction) {
			call, ok := ins.(ssa.CallInstruction)
			if !ok {
				return
			}
			cal := call.Common().StaticCallee()
			if cal != tsm && cal != usm {
				return
			}
			nSetters++
			if isNilConst(call.Common().Args[1]) {
				r.ok(fmt.Sprintf("(g) %s clears a metatable (nothing to mark)", fnKey(f)))
				return
			}
			if why, ok := rawMetaSetters[fnKey(f)]; ok {
				r.ok("table: " + fnKey(f) + " — " + why)
				return
			}
			r.fail("metatable-set-without-mark:"+fnKey(f), p.InstrPos(ins), fmt.Sprintf("%s gives a value a metatable directly, not through (*Runtime).SetRawMetatable: a __gc metamethod or a resource releaser attached this way is never registered with the finaliser pool", fnKey(f)))
		})
	}
	// SetRawMetatable itself: both setter calls are followed by addFinalizer on every path
	for _, setter := range []*ssa.Function{tsm, usm} {
		forEachInstr(srm, func(ins ssa.Instruction) {
			call, ok := ins.(*ssa.Call)
			if !ok || call.Call.StaticCallee() != setter {
				return
			}
			// every path from here to a return passes addFinalizer, except on the edge
			// that found no __gc field (tables)
			reaches := false
			seen := map[*ssa.BasicBlock]bool{}
			var walk func(b *ssa.BasicBlock, from int)
			walk = func(b *ssa.BasicBlock, from int) {
				for i := from; i < len(b.Instrs); i++ {
					if c2, ok := b.Instrs[i].(*ssa.Call); ok && c2.Call.StaticCallee() == addFin {
						return
					}
					if _, ok := b.Instrs[i].(*ssa.Return); ok {
						reaches = true
						return
					}
					if iff, ok := b.Instrs[i].(*ssa.If); ok {
						// the "no __gc field" edge is the one exemption
						if c3, ok := iff.Cond.(*ssa.Call); ok && c3.Call.StaticCallee() != nil && c3.Call.StaticCallee().Name() == "IsNil" {
							if !seen[b.Succs[1]] {
								seen[b.Succs[1]] = true
								walk(b.Succs[1], 0)
							}
							return
						}
					}
				}
				for _, s := range b.Succs {
					if !seen[s] {
						seen[s] = true
						walk(s, 0)
					}
				}
			}
			walk(ins.Block(), instrIndex(ins)+1)
			if reaches {
				r.fail("setrawmetatable-mark-skipped:"+setter.Name()+":"+typeKey(setter.Signature.Recv().Type()), p.InstrPos(ins), "(*Runtime).SetRawMetatable can return after setting the metatable without calling addFinalizer (other than when the metatable has no __gc field)")
			} else {
				r.ok("(g) SetRawMetatable marks after " + typeKey(setter.Signature.Recv().Type()) + ".SetMetatable on every path")
			}
		})
	}
	// the Lua-callable setters: no successful return without SetRawMetatable or a clearing call
	for _, fn := range [][2]string{{"lib/base", "setmetatable"}, {"lib/debuglib", "setmetatable"}} {
		f := p.Func(fn[0], fn[1])
		if f == nil {
			r.broken("anchor unresolved: %s.%s", fn[0], fn[1])
			continue
		}
		sets := map[*ssa.BasicBlock]bool{}
		forEachInstr(f, func(ins ssa.Instruction) {
			if call, ok := ins.(*ssa.Call); ok {
				switch call.Call.StaticCallee() {
				case srm, tsm, usm:
					sets[ins.Block()] = true
				}
			}
		})
		seen := map[*ssa.BasicBlock]bool{f.Blocks[0]: true}
		q := []*ssa.BasicBlock{f.Blocks[0]}
		var bad ssa.Instruction
		if sets[f.Blocks[0]] {
			q = nil
		}
		for len(q) > 0 && bad == nil {
			b := q[0]
			q = q[1:]
			if ret, ok := b.Instrs[len(b.Instrs)-1].(*ssa.Return); ok && len(ret.Results) == 2 && isNilConst(ret.Results[1]) {
				bad = ret
				break
			}
			for _, s := range b.Succs {
				if !seen[s] && !sets[s] {
					seen[s] = true
					q = append(q, s)
				}
			}
		}
		if bad != nil {
			r.fail("setmetatable-returns-without-setting:"+fn[0]+"."+fn[1], p.InstrPos(bad), fmt.Sprintf("%s.%s can return successfully without calling SetRawMetatable (or clearing the metatable): the value is not (re-)marked, so its place in the finalisation order and its re-arming after a finaliser ran are lost", fn[0], fn[1]))
		} else {
			r.ok(fmt.Sprintf("(g) %s.%s: every successful return is behind SetRawMetatable or a clearing call", fn[0], fn[1]))
		}
	}
	r.count("direct_metatable_setter_calls_outside_SetRawMetatable", nSetters)
	// userdata born with a metatable: only through NewUserDataValue, which marks
	nud := p.Func("runtime", "NewUserData")
	nudv := p.Func("runtime", "(*Runtime).NewUserDataValue")
	if nud == nil || nudv == nil {
		r.broken("anchor unresolved: runtime.NewUserData / (*Runtime).NewUserDataValue")
		return r
	}
	marks := false
	forEachInstr(nudv, func(ins ssa.Instruction) {
		if call, ok := ins.(*ssa.Call); ok && call.Call.StaticCallee() == addFin {
			marks = true
			// straight-line function: the mark is in the entry block, before the return
			if ins.Block() != nudv.Blocks[0] {
				marks = false
			}
		}
	})
	if marks {
		r.ok("(g) NewUserDataValue marks the userdata it creates")
	} else {
		r.fail("newuserdatavalue-does-not-mark", p.Pos(nudv.Pos()), "(*Runtime).NewUserDataValue no longer registers the new userdata with the finaliser pool unconditionally: files and other resources created by the libraries are never released at context close")
	}
	for _, f := range p.ModFuncs() {
		if !luaReachablePkg(relPkg(funcPkgPath(f))) || f == nudv {
			continue
		}
		forEachInstr(f, func(ins ssa.Instruction) {
			if call, ok := ins.(ssa.CallInstruction); ok && call.Common().StaticCallee() == nud {
				if isNilConst(call.Common().Args[1]) {
					return
				}
				r.fail("userdata-created-unmarked:"+fnKey(f), p.InstrPos(ins), fmt.Sprintf("%s creates a userdata with a metatable through NewUserData instead of (*Runtime).NewUserDataValue: it is never marked, so its __gc and its resource release never run", fnKey(f)))
			}
		})
	}
	return r
}

// rawMetaSetters: functions allowed to call (*Table)/(*UserData).SetMetatable with a non-nil metatable themselves.
var rawMetaSetters = map[string]string{}
