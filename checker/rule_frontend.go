package main

import (
	"fmt"
	"go/constant"
	"go/token"
	"go/types"
	"sort"

	"golang.org/x/tools/go/ssa"
)

func init() {
	registerRule("R-PREC", false, rulePrec)
	registerRule("R-LITERAL", false, ruleLiteral)
	registerRule("R-BLAME", false, ruleBlame)
}

// ---- reference tables, transcribed from the Lua 5.4 manual (§3.1, §3.4.8)

// spelling -> token constant
var manualKeywords = map[string]string{
	"and": "KwAnd", "break": "KwBreak", "do": "KwDo", "else": "KwElse", "elseif": "KwElseIf", "end": "KwEnd", "false": "KwFalse", "for": "KwFor",
	"function": "KwFunction", "goto": "KwGoto", "if": "KwIf", "in": "KwIn", "local": "KwLocal", "nil": "KwNil", "not": "KwNot", "or": "KwOr",
	"repeat": "KwRepeat", "return": "KwReturn", "then": "KwThen", "true": "KwTrue", "until": "KwUntil", "while": "KwWhile",
}
var manualSymbols = map[string]string{
	"+": "SgPlus", "-": "SgMinus", "*": "SgStar", "/": "SgSlash", "%": "SgPct", "^": "SgHat", "#": "SgHash", "&": "SgAmpersand", "~": "SgTilde", "|": "SgPipe",
	"<<": "SgShiftLeft", ">>": "SgShiftRight", "//": "SgSlashSlash", "==": "SgEqual", "~=": "SgNotEqual", "<=": "SgLessEqual", ">=": "SgGreaterEqual",
	"<": "SgLess", ">": "SgGreater", "=": "SgAssign", "(": "SgOpenBkt", ")": "SgCloseBkt", "{": "SgOpenBrace", "}": "SgCloseBrace", "[": "SgOpenSquareBkt",
	"]": "SgCloseSquareBkt", "::": "SgDoubleColon", ";": "SgSemicolon", ":": "SgColon", ",": "SgComma", ".": "SgDot", "..": "SgConcat", "...": "SgEtc",
}

// token constant -> operator constant
var manualBinops = map[string]string{
	"KwOr": "OpOr", "KwAnd": "OpAnd", "SgLess": "OpLt", "SgLessEqual": "OpLeq", "SgGreater": "OpGt", "SgGreaterEqual": "OpGeq", "SgEqual": "OpEq", "SgNotEqual": "OpNeq",
	"SgPipe": "OpBitOr", "SgTilde": "OpBitXor", "SgAmpersand": "OpBitAnd", "SgShiftLeft": "OpShiftL", "SgShiftRight": "OpShiftR", "SgConcat": "OpConcat",
	"SgPlus": "OpAdd", "SgMinus": "OpSub", "SgStar": "OpMul", "SgSlash": "OpDiv", "SgSlashSlash": "OpFloorDiv", "SgPct": "OpMod", "SgHat": "OpPow",
}
var manualUnops = map[string]string{"SgMinus": "OpNeg", "KwNot": "OpNot", "SgHash": "OpLen", "SgTilde": "OpBitNot"}

// operator -> precedence class of §3.4.8 (low to high)
var manualRank = map[string]int{
	"OpOr": 0, "OpAnd": 1, "OpLt": 2, "OpGt": 2, "OpLeq": 2, "OpGeq": 2, "OpNeq": 2, "OpEq": 2, "OpBitOr": 3, "OpBitXor": 4, "OpBitAnd": 5,
	"OpShiftL": 6, "OpShiftR": 6, "OpConcat": 7, "OpAdd": 8, "OpSub": 8, "OpMul": 9, "OpDiv": 9, "OpFloorDiv": 9, "OpMod": 9,
	"OpNeg": 10, "OpNot": 10, "OpLen": 10, "OpBitNot": 10, "OpPow": 11,
}

// mapLiteralStr: contents of a package-level map[string]T built in init.
func mapLiteralStr(p *Program, rel, name string) map[string]int64 {
	sp := p.SSAPkgs[modPath+"/"+rel]
	if sp == nil {
		return nil
	}
	g, _ := sp.Members[name].(*ssa.Global)
	initf := sp.Func("init")
	if g == nil || initf == nil {
		return nil
	}
	var mk ssa.Value
	forEachInstr(initf, func(ins ssa.Instruction) {
		if st, ok := ins.(*ssa.Store); ok && st.Addr == g {
			mk = st.Val
		}
	})
	if mk == nil {
		return nil
	}
	out := map[string]int64{}
	forEachInstr(initf, func(ins ssa.Instruction) {
		if mu, ok := ins.(*ssa.MapUpdate); ok && mu.Map == mk {
			k, ok1 := mu.Key.(*ssa.Const)
			v, ok2 := constInt(mu.Value)
			if ok1 && ok2 && k.Value != nil && k.Value.Kind() == constant.String {
				out[constant.StringVal(k.Value)] = v
			}
		}
	})
	return out
}

func rulePrec(c *Ctx) *RuleResult {
	r := newResult("R-PREC", "the front end's tables say what the Lua 5.4 manual says: (a) the scanner's keyword and symbol maps are exactly the manual's reserved words and operator/punctuation spellings, each mapped to the token of that name; (b) parsing.binopMap has exactly the token types the scanner classifies as binary operators (token.Type.IsBinOp) and maps each to the operator of the same symbol, unopMap exactly the four unary operators; the unary case of ShortExp tests exactly unopMap's keys; (c) ops.Op.Precedence orders every pair of operators as §3.4.8 does; (d) associativity: Exp pops the stack unless the new operator binds strictly tighter, the only equal-precedence exception being OpConcat, and ShortExp parses the right operand of ^ with ShortExp itself (right-associative, above unary)")
	p := c.P
	tokC := constsOfType(p, "token", "Type")
	opsC := constsOfType(p, "ops", "Op")
	if len(tokC) < 60 || len(opsC) < 25 {
		r.broken("anchor unresolved: token.Type constants (%d) / ops.Op constants (%d)", len(tokC), len(opsC))
		return r
	}
	// (a)
	for _, tb := range []struct {
		name string
		ref  map[string]string
	}{{"kwType", manualKeywords}, {"sgType", manualSymbols}} {
		m := mapLiteralStr(p, "scanner", tb.name)
		if m == nil {
			r.broken("anchor unresolved: scanner.%s", tb.name)
			continue
		}
		r.count("scanner_"+tb.name+"_entries", len(m))
		var ks []string
		for k := range tb.ref {
			ks = append(ks, k)
		}
		sort.Strings(ks)
		for _, k := range ks {
			want := tb.ref[k]
			got, ok := m[k]
			switch {
			case !ok:
				r.fail("spelling-missing:"+tb.name+":"+k, "scanner/states.go", fmt.Sprintf("scanner.%s has no entry for %q, which the manual defines", tb.name, k))
			case nameOfConst(tokC, got) != want:
				r.fail("spelling-mismatch:"+tb.name+":"+k, "scanner/states.go", fmt.Sprintf("scanner.%s maps %q to token.%s, the manual's token is %s", tb.name, k, nameOfConst(tokC, got), want))
			default:
				r.ok(fmt.Sprintf("(a) %q -> token.%s", k, want))
			}
		}
		for k := range m {
			if _, ok := tb.ref[k]; !ok {
				r.fail("spelling-extra:"+tb.name+":"+k, "scanner/states.go", fmt.Sprintf("scanner.%s has an entry %q that is not a Lua 5.4 token", tb.name, k))
			}
		}
	}
	// (b)
	bm := mapLiteral(p, "parsing", "binopMap")
	um := mapLiteral(p, "parsing", "unopMap")
	if bm == nil || um == nil {
		r.broken("anchor unresolved: parsing.binopMap / unopMap")
		return r
	}
	lo, hi := tokC["beforeBinOp"], tokC["afterBinOp"]
	if hi <= lo {
		r.broken("anchor unresolved: token.beforeBinOp / afterBinOp")
		return r
	}
	checkMap := func(what string, m map[int64]int64, ref map[string]string) {
		var ks []string
		for k := range ref {
			ks = append(ks, k)
		}
		sort.Strings(ks)
		for _, k := range ks {
			tv, ok := tokC[k]
			if !ok {
				r.broken("reference table names token.%s which does not exist", k)
				continue
			}
			got, present := m[tv]
			switch {
			case !present:
				r.fail("operator-missing:"+what+":"+k, "parsing/parser.go", fmt.Sprintf("parsing.%s has no entry for token.%s: the zero ops.Op (OpOr) is used for it", what, k))
			case nameOfConst(opsC, got) != ref[k]:
				r.fail("operator-mismatch:"+what+":"+k, "parsing/parser.go", fmt.Sprintf("parsing.%s maps token.%s to ops.%s, the manual's operator is %s", what, k, nameOfConst(opsC, got), ref[k]))
			default:
				r.ok(fmt.Sprintf("(b) %s: token.%s -> ops.%s", what, k, ref[k]))
			}
		}
		for tv := range m {
			if _, ok := ref[nameOfConst(tokC, tv)]; !ok {
				r.fail("operator-extra:"+what+":"+nameOfConst(tokC, tv), "parsing/parser.go", fmt.Sprintf("parsing.%s has an entry for token.%s which is not such an operator", what, nameOfConst(tokC, tv)))
			}
		}
	}
	checkMap("binopMap", bm, manualBinops)
	checkMap("unopMap", um, manualUnops)
	for n, v := range tokC {
		if v > lo && v < hi {
			if _, ok := manualBinops[n]; !ok {
				r.fail("isbinop-extra:"+n, "token/token.go", fmt.Sprintf("token.%s lies between beforeBinOp and afterBinOp, so Exp treats it as a binary operator, but it is not one", n))
			} else {
				r.ok("")
			}
		} else if _, ok := manualBinops[n]; ok {
			r.fail("isbinop-missing:"+n, "token/token.go", fmt.Sprintf("token.%s is a binary operator but lies outside (beforeBinOp, afterBinOp): Exp stops at it", n))
		}
	}
	shortExp := p.Func("parsing", "(*Parser).ShortExp")
	exp := p.Func("parsing", "(*Parser).Exp")
	if shortExp == nil || exp == nil {
		r.broken("anchor unresolved: parsing.(*Parser).ShortExp / Exp")
		return r
	}
	// the unary case of ShortExp: blocks reached on `t.Type == K` that use unopMap
	unopG, _ := p.SSAPkgs[modPath+"/parsing"].Members["unopMap"].(*ssa.Global)
	cases := comparedConsts(shortExp, "token", "Type")
	unaryCases := map[int64]bool{}
	for k, blks := range cases {
		for _, b := range blks {
			// the case body: blocks dominated by b
			for _, d := range shortExp.Blocks {
				if !b.Dominates(d) {
					continue
				}
				for _, ins := range d.Instrs {
					if u, ok := ins.(*ssa.UnOp); ok && u.Op == token.MUL && u.X == unopG {
						unaryCases[k] = true
					}
				}
			}
		}
	}
	// several case values share one body: `case a, b, c:` jumps to the same block
	for k, blks := range cases {
		for _, b := range blks {
			for k2, blks2 := range cases {
				if unaryCases[k2] {
					for _, b2 := range blks2 {
						if b == b2 {
							unaryCases[k] = true
						}
					}
				}
			}
		}
	}
	// the operand of a unary operator is parsed by ShortExp itself, which owns a
	// following ^ (so -x^2 is -(x^2)): no path from a unary case to the ^ test of the
	// outer call may skip that recursive call
	{
		hatBlocks := map[*ssa.BasicBlock]bool{}
		forEachInstr(shortExp, func(ins ssa.Instruction) {
			if b, ok := ins.(*ssa.BinOp); ok && b.Op == token.EQL {
				if k, isK := constInt(b.Y); isK && k == tokC["SgHat"] {
					if _, tn, ok := namedOf(b.X.Type()); ok && tn == "Type" {
						hatBlocks[b.Block()] = true
					}
				}
			}
		})
		recursive := map[*ssa.BasicBlock]bool{}
		forEachInstr(shortExp, func(ins ssa.Instruction) {
			if call, ok := ins.(*ssa.Call); ok && call.Call.StaticCallee() == shortExp {
				recursive[ins.Block()] = true
			}
		})
		bad := ""
		for k, blks := range cases {
			if !unaryCases[k] {
				continue
			}
			for _, start := range blks {
				seen := map[*ssa.BasicBlock]bool{start: true}
				q := []*ssa.BasicBlock{start}
				for len(q) > 0 && bad == "" {
					b := q[0]
					q = q[1:]
					if recursive[b] {
						continue
					}
					if hatBlocks[b] && b != start {
						bad = nameOfConst(tokC, k)
						break
					}
					for _, sc := range b.Succs {
						if !seen[sc] {
							seen[sc] = true
							q = append(q, sc)
						}
					}
				}
			}
		}
		if len(hatBlocks) == 0 {
			r.broken("ShortExp has no test for token.SgHat (anchor moved?)")
		} else if bad == "" {
			r.ok("(d) a unary operator's operand is always parsed by ShortExp before the outer ^ test (unary binds less tightly than ^)")
		} else {
			r.fail("unary-operand-skips-pow", p.Pos(shortExp.Pos()), fmt.Sprintf("in ShortExp's unary case (token.%s) some path reaches the test for '^' without having parsed the operand through the recursive ShortExp call: on that path the unary operator is applied before ^, so -2^2 means (-2)^2", bad))
		}
	}
	for n := range manualUnops {
		if unaryCases[tokC[n]] {
			r.ok("(b) ShortExp treats token." + n + " as a unary operator")
		} else {
			r.fail("unary-case-missing:"+n, p.Pos(shortExp.Pos()), fmt.Sprintf("ShortExp has no unary-operator case for token.%s", n))
		}
	}
	for k := range unaryCases {
		if _, ok := manualUnops[nameOfConst(tokC, k)]; !ok {
			r.fail("unary-case-extra:"+nameOfConst(tokC, k), p.Pos(shortExp.Pos()), fmt.Sprintf("ShortExp treats token.%s as a unary operator; unopMap has no entry for it", nameOfConst(tokC, k)))
		}
	}
	// (c) precedence order
	var names []string
	for n := range manualRank {
		if _, ok := opsC[n]; !ok {
			r.fail("operator-undeclared:"+n, "ops/ops.go", "ops."+n+" is not declared")
			continue
		}
		names = append(names, n)
	}
	sort.Strings(names)
	// Precedence() is op & 0xff: confirm on the function itself
	precF := p.Func("ops", "(Op).Precedence")
	mask := int64(-1)
	if precF != nil {
		forEachInstr(precF, func(ins ssa.Instruction) {
			if b, ok := ins.(*ssa.BinOp); ok && b.Op == token.AND {
				if k, ok := constInt(b.Y); ok {
					mask = k
				}
			}
		})
	}
	if mask < 0 {
		r.broken("ops.(Op).Precedence is no longer `op & const`: cannot evaluate precedences")
		return r
	}
	sign := func(a, b int64) int {
		switch {
		case a < b:
			return -1
		case a > b:
			return 1
		}
		return 0
	}
	for i, a := range names {
		for _, b := range names[i+1:] {
			if sign(opsC[a]&mask, opsC[b]&mask) == sign(int64(manualRank[a]), int64(manualRank[b])) {
				r.ok("")
			} else {
				r.fail("precedence:"+a+":"+b, "ops/ops.go", fmt.Sprintf("ops.%s (precedence %d) and ops.%s (precedence %d) are ordered differently from §3.4.8 of the manual (classes %d and %d)", a, opsC[a]&mask, b, opsC[b]&mask, manualRank[a], manualRank[b]))
			}
		}
	}
	r.count("operator_pairs_compared", len(names)*(len(names)-1)/2)
	// distinct operators have distinct values (the value identifies the operator downstream)
	seenV := map[int64]string{}
	for _, n := range names {
		if o, dup := seenV[opsC[n]]; dup {
			r.fail("operator-collision:"+o+":"+n, "ops/ops.go", fmt.Sprintf("ops.%s and ops.%s have the same value", o, n))
		}
		seenV[opsC[n]] = n
	}
	// (d) associativity in Exp
	var precCalls []*ssa.Call
	forEachInstr(exp, func(ins ssa.Instruction) {
		if call, ok := ins.(*ssa.Call); ok && call.Call.StaticCallee() == precF {
			precCalls = append(precCalls, call)
		}
	})
	type rel struct {
		op   token.Token
		blk  *ssa.BasicBlock
		cond *ssa.BinOp
	}
	var rels []rel
	norm := func(b *ssa.BinOp) (token.Token, bool) {
		// b compares (prec(new) - prec(last)) with 0, or prec(new) with prec(last)
		isPrec := func(v ssa.Value) int {
			for i, pc := range precCalls {
				if v == pc {
					return i
				}
			}
			return -1
		}
		if sub, ok := b.X.(*ssa.BinOp); ok && sub.Op == token.SUB {
			if k, isK := constInt(b.Y); isK && k == 0 {
				i, j := isPrec(sub.X), isPrec(sub.Y)
				if i >= 0 && j >= 0 {
					if i < j { // new operator's precedence is computed first in source order
						return b.Op, true
					}
					return flipOp(b.Op), true
				}
			}
		}
		i, j := isPrec(b.X), isPrec(b.Y)
		if i >= 0 && j >= 0 {
			if i < j {
				return b.Op, true
			}
			return flipOp(b.Op), true
		}
		return token.ILLEGAL, false
	}
	forEachInstr(exp, func(ins ssa.Instruction) {
		if b, ok := ins.(*ssa.BinOp); ok {
			switch b.Op {
			case token.LSS, token.LEQ, token.GTR, token.GEQ, token.EQL, token.NEQ:
				if op, ok := norm(b); ok {
					rels = append(rels, rel{op, b.Block(), b})
				}
			}
		}
	})
	if len(precCalls) != 2 {
		r.broken("Exp no longer compares exactly two Precedence() values (found %d calls): associativity shape not recognised", len(precCalls))
		return r
	}
	// which Precedence call is the new operator's: its receiver is the value looked up in binopMap
	newFirst := false
	if lk, ok := stripConv(precCalls[0].Call.Args[0]).(*ssa.Lookup); ok && lk != nil {
		newFirst = true
	} else if ex, ok := stripConv(precCalls[0].Call.Args[0]).(*ssa.Extract); ok && ex != nil {
		newFirst = true
	}
	if _, ok := stripConv(precCalls[1].Call.Args[0]).(*ssa.Lookup); ok {
		newFirst = false
	}
	sawStrict, sawEq := false, false
	for _, rl := range rels {
		op := rl.op
		if !newFirst {
			op = flipOp(op)
		}
		switch op {
		case token.GTR:
			sawStrict = true
			r.ok("(d) Exp keeps the stack when the new operator binds strictly tighter")
		case token.EQL:
			sawEq = true
			// the equal-precedence exception must be conjoined with op == OpConcat
			okConcat := false
			for k := range comparedConsts(exp, "ops", "Op") {
				if nameOfConst(opsC, k) == "OpConcat" {
					okConcat = true
				} else {
					r.fail("associativity-exception:"+nameOfConst(opsC, k), p.Pos(exp.Pos()), fmt.Sprintf("Exp special-cases ops.%s; only .. is right-associative among the operators Exp handles", nameOfConst(opsC, k)))
				}
			}
			if okConcat {
				r.ok("(d) the equal-precedence exception is for OpConcat only")
			} else {
				r.fail("associativity-concat", p.Pos(exp.Pos()), "Exp no longer tests for OpConcat at equal precedence: `a..b..c` would group to the left")
			}
		default:
			r.fail("associativity-comparison:"+op.String(), p.InstrPos(rl.cond), fmt.Sprintf("Exp compares the new operator's precedence with the previous one using %s: with anything but a strict > every equal-precedence pair (a-b-c, a/b/c) groups to the right", op))
		}
	}
	if !sawStrict {
		r.fail("associativity-strict-missing", p.Pos(exp.Pos()), "Exp has no strict comparison between the new operator's precedence and the previous one's")
	}
	if !sawEq {
		r.note("Exp has no equal-precedence test: .. would be left-associative (harmless for values, visible through __concat order)")
		r.fail("associativity-concat", p.Pos(exp.Pos()), "Exp has no equal-precedence exception: `a..b..c` groups to the left, visible through __concat and in the number of intermediate strings")
	}
	// ^ : the SgHat block of ShortExp calls ShortExp for its right operand and builds OpPow
	hat := cases[tokC["SgHat"]]
	okHat := false
	for _, b := range hat {
		for _, ins := range b.Instrs {
			if call, ok := ins.(*ssa.Call); ok && call.Call.StaticCallee() == shortExp {
				okHat = true
			}
		}
	}
	if okHat {
		r.ok("(d) ShortExp parses the exponent with ShortExp (right-associative, binds tighter than unary on its left)")
	} else {
		r.fail("pow-associativity", p.Pos(shortExp.Pos()), "ShortExp no longer parses the right operand of ^ with ShortExp: 2^3^2 or -x^2 would group differently")
	}
	return r
}

// ---------------------------------------------------------------- R-LITERAL

// literalTable: index/slice expressions on literal bytes whose range is
// guaranteed by the scanner's grammar for the token, not by a test in the decoder.
var literalTable = map[string]string{
	"ast.NewString:slice:NormalizeNewLines()[1:(len-1)]":                                 "a STRING token is emitted only after the closing quote: it carries both quotes (scanner.scanShortString)",
	"ast.NewLongString:slice:NormalizeNewLines()[1:]":                                    "a LONGSTRING token starts with '[' (scanner.scanLong)",
	"ast.NewLongString:slice:NormalizeNewLines()[(IndexByte()+2):(len-(IndexByte()+2))]": "the lower bound is the length of the opening bracket (level+2); the token ends with a closing bracket of the same level, so the length is at least twice that",
	"ast.replaceEscapeSeq:index:e[1]":                                                    "every alternative of the escapeSeqs regexp matches a backslash and at least one more byte",
	"ast.replaceEscapeSeq:slice:e[1:]":                                                   "as above (at least two bytes)",
	"ast.replaceEscapeSeq:slice:e[2:]":                                                   "reached for \\x only: that alternative matches exactly four bytes",
	"ast.replaceEscapeSeq:slice:e[3:(len-1)]":                                            "reached for \\u only: that alternative matches at least five bytes, braces included",
}

func ruleLiteral(c *Ctx) *RuleResult {
	r := newResult("R-LITERAL", "literal decoding never indexes past the token: in ast.NewString, NewLongString, NewNumber, replaceEscapeSeq and toFloatToken every index or slice of the literal's bytes is proved in range from the length tests every path to it must have passed (len(x) > k, len(x) != 0, strings.HasPrefix(x, \"..\")), or is justified by the scanner's grammar for that token in a table with one reason per entry; and the decimal integer conversion refuses numerals from 2^63 upwards so that they become floats")
	p := c.P
	n := 0
	for _, fname := range []string{"NewString", "NewLongString", "NewNumber", "replaceEscapeSeq", "toFloatToken"} {
		f := p.Func("ast", fname)
		if f == nil {
			r.broken("anchor unresolved: ast.%s", fname)
			continue
		}
		gc := newGuardCtx(f)
		check := func(ins ssa.Instruction, x ssa.Value, kind, expr string, need int64, analysable bool) {
			n++
			key := "ast." + fname + ":" + kind + ":" + expr
			have := provenMinLen(gc, ins.Block(), x)
			if analysable && have >= need {
				r.ok(fmt.Sprintf("%s: needs len >= %d, proved len >= %d", key, need, have))
				return
			}
			if why, ok := literalTable[key]; ok {
				r.Tables = append(r.Tables, key+" — "+why)
				r.ok("table: " + key)
				return
			}
			msg := fmt.Sprintf("%s in ast.%s: the bytes come from the token's text and nothing on the way here proves len >= %d (proved: %d)", expr, fname, need, have)
			if !analysable {
				msg = fmt.Sprintf("%s in ast.%s: bounds are not of a form this rule can relate to the length, and no table entry justifies them", expr, fname)
			}
			r.fail("unproved-"+kind+":ast."+fname+":"+expr, p.InstrPos(ins), msg+". A valid literal that is shorter (an empty long string) makes the decoder panic with an index error")
		}
		forEachInstr(f, func(ins ssa.Instruction) {
			switch x := ins.(type) {
			case *ssa.IndexAddr:
				if _, ok := x.X.Type().Underlying().(*types.Slice); !ok {
					return
				}
				if k, ok := constInt(x.Index); ok {
					check(ins, x.X, "index", fmt.Sprintf("%s[%d]", litName(x.X), k), k+1, true)
				} else {
					check(ins, x.X, "index", fmt.Sprintf("%s[%s]", litName(x.X), litName(x.Index)), 0, false)
				}
			case *ssa.Lookup:
				if bt, ok := x.X.Type().Underlying().(*types.Basic); !ok || bt.Info()&types.IsString == 0 {
					return
				}
				if k, ok := constInt(x.Index); ok {
					check(ins, x.X, "index", fmt.Sprintf("%s[%d]", litName(x.X), k), k+1, true)
				} else {
					check(ins, x.X, "index", fmt.Sprintf("%s[%s]", litName(x.X), litName(x.Index)), 0, false)
				}
			case *ssa.Slice:
				switch x.X.Type().Underlying().(type) {
				case *types.Slice, *types.Basic:
				default:
					return // arrays: constant bounds are checked by the compiler
				}
				if x.Low == nil && x.High == nil {
					return
				}
				lo, hi := "", ""
				need := int64(0)
				analysable := true
				if x.Low != nil {
					lo = litName(x.Low)
					if k, ok := constInt(x.Low); ok {
						need = k
					} else if k, ok := lenMinus(x.Low, x.X); ok {
						need = k // len-k >= 0
					} else {
						analysable = false
					}
				}
				if x.High != nil {
					hi = litName(x.High)
					if k, ok := lenMinus(x.High, x.X); ok {
						// lo <= len-k
						if lk, ok := constInt(x.Low); ok || x.Low == nil {
							need = lk + k
						} else {
							analysable = false
						}
					} else {
						analysable = false
					}
				}
				check(ins, x.X, "slice", fmt.Sprintf("%s[%s:%s]", litName(x.X), lo, hi), need, analysable)
			}
		})
	}
	r.count("index_and_slice_sites", n)
	r.floor("index_and_slice_sites", 8)
	// a decimal numeral that does not fit a signed 64-bit integer denotes a float: the
	// base-10 integer conversion in NewNumber must refuse everything from 2^63 upwards
	// (ParseUint with 63 bits, or ParseInt with 64), so that the float fallback is
	// taken; base 16 wraps around by definition and may use all 64 bits
	if nn := p.Func("ast", "NewNumber"); nn != nil {
		nDec := 0
		forEachInstr(nn, func(ins ssa.Instruction) {
			call, ok := ins.(*ssa.Call)
			if !ok {
				return
			}
			cal := call.Call.StaticCallee()
			if cal == nil || len(call.Call.Args) != 3 {
				return
			}
			name := fullName(cal)
			if name != "strconv.ParseUint" && name != "strconv.ParseInt" {
				return
			}
			base, okb := constInt(call.Call.Args[1])
			bits, okbits := constInt(call.Call.Args[2])
			if !okb || base != 10 {
				return
			}
			nDec++
			want := int64(63)
			if name == "strconv.ParseInt" {
				want = 64
			}
			if okbits && bits == want {
				r.ok(fmt.Sprintf("NewNumber: the decimal conversion %s(_, 10, %d) refuses 2^63 and above", name, bits))
			} else {
				r.fail("decimal-integer-wraps:ast.NewNumber", p.InstrPos(ins), fmt.Sprintf("NewNumber converts a decimal numeral with %s(_, 10, %d): values from 2^63 to 2^64-1 are accepted and stored in a signed integer, so the literal 9223372036854775808 denotes -9223372036854775808 instead of the float 9.2233720368547758e18 the manual prescribes (tonumber already answers the float)", name, bits))
			}
		})
		r.count("decimal_integer_conversions", nDec)
		r.floor("decimal_integer_conversions", 1)
	}
	return r
}

// lenMinus: v == len(x) - k (k >= 0 constant) or len(x) itself.
func lenMinus(v ssa.Value, x ssa.Value) (int64, bool) {
	if isLenOf(v, x) {
		return 0, true
	}
	if b, ok := v.(*ssa.BinOp); ok && b.Op == token.SUB && isLenOf(b.X, x) {
		if k, ok := constInt(b.Y); ok && k >= 0 {
			return k, true
		}
	}
	return 0, false
}

func isLenOf(v, x ssa.Value) bool {
	call, ok := v.(*ssa.Call)
	if !ok {
		return false
	}
	if b, ok := call.Call.Value.(*ssa.Builtin); ok && b.Name() == "len" && len(call.Call.Args) == 1 {
		return call.Call.Args[0] == x
	}
	return false
}

// provenMinLen: the least length of x that the branch decisions on every path
// to blk imply.
func provenMinLen(gc *GuardCtx, blk *ssa.BasicBlock, x ssa.Value) int64 {
	best := int64(0)
	upd := func(v int64) {
		if v > best {
			best = v
		}
	}
	edgeFact := func(iff *ssa.If, taken bool) {
		if call, ok := iff.Cond.(*ssa.Call); ok && taken {
			if cal := call.Call.StaticCallee(); cal != nil && (fullName(cal) == "strings.HasPrefix" || fullName(cal) == "bytes.HasPrefix") && call.Call.Args[0] == x {
				if k, ok := call.Call.Args[1].(*ssa.Const); ok && k.Value != nil && k.Value.Kind() == constant.String {
					upd(int64(len(constant.StringVal(k.Value))))
				}
			}
			return
		}
		rel, ok := relationOfCond(iff.Cond, taken, 0)
		if !ok {
			return
		}
		a, b, op := rel.A, rel.B, rel.Op
		if isLenOf(b, x) {
			a, b, op = b, a, flipOp(op)
		}
		if !isLenOf(a, x) {
			return
		}
		k, ok := constInt(b)
		if !ok {
			return
		}
		switch op {
		case token.GTR:
			upd(k + 1)
		case token.GEQ:
			upd(k)
		case token.NEQ:
			if k == 0 {
				upd(1)
			}
		case token.EQL:
			upd(k)
		}
	}
	for _, e := range gc.MustEdges(blk) {
		edgeFact(e.If, e.Taken)
	}
	// disjunction: every way into blk is the true edge of a test that proves a length
	if len(blk.Preds) > 1 {
		min := int64(-1)
		for _, pr := range blk.Preds {
			iff, ok := pr.Instrs[len(pr.Instrs)-1].(*ssa.If)
			if !ok || pr.Succs[0] != blk {
				min = 0
				break
			}
			save := best
			best = 0
			edgeFact(iff, true)
			got := best
			best = save
			if min < 0 || got < min {
				min = got
			}
		}
		if min > 0 {
			upd(min)
		}
	}
	return best
}

// litName: a short rendering of an SSA value in source terms that does not
// depend on the names of local variables.
func litName(v ssa.Value) string {
	switch x := v.(type) {
	case *ssa.Parameter:
		return x.Name()
	case *ssa.Const:
		if k, ok := constInt(x); ok {
			return fmt.Sprint(k)
		}
		return x.Name()
	case *ssa.Call:
		if b, ok := x.Call.Value.(*ssa.Builtin); ok {
			return b.Name()
		}
		if cal := x.Call.StaticCallee(); cal != nil {
			return cal.Name() + "()"
		}
	case *ssa.BinOp:
		return "(" + litName(x.X) + x.Op.String() + litName(x.Y) + ")"
	case *ssa.Convert:
		return litName(x.X)
	case *ssa.ChangeType:
		return litName(x.X)
	case *ssa.Slice:
		return "sub"
	case *ssa.Phi:
		return "phi"
	case *ssa.UnOp:
		if x.Op == token.MUL {
			return litName(x.X)
		}
	case *ssa.FieldAddr:
		_, _, fld := fieldOfAddr(x)
		return litName(x.X) + "." + fld
	}
	return "_"
}

func ruleBlame(c *Ctx) *RuleResult {
	r := newResult("R-BLAME", "a syntax error blames the token that was examined: in package parsing, when the branch decision nearest to a tokenError/expectType/expectIdent call (or a panic(Error{Got: y})) is a failed test of x.Type (the default clause of a switch on x.Type, or the body of `if x.Type != K`), and the token y it blames was already available when x was examined, then y is x. Examining one token and blaming an older one is what puts the wrong line into the message")
	p := c.P
	sp := p.SSAPkgs[modPath+"/parsing"]
	if sp == nil {
		r.broken("package parsing not loaded")
		return r
	}
	blamers := map[*ssa.Function]bool{}
	for _, n := range []string{"tokenError", "expectType", "expectIdent"} {
		if f := sp.Func(n); f != nil {
			blamers[f] = true
		}
	}
	if len(blamers) < 2 {
		r.broken("anchor unresolved: parsing.tokenError / expectType")
		return r
	}
	tokenOfTypeLoad := func(v ssa.Value) ssa.Value {
		u, ok := stripConv(v).(*ssa.UnOp)
		if !ok || u.Op != token.MUL {
			return nil
		}
		fa, ok := u.X.(*ssa.FieldAddr)
		if !ok {
			return nil
		}
		if _, _, fld := fieldOfAddr(fa); fld != "Type" {
			return nil
		}
		return fa.X
	}
	sites, constrained := 0, 0
	for _, f := range p.ModFuncs() {
		if relPkg(funcPkgPath(f)) != "parsing" || blamers[f] {
			continue
		}
		gc := newGuardCtx(f)
		forEachInstr(f, func(ins ssa.Instruction) {
			call, ok := ins.(*ssa.Call)
			if !ok || !blamers[call.Call.StaticCallee()] {
				return
			}
			sites++
			y := stripConv(call.Call.Args[0])
			// nearest must-edge that tests some token's Type
			var near *guardEdge
			edges := gc.MustEdges(ins.Block())
			for i := range edges {
				e := &edges[i]
				rel, ok := e.Relation()
				if !ok {
					continue
				}
				if tokenOfTypeLoad(rel.A) == nil && tokenOfTypeLoad(rel.B) == nil {
					continue
				}
				if near == nil || near.If.Block().Dominates(e.If.Block()) {
					near = e
				}
			}
			if near == nil {
				r.ok("")
				return
			}
			rel, _ := near.Relation()
			x := tokenOfTypeLoad(rel.A)
			if x == nil {
				x = tokenOfTypeLoad(rel.B)
			}
			if rel.Op != token.NEQ {
				r.ok("") // inside a case: the clause goes on to read further tokens
				return
			}
			constrained++
			if y == x {
				r.ok(fmt.Sprintf("%s: %s blames the token whose Type was just tested (%s)", fnKey(f), call.Call.StaticCallee().Name(), p.InstrPos(ins)))
				return
			}
			// y newer than the test: defined in a block dominated by the test
			if yi, ok := y.(ssa.Instruction); ok && yi.Block() != nil && near.If.Block().Dominates(yi.Block()) && yi.Block() != near.If.Block() {
				r.ok("")
				return
			}
			r.fail("blames-other-token:"+fnKey(f)+":"+call.Call.StaticCallee().Name(), p.InstrPos(ins), fmt.Sprintf("%s: after a failed test of %s.Type the error is raised on %s, a token read earlier: the message carries that token's line and text, not the offending one's", fnKey(f), litName(x), litName(y)))
		})
	}
	r.count("error_sites", sites)
	r.count("sites_after_failed_type_test", constrained)
	r.floor("error_sites", 30)
	r.floor("sites_after_failed_type_test", 3)
	return r
}

func init() { registerRule("R-SCANPOS", false, ruleScanPos) }

// ruleScanPos: the scanner's cursor has one owner.
func ruleScanPos(c *Ctx) *RuleResult {
	r := newResult("R-SCANPOS", "the scanner's cursor (Scanner.pos: offset, line, column) is advanced only by (*Scanner).next — which is where lines are counted and where \\r, \\r\\n and \\n\\r are normalised to one line end — and restored only by (*Scanner).backup; no state function moves it directly. Every token's and every syntax error's line number comes from this field")
	p := c.P
	owners := map[string]bool{"(*scanner.Scanner).next": true, "(*scanner.Scanner).backup": true, "scanner.New": true, "scanner.WithStartLine$1": true /* construction option: sets the first line before scanning starts */}
	writers := map[string]string{}
	nf := 0
	for _, f := range p.ModFuncs() {
		if relPkg(funcPkgPath(f)) != "scanner" {
			continue
		}
		nf++
		forEachInstr(f, func(ins ssa.Instruction) {
			st, ok := ins.(*ssa.Store)
			if !ok {
				return
			}
			// address chain: FieldAddr(... FieldAddr(x, pos) ...) with x a *Scanner
			a := st.Addr
			for depth := 0; depth < 4; depth++ {
				fa, ok := a.(*ssa.FieldAddr)
				if !ok {
					return
				}
				if _, tn, fld := fieldOfAddr(fa); tn == "Scanner" && fld == "pos" {
					writers[fnKey(f)] = p.InstrPos(ins)
					return
				}
				a = fa.X
			}
		})
	}
	r.count("scanner_functions", nf)
	r.floor("scanner_functions", 20)
	sawNext := false
	var ks []string
	for k := range writers {
		ks = append(ks, k)
	}
	sort.Strings(ks)
	for _, k := range ks {
		if k == "(*scanner.Scanner).next" {
			sawNext = true
		}
		if owners[k] {
			r.ok("writer " + k + " is an owner of Scanner.pos")
		} else {
			r.fail("cursor-written-outside-next:"+k, writers[k], fmt.Sprintf("%s moves the scanner's cursor itself instead of going through next(): whatever it skips is not counted as lines and its line ends are not normalised, so later tokens and syntax errors carry wrong line numbers (or a bare \\r is no longer a line end)", k))
		}
	}
	if !sawNext {
		r.broken("positive control failed: (*Scanner).next is not recognised as a writer of Scanner.pos (writers: %v)", ks)
	}
	return r
}

func init() { registerRule("R-PAREN", false, ruleParen) }

// ruleParen: parentheses truncate every multi-valued expression.
func ruleParen(c *Ctx) *RuleResult {
	r := newResult("R-PAREN", "an expression in parentheses yields exactly one value: in the '(' case of parsing.(*Parser).PrefixExp the parsed inner expression is tested for every type of package ast that implements ast.TailExpNode (the multi-valued expressions: a function call, '...') and converted to a node that is not one; an implementer without such a test keeps all its values inside parentheses")
	p := c.P
	pe := p.Func("parsing", "(*Parser).PrefixExp")
	tail := p.TypeNamed("ast", "TailExpNode")
	if pe == nil || tail == nil {
		r.broken("anchor unresolved: parsing.(*Parser).PrefixExp / ast.TailExpNode")
		return r
	}
	iface := tail.Underlying().(*types.Interface)
	var impls []types.Type
	ap := p.Pkg("ast")
	for _, n := range ap.Types.Scope().Names() {
		tn, ok := ap.Types.Scope().Lookup(n).(*types.TypeName)
		if !ok {
			continue
		}
		if _, isI := tn.Type().Underlying().(*types.Interface); isI {
			continue
		}
		if types.Implements(tn.Type(), iface) {
			impls = append(impls, tn.Type())
		} else if types.Implements(types.NewPointer(tn.Type()), iface) {
			impls = append(impls, types.NewPointer(tn.Type()))
		}
	}
	r.count("multi_valued_expression_types", len(impls))
	r.floor("multi_valued_expression_types", 2)
	// the '(' case: blocks dominated by the target of `t.Type == SgOpenBkt`
	tokC := constsOfType(p, "token", "Type")
	cases := comparedConsts(pe, "token", "Type")
	open := cases[tokC["SgOpenBkt"]]
	if len(open) == 0 {
		r.broken("PrefixExp has no case for token.SgOpenBkt (anchor moved?)")
		return r
	}
	asserted := map[string]bool{}
	for _, b := range open {
		for _, d := range pe.Blocks {
			if !b.Dominates(d) {
				continue
			}
			for _, ins := range d.Instrs {
				if ta, ok := ins.(*ssa.TypeAssert); ok {
					asserted[typeKey(ta.AssertedType)] = true
				}
			}
		}
	}
	for _, t := range impls {
		// the replacement must not itself be multi-valued: checked by type
		if asserted[typeKey(t)] {
			r.ok("a parenthesised " + typeKey(t) + " is recognised and replaced")
		} else {
			r.fail("parenthesised-multivalue-not-truncated:"+typeKey(t), p.Pos(pe.Pos()), fmt.Sprintf("PrefixExp's '(' case does not test the inner expression for %s, which is multi-valued (implements ast.TailExpNode): `(e)` keeps all the values of e in an argument list, a table constructor or a return", typeKey(t)))
		}
	}
	return r
}
