package main

import (
	"fmt"
	"go/token"
	"go/types"
	"strings"

	"golang.org/x/tools/go/ssa"
)

func init() {
	registerRule("R-NARROW", false, ruleNarrow)
}

func intWidth(t types.Type) (bits int, signed bool, ok bool) {
	b, isB := t.Underlying().(*types.Basic)
	if !isB || b.Info()&types.IsInteger == 0 {
		return 0, false, false
	}
	switch b.Kind() {
	case types.Int8:
		return 8, true, true
	case types.Uint8:
		return 8, false, true
	case types.Int16:
		return 16, true, true
	case types.Uint16:
		return 16, false, true
	case types.Int32:
		return 32, true, true
	case types.Uint32:
		return 32, false, true
	case types.Int64, types.Int:
		return 64, true, true
	case types.Uint64, types.Uint, types.Uintptr:
		return 64, false, true
	}
	return 0, false, false
}

// rangeOf: the inclusive value range representable by an integer type.
func rangeOf(bits int, signed bool) (int64, int64) {
	if signed {
		if bits == 64 {
			return -1 << 63, 1<<63 - 1
		}
		return -(1 << (bits - 1)), 1<<(bits-1) - 1
	}
	if bits >= 63 {
		return 0, 1<<63 - 1
	}
	return 0, 1<<bits - 1
}

// boundedWithin: v is proved to lie in [lo, hi] at instruction `at`.
func boundedWithin(p *Program, f *ssa.Function, v ssa.Value, lo, hi int64, at ssa.Instruction, depth int) (bool, string) {
	if depth > 5 {
		return false, ""
	}
	if k, ok := constInt(v); ok {
		return k >= lo && k <= hi, "constant"
	}
	// type-bounded: the operand's own type is narrower than the target
	if bits, signed, ok := intWidth(v.Type()); ok {
		l2, h2 := rangeOf(bits, signed)
		if l2 >= lo && h2 <= hi {
			return true, "operand type fits"
		}
	}
	switch x := v.(type) {
	case *ssa.Convert:
		// widening conversion of a narrow value
		if bits, signed, ok := intWidth(x.X.Type()); ok {
			l2, h2 := rangeOf(bits, signed)
			if l2 >= lo && h2 <= hi {
				return true, "widened from a narrow type"
			}
		}
		return boundedWithin(p, f, x.X, lo, hi, at, depth+1)
	case *ssa.ChangeType:
		return boundedWithin(p, f, x.X, lo, hi, at, depth+1)
	case *ssa.BinOp:
		switch x.Op {
		case token.AND:
			for _, side := range []ssa.Value{x.X, x.Y} {
				if k, ok := constInt(side); ok && k >= 0 && k <= hi && lo <= 0 {
					return true, "masked with a constant"
				}
			}
		case token.SHR:
			// (narrow-typed value) >> k stays within the operand's range
			return boundedWithin(p, f, x.X, lo, hi, at, depth+1)
		case token.REM:
			if k, ok := constInt(x.Y); ok && k > 0 && k-1 <= hi && -(k-1) >= lo {
				return true, "remainder by a constant"
			}
		}
	case *ssa.Phi:
		for i, e := range x.Edges {
			pred := x.Block().Preds[i]
			if ok, _ := boundedWithin(p, f, e, lo, hi, pred.Instrs[len(pred.Instrs)-1], depth+1); !ok {
				return false, ""
			}
		}
		return true, "phi of bounded values"
	case *ssa.Call:
		if b, ok := x.Call.Value.(*ssa.Builtin); ok && (b.Name() == "len" || b.Name() == "cap") {
			// len of something: lower bound 0; upper bound needs a guard
			lo2 := int64(0)
			if lo2 < lo {
				return false, ""
			}
		}
	}
	// guards: look for v <= K and v >= K' on every path
	gc := newGuardCtx(f)
	gc.ExcludeErrorPaths(at.Block())
	haveLo, haveHi := false, false
	if bits, signed, ok := intWidth(v.Type()); ok && !signed {
		_ = bits
		if lo <= 0 {
			haveLo = true
		}
	}
	if isLenCall(v) && lo <= 0 {
		haveLo = true
	}
	sv := stripConv(v)
	for _, ge := range gc.MustEdges(at.Block()) {
		rel, ok := ge.Relation()
		if !ok {
			continue
		}
		A, B := stripConv(rel.A), stripConv(rel.B)
		op := rel.Op
		var other ssa.Value
		if A == sv || A == v || sameValue(A, sv) {
			other = B
		} else if B == sv || B == v || sameValue(B, sv) {
			other = A
			op = flipOp(op)
		} else {
			continue
		}
		k, ok := constInt(other)
		if !ok {
			continue
		}
		switch op {
		case token.LSS:
			if k-1 <= hi {
				haveHi = true
			}
		case token.LEQ:
			if k <= hi {
				haveHi = true
			}
		case token.GTR:
			if k+1 >= lo {
				haveLo = true
			}
		case token.GEQ:
			if k >= lo {
				haveLo = true
			}
		case token.EQL:
			if k >= lo && k <= hi {
				haveLo, haveHi = true, true
			}
		}
	}
	if haveLo && haveHi {
		return true, "range-checked on every path"
	}
	// parameter: every caller
	if prm, ok := v.(*ssa.Parameter); ok && depth < 3 {
		idx := paramIndex(f, prm)
		n := p.CallGraph().Nodes[f]
		if idx >= 0 && n != nil && len(n.In) > 0 {
			for _, e := range n.In {
				if e.Site == nil || e.Site.Common().IsInvoke() {
					return false, ""
				}
				if cf := e.Caller.Func; cf.Synthetic != "" {
					if cn := p.CallGraph().Nodes[cf]; cn == nil || len(cn.In) == 0 {
						continue
					}
				}
				args := e.Site.Common().Args
				if idx >= len(args) {
					return false, ""
				}
				if ok, _ := boundedWithin(p, e.Caller.Func, args[idx], lo, hi, e.Site, depth+1); !ok {
					return false, ""
				}
			}
			return true, fmt.Sprintf("parameter bounded at all %d call sites", len(n.In))
		}
	}
	return false, ""
}

func narrowScope(p *Program, f *ssa.Function) bool {
	rel := relPkg(funcPkgPath(f))
	switch rel {
	case "code", "ircomp", "ir":
		return true
	case "runtime":
		pos := p.Pos(f.Pos())
		return strings.HasPrefix(pos, "runtime/loadunit.go") || strings.HasPrefix(pos, "runtime/luacont.go") || strings.HasPrefix(pos, "runtime/closure.go") || strings.HasPrefix(pos, "runtime/code.go")
	}
	return false
}

func ruleNarrow(c *Ctx) *RuleResult {
	r := newResult("R-NARROW", "in the code generator and loader (packages code, ir, ircomp; runtime/loadunit.go, luacont.go, closure.go): every conversion of an integer to a narrower integer type (register indexes, constant indexes, jump offsets, program counters) has an operand that is a constant, already of narrow range, masked, or range-checked on every path to the conversion (in the function or at all call sites), or is table-listed with the reason. An unchecked narrowing silently wraps: wrong code instead of a compile error")
	p := c.P
	n := 0
	usedT := map[string]int{}
	for _, f := range p.ModFuncs() {
		if !narrowScope(p, f) {
			continue
		}
		forEachInstr(f, func(ins ssa.Instruction) {
			cv, ok := ins.(*ssa.Convert)
			if !ok {
				return
			}
			sb, ss, ok1 := intWidth(cv.X.Type())
			db, ds, ok2 := intWidth(cv.Type())
			if !ok1 || !ok2 {
				return
			}
			slo, shi := rangeOf(sb, ss)
			dlo, dhi := rangeOf(db, ds)
			if slo >= dlo && shi <= dhi {
				return // not narrowing
			}
			if db >= 64 || db == sb {
				return // same width: a sign reinterpretation of the same bits, not a truncation
			}
			if rel, tn, ok := namedOf(cv.X.Type()); ok && rel == "code" && tn == "Opcode" {
				return // decoder: extracting a bit field from an opcode word is the intended truncation (checked by R-SIBLING bit layout)
			}
			if roundTripChecked(cv) {
				n++
				r.ok(fmt.Sprintf("%s: %s -> %s: narrowed then compared with the original (round-trip idiom) [%s]", fnKey(f), cv.X.Type(), cv.Type(), p.InstrPos(ins)))
				return
			}
			n++
			if ok, why := boundedWithin(p, f, cv.X, dlo, dhi, ins, 0); ok {
				r.ok(fmt.Sprintf("%s: %s -> %s: %s [%s]", fnKey(f), cv.X.Type(), cv.Type(), why, p.InstrPos(ins)))
				return
			}
			key := fnKey(f) + ":" + typeKey(cv.X.Type()) + "->" + typeKey(cv.Type())
			if e, ok := narrowTable[key]; ok {
				usedT[key]++
				if usedT[key] <= e.count {
					if why := narrowRequirement(p, e.requires); why != "" {
						r.fail("unchecked-narrowing:"+key, p.InstrPos(ins), fmt.Sprintf("%s converts %s to %s; the table entry that justified it (%s) no longer holds: %s", fnKey(f), cv.X.Type(), cv.Type(), e.reason, why))
						return
					}
					r.ok("table: " + key + " — " + e.reason)
					return
				}
			}
			r.fail("unchecked-narrowing:"+key, p.InstrPos(ins), fmt.Sprintf("%s converts %s to %s without a range check on every path: values outside [%d,%d] wrap silently", fnKey(f), cv.X.Type(), cv.Type(), dlo, dhi))
		})
	}
	r.count("narrowing_conversions", n)
	r.floor("narrowing_conversions", 10)
	for k := range narrowTable {
		if usedT[k] == 0 {
			r.note("table entry unused: %s", k)
		}
	}
	return r
}

// sameValue: two SSA values denote the same run-time value: identical, the
// same field of the same struct value, loads through the same address chain, or
// len() of the same value.
func sameValue(a, b ssa.Value) bool {
	if a == b {
		return true
	}
	switch x := a.(type) {
	case *ssa.Field:
		y, ok := b.(*ssa.Field)
		return ok && x.Field == y.Field && sameValue(x.X, y.X)
	case *ssa.UnOp:
		y, ok := b.(*ssa.UnOp)
		return ok && x.Op == y.Op && x.Op == token.MUL && sameLoadChain(x.X, y.X)
	case *ssa.Call:
		y, ok := b.(*ssa.Call)
		if !ok {
			return false
		}
		bx, ok1 := x.Call.Value.(*ssa.Builtin)
		by, ok2 := y.Call.Value.(*ssa.Builtin)
		return ok1 && ok2 && bx.Name() == by.Name() && (bx.Name() == "len" || bx.Name() == "cap") && sameValue(stripConv(x.Call.Args[0]), stripConv(y.Call.Args[0]))
	case *ssa.Convert:
		y, ok := b.(*ssa.Convert)
		return ok && types.Identical(x.Type(), y.Type()) && sameValue(x.X, y.X)
	}
	return false
}

// roundTripChecked: `n := T(x); if S(n) != x { bail }`: the narrowed value is
// converted back and compared with the original, and every other use of it is
// on the branch where they are equal.
func roundTripChecked(cv *ssa.Convert) bool {
	refs := cv.Referrers()
	if refs == nil {
		return false
	}
	var eqBlk *ssa.BasicBlock
	for _, r := range *refs {
		back, ok := r.(*ssa.Convert)
		if !ok || !types.Identical(back.Type(), cv.X.Type()) {
			continue
		}
		for _, br := range *back.Referrers() {
			cmp, ok := br.(*ssa.BinOp)
			if !ok || (cmp.Op != token.NEQ && cmp.Op != token.EQL) {
				continue
			}
			if !(cmp.X == cv.X || cmp.Y == cv.X) {
				continue
			}
			for _, cr := range *cmp.Referrers() {
				if iff, ok := cr.(*ssa.If); ok {
					if cmp.Op == token.NEQ {
						eqBlk = iff.Block().Succs[1]
					} else {
						eqBlk = iff.Block().Succs[0]
					}
				}
			}
		}
	}
	if eqBlk == nil {
		return false
	}
	for _, r := range *refs {
		if c, ok := r.(*ssa.Convert); ok && types.Identical(c.Type(), cv.X.Type()) {
			continue
		}
		if _, ok := r.(*ssa.DebugRef); ok {
			continue
		}
		if !(eqBlk.Dominates(r.Block()) && len(eqBlk.Preds) == 1) {
			return false
		}
	}
	return true
}

// narrowRequirement verifies the structural precondition a table entry names.
// Returns "" if it holds, otherwise what is missing.
func narrowRequirement(p *Program, req string) string {
	switch {
	case req == "":
		return ""
	case strings.HasPrefix(req, "append-guarded:"):
		// every append in the named function is guarded, on every path, by a
		// comparison of len(<same slice>) with a constant <= 255 whose other branch
		// does not reach the append
		parts := strings.SplitN(strings.TrimPrefix(req, "append-guarded:"), "|", 2)
		f := p.Func(parts[0], parts[1])
		if f == nil {
			return "anchor unresolved: " + req
		}
		appends := 0
		bad := ""
		forEachInstr(f, func(ins ssa.Instruction) {
			call, ok := ins.(*ssa.Call)
			if !ok {
				return
			}
			b, ok := call.Call.Value.(*ssa.Builtin)
			if !ok || b.Name() != "append" {
				return
			}
			appends++
			gc := newGuardCtx(f)
			found := false
			for _, ge := range gc.MustEdges(call.Block()) {
				rel, ok := ge.Relation()
				if !ok {
					continue
				}
				for _, pair := range [][2]ssa.Value{{rel.A, rel.B}, {rel.B, rel.A}} {
					lv, kv := stripConv(pair[0]), pair[1]
					k, isK := constInt(kv)
					if !isK || k > 255 || !isLenCall(lv) {
						continue
					}
					lc := lv.(*ssa.Call)
					if sameValue(stripConv(lc.Call.Args[0]), stripConv(call.Call.Args[0])) {
						found = true
					}
				}
			}
			if !found {
				bad = "an append in " + fnKey(f) + " is not guarded by a comparison of the slice length with a constant <= 255 (" + p.InstrPos(call) + ")"
			}
		})
		if appends == 0 {
			return "no append found in " + fnKey(f) + " (the growth site moved; table entry needs review)"
		}
		return bad
	case req == "function-size-limit":
		f := p.Func("ircomp", "(*ConstantCompiler).ProcessCode")
		if f == nil {
			return "anchor unresolved: ircomp.(*ConstantCompiler).ProcessCode"
		}
		// a comparison (x - y) > K with K <= 32767 whose true branch panics, that
		// every path to the addCompiled call passes on the false side
		var target *ssa.Call
		forEachInstr(f, func(ins ssa.Instruction) {
			if call, ok := ins.(*ssa.Call); ok {
				if cal := call.Call.StaticCallee(); cal != nil && cal.Name() == "addCompiled" {
					target = call
				}
			}
		})
		if target == nil {
			return "anchor unresolved: call to addCompiled in ProcessCode"
		}
		gc := newGuardCtx(f)
		for _, ge := range gc.MustEdges(target.Block()) {
			rel, ok := ge.Relation()
			if !ok {
				continue
			}
			sub, isSub := stripConv(rel.A).(*ssa.BinOp)
			k, isK := constInt(rel.B)
			if isSub && sub.Op == token.SUB && isK && k <= 32767 && (rel.Op == token.LEQ || rel.Op == token.LSS) {
				return ""
			}
		}
		return "ProcessCode no longer rejects functions longer than 32767 opcodes before registering them"
	}
	return "unknown requirement " + req
}
