package main

import (
	"fmt"
	"strings"

	"golang.org/x/tools/go/ssa"
)

func init() {
	registerRule("R-QUOTE", false, ruleQuote)
}

// ruleQuote: what string.format('%q', v) writes has to be read back by golua's own
// scanner. Go's quoting functions write Go syntax (\u00e9, \U0001f600, \x..), of
// which the scanner accepts only a part, so they must not be reachable from the
// function that renders a %q argument.
func ruleQuote(c *Ctx) *RuleResult {
	r := newResult("R-QUOTE", "string.format('%q', v) is rendered by lib/stringlib.quote and the module functions it calls (static calls, transitively); none of them may call a Go-syntax quoting function (strconv.Quote*, strconv.AppendQuote*, or a fmt verb function with a constant format containing %q): those write \\uXXXX and \\UXXXXXXXX escapes the Lua scanner rejects, so the result of %q would not load back")
	p := c.P
	q := p.Func("lib/stringlib", "quote")
	format := p.Func("lib/stringlib", "Format")
	if q == nil || format == nil {
		r.broken("anchor unresolved: lib/stringlib.quote / Format")
		return r
	}
	// quote must be what Format calls (otherwise the anchor is stale)
	called := false
	forEachInstr(format, func(ins ssa.Instruction) {
		if call, ok := ins.(ssa.CallInstruction); ok && call.Common().StaticCallee() == q {
			called = true
		}
	})
	if !called {
		r.broken("lib/stringlib.Format does not call lib/stringlib.quote any more (anchor moved?)")
		return r
	}
	seen := map[*ssa.Function]bool{}
	var walk func(f *ssa.Function, path []string)
	n := 0
	walk = func(f *ssa.Function, path []string) {
		if f == nil || seen[f] || f.Blocks == nil {
			return
		}
		seen[f] = true
		n++
		path = append(path, fnKey(f))
		forEachInstr(f, func(ins ssa.Instruction) {
			call, ok := ins.(ssa.CallInstruction)
			if !ok {
				return
			}
			cal := call.Common().StaticCallee()
			if cal == nil {
				return
			}
			if p.InModule(cal) {
				walk(cal, path)
				return
			}
			name := fullName(cal)
			bad := strings.HasPrefix(name, "strconv.Quote") || strings.HasPrefix(name, "strconv.AppendQuote")
			if !bad && strings.HasPrefix(name, "fmt.") {
				for _, a := range call.Common().Args {
					if k, ok := a.(*ssa.Const); ok && k.Value != nil && strings.Contains(k.Value.ExactString(), "%q") {
						bad = true
					}
				}
			}
			if bad {
				r.fail("go-syntax-quoting:"+fnKey(f)+":"+name, p.InstrPos(ins), fmt.Sprintf("%s, reached from the %%q directive (%s), calls %s: Go writes non-printable runes as \\u00XX / \\UXXXXXXXX, which the Lua scanner rejects (\\u must be followed by '{'), so load('return ' .. string.format('%%q', '\\xc2\\x98')) fails instead of returning the string", fnKey(f), strings.Join(path, " -> "), name))
			}
		})
	}
	walk(q, nil)
	r.count("functions_rendering_q", n)
	r.floor("functions_rendering_q", 1)
	if len(r.Findings) == 0 {
		r.ok(fmt.Sprintf("the %d function(s) that render a %%q argument call no Go-syntax quoting function", n))
	}
	return r
}
