package main

import (
	"fmt"
	"go/constant"
	"go/token"
	"strings"

	"golang.org/x/tools/go/callgraph"
	"golang.org/x/tools/go/ssa"
)

func init() {
	registerRule("R-CONTEXT", false, ruleContext)
}

// fieldLoadsIn: names of runtimeContextManager / RuntimeContextDef / RuntimeResources
// fields (dotted) that the value depends on (def-use slice through calls).
func fieldDeps(v ssa.Value) map[string]bool {
	out := map[string]bool{}
	for w := range backSlice(v, true) {
		switch x := w.(type) {
		case *ssa.FieldAddr:
			_, tn, fn := fieldOfAddr(x)
			out[tn+"."+fn] = true
		case *ssa.Field:
			_, tn, fn := fieldOfField(x)
			out[tn+"."+fn] = true
		}
	}
	return out
}

func ruleContext(c *Ctx) *RuleResult {
	r := newResult("R-CONTEXT", "context bookkeeping has the dependencies the budget rules need (presence of data flow, not expression shape): (a) in PushContext the value stored to hardLimits depends on the old hardLimits, on usedResources and on the requested HardLimits; the value stored to softLimits depends on the new hardLimits and on the requested SoftLimits; when time is tracked the parent's elapsed time is refreshed before that, under no other condition than trackTime; (b) PopContext charges the child's used Cpu and Memory to the parent (RequireCPU/RequireMem on m.parent with the child's usedResources) before restoring the parent; (c) the status field is written only by its owners: Live in PushContext, Done on the returned copy in PopContext, Killed in TerminateContext (or its helper terminate), and setStatus, which only CallContext calls, on the err != nil branch, after everything that can run Lua code (the to-be-closed handlers and finalisers) — otherwise those would run with limits switched off; (d) Due() depends on stopLevel, softLimits and usedResources; (e) running out of CPU or memory is not an error a nested context can swallow: the termination raised by requireCPU and by requireMem depends on a field PushContext derives from both the requested limits and the effective ones (whose budget ran out: the context's own, or what its parent had left — a request for more than the parent has left is clamped, so the request alone does not say), and CallContext's recover handler hands the recovered value to a function that can terminate the restored context and whose decision depends on it — a pcall's context has no memory of its own, so without this `pcall(string.rep, 'x', 1e9)` turns the kill into a catchable error and the program carries on")
	p := c.P
	if p.Config.Tags == "noquotas" {
		r.note("noquotas build: no budgets; rule not applicable")
		r.ok("noquotas: vacuous")
		return r
	}
	push := p.Func("runtime", "(*runtimeContextManager).PushContext")
	pop := p.Func("runtime", "(*runtimeContextManager).PopContext")
	due := p.Func("runtime", "(*runtimeContextManager).Due")
	cc := p.Func("runtime", "(*Thread).CallContext")
	if push == nil || pop == nil || due == nil || cc == nil {
		r.broken("anchor unresolved: PushContext/PopContext/Due/CallContext")
		return r
	}
	// ---- (a)
	var hardStore, softStore *ssa.Store
	forEachInstr(push, func(ins ssa.Instruction) {
		if st, ok := ins.(*ssa.Store); ok {
			if fa, ok := st.Addr.(*ssa.FieldAddr); ok {
				_, tn, fn := fieldOfAddr(fa)
				if tn == "runtimeContextManager" && fn == "hardLimits" {
					hardStore = st
				}
				if tn == "runtimeContextManager" && fn == "softLimits" {
					softStore = st
				}
			}
		}
	})
	need := func(st *ssa.Store, what string, deps ...string) {
		if st == nil {
			r.fail("pushcontext-no-store:"+what, p.Pos(push.Pos()), "PushContext no longer stores "+what)
			return
		}
		have := fieldDeps(st.Val)
		var missing []string
		for _, d := range deps {
			if !have[d] {
				missing = append(missing, d)
			}
		}
		if len(missing) == 0 {
			r.ok(fmt.Sprintf("(a) PushContext: %s depends on %s", what, strings.Join(deps, ", ")))
		} else {
			r.fail("pushcontext-dependency:"+what, p.InstrPos(st), fmt.Sprintf("in PushContext the value stored to %s no longer depends on %s: a child context could get more budget than its parent has left, or soft limits above its hard limits", what, strings.Join(missing, ", ")))
		}
	}
	need(hardStore, "hardLimits", "runtimeContextManager.hardLimits", "runtimeContextManager.usedResources", "RuntimeContextDef.HardLimits")
	need(softStore, "softLimits", "runtimeContextManager.hardLimits", "RuntimeContextDef.SoftLimits")
	if hardStore != nil && softStore != nil {
		// softLimits uses the *new* hardLimits: the load of hardLimits feeding softStore comes after hardStore
		okNew := false
		for w := range backSlice(softStore.Val, true) {
			if u, ok := w.(*ssa.UnOp); ok {
				if fa, ok := u.X.(*ssa.FieldAddr); ok {
					if _, tn, fn := fieldOfAddr(fa); tn == "runtimeContextManager" && fn == "hardLimits" && instrDominates(hardStore, u) {
						okNew = true
					}
				}
			}
		}
		if okNew {
			r.ok("(a) softLimits is merged with the hard limits just computed for the child")
		} else {
			r.fail("pushcontext-soft-uses-old-hard", p.InstrPos(softStore), "PushContext merges the soft limits with the parent's hard limits, not the child's new ones: soft limits could exceed hard limits")
		}
	}
	// time refresh
	var upd ssa.CallInstruction
	forEachInstr(push, func(ins ssa.Instruction) {
		if call, ok := ins.(ssa.CallInstruction); ok && calleeNamed(call, "updateTimeUsed") {
			upd = call
		}
	})
	if upd == nil || hardStore == nil {
		r.fail("pushcontext-no-time-refresh", p.Pos(push.Pos()), "PushContext no longer refreshes the parent's elapsed time before computing what is left for the child")
	} else {
		// when trackTime holds, every path to the hardLimits computation passes the
		// refresh: with the refresh block removed and the trackTime==false edge cut,
		// the store must be unreachable
		var ttIf *ssa.If
		forEachInstr(push, func(ins ssa.Instruction) {
			if iff, ok := ins.(*ssa.If); ok && ttIf == nil {
				if u, ok := iff.Cond.(*ssa.UnOp); ok {
					if fa, ok := u.X.(*ssa.FieldAddr); ok {
						if _, tn, fn := fieldOfAddr(fa); tn == "runtimeContextManager" && fn == "trackTime" {
							ttIf = iff
						}
					}
				}
			}
		})
		switch {
		case ttIf == nil:
			r.fail("pushcontext-time-refresh-condition", p.InstrPos(upd), "PushContext no longer tests trackTime to decide whether to refresh the parent's elapsed time")
		case !instrDominatesOrBefore(upd, hardStore):
			r.fail("pushcontext-time-refresh-late", p.InstrPos(upd), "PushContext refreshes the parent's elapsed time after computing the child's limits")
		default:
			gc := newGuardCtx(push)
			gc.excluded[upd.Block()] = true
			if gc.reach(hardStore.Block(), ttIf.Block(), 1) {
				r.fail("pushcontext-time-refresh-condition", p.InstrPos(upd), "in PushContext some path computes the child's limits while time is tracked without refreshing the parent's elapsed time first (the refresh depends on more than trackTime): with a stale reading a child context gets more time than its parent has left")
			} else {
				r.ok("(a) PushContext refreshes the parent's elapsed time whenever time is tracked, before computing the child's limits")
			}
		}
	}
	// ---- (b)
	var restore *ssa.Store
	forEachInstr(pop, func(ins ssa.Instruction) {
		if st, ok := ins.(*ssa.Store); ok {
			if _, tn, ok := namedOf(st.Val.Type()); ok && tn == "runtimeContextManager" {
				if _, isAlloc := st.Addr.(*ssa.Alloc); !isAlloc {
					restore = st
				}
			}
		}
	})
	for _, want := range []struct{ callee, field string }{{"RequireCPU", "Cpu"}, {"RequireMem", "Memory"}} {
		found := false
		forEachInstr(pop, func(ins ssa.Instruction) {
			call, ok := ins.(ssa.CallInstruction)
			if !ok || !calleeNamed(call, want.callee) {
				return
			}
			args := call.Common().Args
			recvDeps := fieldDeps(args[0])
			amtDeps := fieldDeps(args[len(args)-1])
			if recvDeps["runtimeContextManager.parent"] && amtDeps["runtimeContextManager.usedResources"] && amtDeps["RuntimeResources."+want.field] {
				if restore == nil || instrDominatesOrBefore(call, restore) {
					found = true
				}
			}
		})
		if found {
			r.ok(fmt.Sprintf("(b) PopContext charges the child's used %s to the parent before restoring it", want.field))
		} else {
			r.fail("popcontext-no-recharge:"+want.field, p.Pos(pop.Pos()), fmt.Sprintf("PopContext no longer calls m.parent.%s(m.usedResources.%s) before restoring the parent: what a child context consumed would be free for the parent, so nesting contexts multiplies the budget", want.callee, want.field))
		}
	}
	// ---- (c) status writers
	statusNames := map[int64]string{}
	for _, n := range []string{"StatusLive", "StatusDone", "StatusError", "StatusKilled"} {
		if v := constOf(p, "runtime", n); v != "" {
			var k int64
			fmt.Sscan(v, &k)
			statusNames[k] = n
		}
	}
	owners := map[string]map[string]bool{
		"StatusLive":   {"(*runtime.runtimeContextManager).PushContext": true},
		"StatusDone":   {"(*runtime.runtimeContextManager).PopContext": true},
		"StatusKilled": {"(*runtime.runtimeContextManager).TerminateContext": true, "(*runtime.runtimeContextManager).terminate": true},
		"param":        {"(*runtime.runtimeContextManager).setStatus": true},
	}
	nst := 0
	for _, f := range p.ModFuncs() {
		if relPkg(funcPkgPath(f)) != "runtime" || f.Blocks == nil {
			continue
		}
		forEachInstr(f, func(ins ssa.Instruction) {
			st, ok := ins.(*ssa.Store)
			if !ok {
				return
			}
			fa, ok := st.Addr.(*ssa.FieldAddr)
			if !ok {
				return
			}
			if _, tn, fn := fieldOfAddr(fa); tn != "runtimeContextManager" || fn != "status" {
				return
			}
			nst++
			kind := "param"
			if k, ok := st.Val.(*ssa.Const); ok && k.Value != nil && k.Value.Kind() == constant.Int {
				v, _ := constant.Int64Val(k.Value)
				kind = statusNames[v]
			}
			if owners[kind][fnKey(f)] {
				r.ok(fmt.Sprintf("(c) status %s written by its owner %s", kind, fnKey(f)))
			} else {
				r.fail("status-writer:"+kind+":"+fnKey(f), p.InstrPos(st), fmt.Sprintf("%s writes the context status (%s); the owners are PushContext (live), PopContext (done, on the returned copy), TerminateContext (killed) and setStatus: another writer can make a context report a status it did not end with, or re-arm a killed context", fnKey(f), kind))
			}
		})
	}
	r.count("status_stores", nst)
	r.floor("status_stores", 4)
	// setStatus callers
	setSt := p.Func("runtime", "(*runtimeContextManager).setStatus")
	runc := p.Func("runtime", "(*Thread).RunContinuation")
	if setSt == nil || runc == nil {
		r.broken("anchor unresolved: setStatus / RunContinuation")
		return r
	}
	for _, f := range p.ModFuncs() {
		if f.Blocks == nil {
			continue
		}
		forEachInstr(f, func(ins ssa.Instruction) {
			call, ok := ins.(ssa.CallInstruction)
			if !ok || call.Common().StaticCallee() != setSt {
				return
			}
			if f.Synthetic != "" {
				return
			}
			if f != cc {
				r.fail("setstatus-caller:"+fnKey(f), p.InstrPos(ins), fnKey(f)+" calls setStatus; only CallContext may set a context's final status")
				return
			}
			// on the err != nil branch
			gc := newGuardCtx(f)
			onErr := false
			for _, ge := range gc.MustEdges(ins.Block()) {
				if rel, ok := ge.Relation(); ok && rel.Op == token.NEQ && (isNilConst(rel.A) || isNilConst(rel.B)) {
					onErr = true
				}
			}
			// nothing that can run Lua after it (in the function body; the deferred handler pops the context)
			var after []ssa.Instruction
			idx := instrIndex(ins)
			after = append(after, ins.Block().Instrs[idx+1:]...)
			seen := map[*ssa.BasicBlock]bool{}
			stack := append([]*ssa.BasicBlock(nil), ins.Block().Succs...)
			for len(stack) > 0 {
				b := stack[len(stack)-1]
				stack = stack[:len(stack)-1]
				if seen[b] {
					continue
				}
				seen[b] = true
				after = append(after, b.Instrs...)
				stack = append(stack, b.Succs...)
			}
			luaAfter := ""
			for _, a := range after {
				c2, ok := a.(*ssa.Call)
				if !ok {
					continue
				}
				var targets []*ssa.Function
				if cal := c2.Call.StaticCallee(); cal != nil {
					if !p.InModule(cal) {
						continue
					}
					targets = []*ssa.Function{cal}
				} else if _, isB := c2.Call.Value.(*ssa.Builtin); !isB {
					targets = p.CalleesAt(c2)
				}
				for _, t := range targets {
					reach := &Reach{p: p}
					hit := t == runc
					runUncut(reach, []*ssa.Function{t}, func(e *callgraph.Edge, cur searchState) {
						if e.Callee.Func == runc {
							hit = true
						}
					})
					if hit {
						luaAfter = fnKey(t) + " at " + p.InstrPos(a)
					}
				}
			}
			switch {
			case !onErr:
				r.fail("setstatus-unconditional", p.InstrPos(ins), "CallContext sets the context's status without being on the err != nil branch")
			case luaAfter != "":
				r.fail("setstatus-before-lua", p.InstrPos(ins), fmt.Sprintf("CallContext marks the context as finished (setStatus) and then calls %s, which runs Lua code: TerminateContext does nothing unless the status is live, so that code runs with the hard limits switched off and the context reports 'error' instead of 'killed'", luaAfter))
			default:
				r.ok("(c) CallContext sets the final status on the error branch after everything that can run Lua")
			}
		})
	}
	// ---- (e)
	reqFns := map[string]*ssa.Function{
		"requireCPU": p.Func("runtime", "(*runtimeContextManager).requireCPU"),
		"requireMem": p.Func("runtime", "(*runtimeContextManager).requireMem"),
	}
	if reqFns["requireCPU"] == nil || reqFns["requireMem"] == nil {
		r.broken("anchor unresolved: (*runtimeContextManager).requireCPU / requireMem")
	} else {
		isTermErrT := func(t fmt.Stringer) bool {
			return strings.HasSuffix(t.String(), "runtime.ContextTerminationError")
		}
		// fields of the context manager set in PushContext from the request
		fromRequest := map[string]bool{}
		forEachInstr(push, func(ins ssa.Instruction) {
			st, ok := ins.(*ssa.Store)
			if !ok {
				return
			}
			fa, ok := st.Addr.(*ssa.FieldAddr)
			if !ok {
				return
			}
			_, tn, fn := fieldOfAddr(fa)
			if tn != "runtimeContextManager" {
				return
			}
			deps := fieldDeps(st.Val)
			if fn == "hardLimits" || fn == "softLimits" {
				return
			}
			// whose budget it is cannot be read off the request alone: a request for more
			// than the parent has left is clamped, so the flag has to depend on the
			// effective limit (or what the parent had left) as well
			if (deps["RuntimeContextDef.HardLimits"] || sliceWithFields(st.Val)[push.Params[1]]) && (deps["runtimeContextManager.hardLimits"] || deps["runtimeContextManager.usedResources"]) {
				fromRequest[fn] = true
			}
		})
		// (e1) the termination raised when a budget runs out says whose budget it was
		for _, name := range []string{"requireCPU", "requireMem"} {
			reqFn := reqFns[name]
			e1 := ""
			forEachInstr(reqFn, func(ins ssa.Instruction) {
				var vals []ssa.Value
				switch x := ins.(type) {
				case *ssa.Panic:
					vals = []ssa.Value{x.X}
				case ssa.CallInstruction:
					vals = x.Common().Args
				}
				for _, v := range vals {
					sl := sliceWithFields(v)
					isErr := false
					for w := range sl {
						if isTermErrT(w.Type()) {
							isErr = true
						}
					}
					if !isErr {
						continue
					}
					for w := range sl {
						if fa, ok := w.(*ssa.FieldAddr); ok {
							if _, tn, fn := fieldOfAddr(fa); tn == "runtimeContextManager" && fromRequest[fn] && fn != "hardLimits" && fn != "softLimits" {
								e1 = fn
							}
						}
					}
				}
			})
			if e1 != "" {
				r.ok("(e) " + name + ": the termination it raises depends on " + e1 + ", which PushContext derives from the requested limits (whose budget ran out)")
			} else {
				r.fail("kill-owner-unknown:"+name, p.Pos(reqFn.Pos()), "the termination "+name+" raises does not say whether the budget that ran out was the context's own or what its parent had left (no dependency on a field PushContext derives from the requested limits): CallContext cannot tell a sandbox that hit its own limit from a pcall that exhausted its parent's, so a pcall turns running out of budget into an ordinary, catchable error whenever the refused charge is larger than what the parent has left afterwards (any refused allocation; a single large CPU charge such as string.find on a long subject)")
			}
		}
		// (e2) CallContext hands the recovered termination to something that can terminate the restored context
		e2 := ""
		var canKill func(f *ssa.Function, depth int) bool
		canKill = func(f *ssa.Function, depth int) bool {
			if f == nil || f.Blocks == nil || depth > 3 {
				return false
			}
			found := false
			forEachInstr(f, func(ins ssa.Instruction) {
				switch x := ins.(type) {
				case *ssa.Store:
					if fa, ok := x.Addr.(*ssa.FieldAddr); ok {
						if _, tn, fn := fieldOfAddr(fa); tn == "runtimeContextManager" && fn == "status" {
							if k, ok := x.Val.(*ssa.Const); ok && k.Value != nil && k.Value.Kind() == constant.Int {
								if v, _ := constant.Int64Val(k.Value); statusNames[v] == "StatusKilled" {
									found = true
								}
							}
						}
					}
				case ssa.CallInstruction:
					if cal := x.Common().StaticCallee(); cal != nil && p.InModule(cal) && canKill(cal, depth+1) {
						found = true
					}
				}
			})
			return found
		}
		fns := append([]*ssa.Function{cc}, cc.AnonFuncs...)
		for _, f := range fns {
			forEachInstr(f, func(ins ssa.Instruction) {
				call, ok := ins.(ssa.CallInstruction)
				if !ok {
					return
				}
				cal := call.Common().StaticCallee()
				if cal == nil || !p.InModule(cal) || isCtxMethod(cal, "PopContext") {
					return
				}
				fromRecovered := false
				for _, a := range call.Common().Args {
					for w := range sliceWithFields(a) {
						if ta, ok := w.(*ssa.TypeAssert); ok && isTermErrT(ta.AssertedType) {
							fromRecovered = true
						}
					}
				}
				if !fromRecovered || !canKill(cal, 0) {
					return
				}
				// its decision depends on the error it is given
				dep := false
				forEachInstr(cal, func(i2 ssa.Instruction) {
					if iff, ok := i2.(*ssa.If); ok {
						for w := range sliceWithFields(iff.Cond) {
							if pr, ok := w.(*ssa.Parameter); ok && isTermErrT(pr.Type()) {
								dep = true
							}
						}
					}
				})
				if dep {
					e2 = fnKey(cal)
				}
			})
		}
		if e2 != "" {
			r.ok("(e) CallContext hands a recovered termination to " + e2 + ", which can terminate the restored context depending on it")
		} else {
			r.fail("kill-swallowed-by-nested-context", p.Pos(cc.Pos()), "CallContext recovers a context termination and returns it as an error without giving the restored context a chance to be terminated with it: a pcall (whose context inherits all its parent has left) catches 'memory limit exceeded' and, for a single large charge, 'CPU limit exceeded' — runtime.callcontext({kill={memory=10000}}, function() print(pcall(string.rep, 'x', 100000)) print('still running') end) prints false, the message, 'still running' and ends 'done' — so a kill is interceptable and whether a program is killed is not monotone in the limit")
		}
	}
	// ---- (d)
	var dueDeps map[string]bool
	forEachInstr(due, func(ins ssa.Instruction) {
		if ret, ok := ins.(*ssa.Return); ok && len(ret.Results) == 1 {
			d := fieldDeps(ret.Results[0])
			if dueDeps == nil {
				dueDeps = d
			} else {
				for k := range d {
					dueDeps[k] = true
				}
			}
		}
	})
	// the short-circuit || makes the result a phi whose condition lives in an If: add If conditions
	forEachInstr(due, func(ins ssa.Instruction) {
		if iff, ok := ins.(*ssa.If); ok {
			for k := range fieldDeps(iff.Cond) {
				dueDeps[k] = true
			}
		}
	})
	var miss []string
	for _, d := range []string{"runtimeContextManager.stopLevel", "runtimeContextManager.softLimits", "runtimeContextManager.usedResources"} {
		if !dueDeps[d] {
			miss = append(miss, d)
		}
	}
	if len(miss) == 0 {
		r.ok("(d) Due() depends on stopLevel, softLimits and usedResources; (e) running out of CPU or memory is not an error a nested context can swallow: the termination raised by requireCPU and by requireMem depends on a field PushContext derives from both the requested limits and the effective ones (whose budget ran out: the context's own, or what its parent had left — a request for more than the parent has left is clamped, so the request alone does not say), and CallContext's recover handler hands the recovered value to a function that can terminate the restored context and whose decision depends on it — a pcall's context has no memory of its own, so without this `pcall(string.rep, 'x', 1e9)` turns the kill into a catchable error and the program carries on")
	} else {
		r.fail("due-dependency", p.Pos(due.Pos()), "Due() no longer depends on "+strings.Join(miss, ", ")+": 'due' would not be true exactly when a soft limit is reached or a stop was requested")
	}
	return r
}

// instrDominatesOrBefore: a always runs before b when both run (b is reachable
// from a and not the other way round), or a dominates b.
func instrDominatesOrBefore(a, b ssa.Instruction) bool {
	if instrDominates(a, b) {
		return true
	}
	if a.Block() == b.Block() {
		return false
	}
	return blockReaches(a.Block(), b.Block()) && !blockReaches(b.Block(), a.Block())
}

// sliceWithFields: backSliceAllocs, plus the values stored into the fields of
// the local composite literals met on the way.
func sliceWithFields(v ssa.Value) map[ssa.Value]bool {
	seen := map[ssa.Value]bool{}
	work := []ssa.Value{v}
	for len(work) > 0 {
		x := work[len(work)-1]
		work = work[:len(work)-1]
		for w := range backSliceAllocs(x, false) {
			if seen[w] {
				continue
			}
			seen[w] = true
			al, ok := w.(*ssa.Alloc)
			if !ok || al.Referrers() == nil {
				continue
			}
			for _, ref := range *al.Referrers() {
				fa, ok := ref.(*ssa.FieldAddr)
				if !ok || fa.Referrers() == nil {
					continue
				}
				for _, r2 := range *fa.Referrers() {
					if st, ok := r2.(*ssa.Store); ok && !seen[st.Val] {
						work = append(work, st.Val)
					}
				}
			}
		}
	}
	return seen
}
