package main

import (
	"fmt"
	"strings"

	"golang.org/x/tools/go/callgraph"
	"golang.org/x/tools/go/ssa"
)

func init() {
	registerRule("R-CTXSTACK", false, ruleCtxStack)
}

// storesCtxLink: f rewrites the runtime-wide context stack (a store to the
// `parent` link of a runtimeContextManager, which is what push, pop or any
// parking of contexts has to do).
func storesCtxLink(f *ssa.Function) bool {
	found := false
	forEachInstr(f, func(ins ssa.Instruction) {
		if st, ok := ins.(*ssa.Store); ok {
			if fa, ok := st.Addr.(*ssa.FieldAddr); ok {
				_, tn, fn := fieldOfAddr(fa)
				if tn == "runtimeContextManager" && fn == "parent" {
					found = true
				}
			}
		}
	})
	return found
}

func ruleCtxStack(c *Ctx) *RuleResult {
	r := newResult("R-CTXSTACK", "the context stack is one per runtime, not one per coroutine, so a function that brackets a computation with PushContext ... PopContext owns the top of that stack until its pop: (a) the brackets are enumerated (a function with a static PushContext call and a PopContext call in its body or deferred closures); (b) for each bracket, if a call between push and pop can reach a thread hand-off that leaves the bracket suspended while the resumer goes on running ((*Thread).Yield, through the VTA call graph including the flag-gated dispatch), then the hand-off has to move the yielding thread's contexts out of the way: Yield (its static module callees) must rewrite the stack (store to runtimeContextManager.parent); otherwise the resumer runs on under the coroutine's context — its limits, its message handler — and the next pop, whoever does it, pops the wrong context")
	p := c.P
	yield := p.Func("runtime", "(*Thread).Yield")
	if yield == nil {
		r.broken("anchor unresolved: (*Thread).Yield")
		return r
	}
	// does Yield park contexts?
	parks := ""
	seen := map[*ssa.Function]bool{}
	var walk func(f *ssa.Function)
	walk = func(f *ssa.Function) {
		if f == nil || seen[f] || f.Blocks == nil || !p.InModule(f) {
			return
		}
		seen[f] = true
		if storesCtxLink(f) && parks == "" {
			parks = fnKey(f)
		}
		forEachInstr(f, func(ins ssa.Instruction) {
			if call, ok := ins.(ssa.CallInstruction); ok {
				walk(call.Common().StaticCallee())
			}
		})
		for _, af := range f.AnonFuncs {
			walk(af)
		}
	}
	walk(yield)
	r.count("functions_on_yield_path", len(seen))

	nb := 0
	for _, f := range p.ModFuncs() {
		if f.Blocks == nil || f.Synthetic != "" || f.Parent() != nil {
			continue
		}
		if !strings.HasPrefix(relPkg(funcPkgPath(f)), "runtime") && !luaReachablePkg(relPkg(funcPkgPath(f))) {
			continue
		}
		push, pop := false, false
		var between []ssa.CallInstruction
		scan := func(g *ssa.Function, own bool) {
			forEachInstr(g, func(ins ssa.Instruction) {
				call, ok := ins.(ssa.CallInstruction)
				if !ok {
					return
				}
				cal := call.Common().StaticCallee()
				switch {
				case isCtxMethod(cal, "PushContext"):
					if own {
						push = true
					}
				case isCtxMethod(cal, "PopContext"):
					pop = true
				default:
					if _, isB := call.Common().Value.(*ssa.Builtin); !isB && own {
						if _, isDefer := ins.(*ssa.Defer); !isDefer {
							between = append(between, call)
						}
					}
				}
			})
		}
		scan(f, true)
		for _, af := range f.AnonFuncs {
			scan(af, false)
		}
		if !push || !pop {
			continue
		}
		nb++
		// can the bracketed computation yield?
		var path []string
		for _, call := range between {
			var targets []*ssa.Function
			if cal := call.Common().StaticCallee(); cal != nil {
				targets = []*ssa.Function{cal}
			} else {
				targets = p.CalleesAt(call)
			}
			for _, t := range targets {
				if path != nil {
					break
				}
				if t == yield {
					path = []string{fnKey(f) + " -> " + fnKey(yield) + "   [" + p.InstrPos(call) + "]"}
					break
				}
				reach := &Reach{p: p}
				runUncut(reach, []*ssa.Function{t}, func(e *callgraph.Edge, cur searchState) {
					if e.Callee.Func == yield && path == nil {
						path = append([]string{fnKey(f) + " -> " + calleeName(p, t) + "   [" + p.InstrPos(call) + "]"}, reach.PathTo(cur, e)...)
					}
				})
			}
		}
		switch {
		case path == nil:
			r.ok(fmt.Sprintf("(b) %s: nothing between its push and pop can reach a yield", fnKey(f)))
		case parks != "":
			r.ok(fmt.Sprintf("(b) %s: the bracketed computation can yield, and the hand-off rewrites the context stack (%s)", fnKey(f), parks))
		default:
			if len(path) > 8 {
				path = append(append([]string{}, path[:4]...), append([]string{"..."}, path[len(path)-3:]...)...)
			}
			r.fail("context-held-across-yield:"+fnKey(f), p.Pos(f.Pos()), fmt.Sprintf("%s pushes a context on the runtime-wide stack and the computation it brackets can yield (%s) while (*Thread).Yield leaves the stack as it is: the resumer then runs under the coroutine's context (its hard limits and its message handler) and the bracket that ends next pops the wrong one — e.g. `runtime.callcontext({kill={cpu=N}}, function() coroutine.wrap(function() pcall(coroutine.yield) end)() end)` returns 'done' and leaves the host running under the limit N, which then kills the host", fnKey(f), strings.Join(path, " ; ")))
		}
	}
	r.count("context_brackets", nb)
	r.floor("context_brackets", 1)
	return r
}
