package main

import (
	"fmt"
	"go/token"
	"go/types"

	"golang.org/x/tools/go/ssa"
)

func init() {
	registerRule("R-DIVZERO", false, ruleDivZero)
}

func isIntegerType(t types.Type) bool {
	b, ok := t.Underlying().(*types.Basic)
	return ok && b.Info()&types.IsInteger != 0
}

// nonZeroAt: v is provably non-zero at instruction `at` in f: a non-zero
// constant, a value guarded on every path by a comparison excluding zero, a
// strictly positive expression (1<<k, x|1, len(x)+c), or a parameter that is
// non-zero at every call site (depth-limited).
func nonZeroAt(p *Program, f *ssa.Function, v ssa.Value, at ssa.Instruction, depth int) (bool, string) {
	return valueExcludes(p, f, v, 0, at, depth)
}

// valueExcludes: v != c is known at instruction `at`.
func valueExcludes(p *Program, f *ssa.Function, v ssa.Value, c int64, at ssa.Instruction, depth int) (bool, string) {
	v = stripConv(v)
	if k, ok := constInt(v); ok {
		return k != c, "constant"
	}
	if depth > 6 {
		return false, ""
	}
	switch x := v.(type) {
	case *ssa.UnOp:
		if fa, ok := x.X.(*ssa.FieldAddr); ok && x.Op == token.MUL && c == 0 {
			rel, tn, fn := fieldOfAddr(fa)
			if why, ok := nonZeroFields[rel+"."+tn+"."+fn]; ok {
				return true, "field invariant: " + why
			}
		}
	case *ssa.BinOp:
		if x.Op == token.SUB || x.Op == token.ADD {
			if k, ok := constInt(x.Y); ok {
				if x.Op == token.SUB {
					k = -k
				}
				// x.X + k != c  <=>  x.X != c-k
				if ok2, why := valueExcludes(p, f, x.X, c-k, at, depth+1); ok2 {
					return true, why + " (shifted by constant)"
				}
			}
		}
		if c != 0 {
			break
		}
		switch x.Op {
		case token.SHL:
			if k, ok := constInt(x.X); ok && k != 0 {
				// 1 << n is non-zero as long as n < width: accepted (shift counts here are small field widths)
				return true, "constant shifted left"
			}
		case token.OR:
			if k, ok := constInt(x.Y); ok && k != 0 {
				return true, "or with non-zero constant"
			}
		case token.ADD:
			// len(x) + positive constant
			if k, ok := constInt(x.Y); ok && k > 0 && isLenCall(x.X) {
				return true, "len()+positive constant"
			}
		}
	case *ssa.Phi:
		all := true
		for i, e := range x.Edges {
			pred := x.Block().Preds[i]
			last := pred.Instrs[len(pred.Instrs)-1]
			if ok, _ := valueExcludes(p, f, e, c, last, depth+1); !ok {
				all = false
			}
		}
		if all && depth < 4 {
			return true, "phi of non-zero values"
		}
	}
	// guards
	gc := newGuardCtx(f)
	gc.ExcludeErrorPaths(at.Block())
	for _, ge := range gc.MustEdges(at.Block()) {
		rel, ok := ge.Relation()
		if !ok {
			continue
		}
		A, B := stripConv(rel.A), stripConv(rel.B)
		op := rel.Op
		var other ssa.Value
		if A == v {
			other = B
		} else if B == v {
			other = A
			op = flipOp(op)
		} else {
			continue
		}
		k, ok := constInt(other)
		if !ok {
			continue
		}
		unsigned := false
		if bt, ok := v.Type().Underlying().(*types.Basic); ok && bt.Info()&types.IsUnsigned != 0 {
			unsigned = true
		}
		_ = unsigned
		switch op {
		case token.NEQ:
			if k == c {
				return true, fmt.Sprintf("guarded by != %d", c)
			}
		case token.GTR:
			if k >= c {
				return true, fmt.Sprintf("guarded by > %d", k)
			}
		case token.GEQ:
			if k > c {
				return true, fmt.Sprintf("guarded by >= %d", k)
			}
		case token.LSS:
			if k <= c {
				return true, fmt.Sprintf("guarded by < %d", k)
			}
		case token.LEQ:
			if k < c {
				return true, fmt.Sprintf("guarded by <= %d", k)
			}
		case token.EQL:
			if k != c {
				return true, fmt.Sprintf("guarded by == %d", k)
			}
		}
	}
	// parameter: all callers
	if prm, ok := v.(*ssa.Parameter); ok && depth < 5 {
		idx := paramIndex(f, prm)
		if idx >= 0 {
			n := p.CallGraph().Nodes[f]
			if n != nil && len(n.In) > 0 {
				all := true
				for _, e := range n.In {
					if e.Site == nil {
						all = false
						break
					}
					args := e.Site.Common().Args
					if cf := e.Caller.Func; cf.Synthetic != "" {
						if cn := p.CallGraph().Nodes[cf]; cn == nil || len(cn.In) == 0 {
							continue // promoted-method wrapper nobody calls: vacuous
						}
					}
					if e.Site.Common().IsInvoke() {
						// receiver is not in Args for invoke-mode calls
						if idx == 0 || idx-1 >= len(args) {
							all = false
							break
						}
						if ok, _ := valueExcludes(p, e.Caller.Func, args[idx-1], c, e.Site, depth+1); !ok {
							all = false
							break
						}
						continue
					}
					if idx >= len(args) {
						all = false
						break
					}
					if ok, _ := valueExcludes(p, e.Caller.Func, args[idx], c, e.Site, depth+1); !ok {
						all = false
						break
					}
				}
				if all {
					return true, fmt.Sprintf("parameter non-zero at all %d call sites", len(n.In))
				}
			}
		}
	}
	return false, ""
}

func isLenCall(v ssa.Value) bool {
	call, ok := stripConv(v).(*ssa.Call)
	if !ok {
		return false
	}
	b, ok := call.Call.Value.(*ssa.Builtin)
	return ok && (b.Name() == "len" || b.Name() == "cap")
}

func ruleDivZero(c *Ctx) *RuleResult {
	r := newResult("R-DIVZERO", "every integer division or remainder in the runtime and library packages has a divisor that is a non-zero constant, a provably positive expression, or is excluded from being zero by a comparison on every path to the division (in the function, or at every call site when the divisor is a parameter). An unguarded integer x/0 is a Go run-time panic reachable from Lua arithmetic")
	p := c.P
	n := 0
	for _, f := range p.ModFuncs() {
		rel := relPkg(funcPkgPath(f))
		if !luaReachablePkg(rel) {
			continue
		}
		forEachInstr(f, func(ins ssa.Instruction) {
			b, ok := ins.(*ssa.BinOp)
			if !ok || (b.Op != token.QUO && b.Op != token.REM) || !isIntegerType(b.X.Type()) {
				return
			}
			n++
			ok2, why := nonZeroAt(p, f, b.Y, ins, 0)
			if ok2 {
				r.ok(fmt.Sprintf("%s %s divisor %s: %s [%s]", fnKey(f), b.Op, valName(b.Y), why, p.InstrPos(ins)))
				return
			}
			if why, listed := divZeroTable[fnKey(f)]; listed {
				r.ok(fmt.Sprintf("%s: table-listed: %s", fnKey(f), why))
				return
			}
			r.fail("unguarded-divisor:"+fnKey(f), p.InstrPos(ins), fmt.Sprintf("integer %s in %s with a divisor (%s) that is not proved non-zero on every path", b.Op, fnKey(f), valName(b.Y)))
		})
	}
	r.count("integer_div_rem_sites", n)
	r.floor("integer_div_rem_sites", 6)
	return r
}

// luaReachablePkg: packages whose code runs on behalf of Lua programs.
func luaReachablePkg(rel string) bool {
	switch {
	case rel == "runtime", rel == "luastrings", rel == "safeio", rel == "code", rel == "ast", rel == "astcomp", rel == "ir", rel == "ircomp", rel == "parsing", rel == "scanner", rel == "token", rel == "ops":
		return true
	case rel == "runtime/internal/luagc", rel == "runtime/internal/weakref":
		return true
	case len(rel) > 4 && rel[:4] == "lib/":
		return rel != "lib/golib" && rel != "lib/golib/goimports"
	}
	return false
}
