package main

import (
	"fmt"
	"go/token"
	"go/types"

	"golang.org/x/tools/go/ssa"
)

func init() {
	registerRule("R-GATE", true, ruleGate)
}

func ruleGate(c *Ctx) *RuleResult {
	r := newResult("R-GATE", "(a) in (*GoCont).RunInThread the only call through field GoFunction.f is dominated by the nil-error branch of CheckRequiredFlags(<same GoFunction>.safetyFlags); field f is read nowhere else and GoFunction structs are never copied; (b) GoFunction.safetyFlags and runtimeContextManager.requiredFlags are written only as `field |= x` (monotone) besides the whole-struct restore in PopContext; (c) every function of package safeio that calls a sink does so only on the branch where RequiredFlags()&ComplyIoSafe == 0; (d) no module function outside safeio, the host-side packages and the table-listed exception edges calls a sink directly")
	p := c.P
	run := p.Func("runtime", "(*GoCont).RunInThread")
	if run == nil {
		r.broken("anchor unresolved: runtime.(*GoCont).RunInThread")
		return r
	}

	// ---- (a) dispatch dominated by the flag check
	var dispatch []*ssa.Call
	var fLoads int
	for _, f := range p.ModFuncs() {
		forEachInstr(f, func(ins ssa.Instruction) {
			switch x := ins.(type) {
			case *ssa.FieldAddr:
				rel, tn, fn := fieldOfAddr(x)
				if rel == "runtime" && tn == "GoFunction" && fn == "f" {
					for _, ref := range *x.Referrers() {
						switch u := ref.(type) {
						case *ssa.Store:
							if u.Addr == x {
								if isFuncOf(f, "runtime", "NewGoFunction") || isMethodOf(f, "runtime", "Runtime", "SetEnvGoFunc") {
									r.ok("GoFunction.f stored in constructor " + fnKey(f))
								} else {
									r.fail("f-written:"+fnKey(f), p.InstrPos(u), "GoFunction.f is written outside the two constructors: a registered function can be swapped after its flags were declared")
								}
							}
						case *ssa.UnOp:
							fLoads++
							if f != run {
								r.fail("f-read:"+fnKey(f), p.InstrPos(u), "GoFunction.f is read outside (*GoCont).RunInThread: the function can be called or copied without passing the compliance check")
								continue
							}
							for _, lr := range *u.Referrers() {
								if call, ok := lr.(*ssa.Call); ok && call.Call.Value == u {
									dispatch = append(dispatch, call)
								} else if _, isDbg := lr.(*ssa.DebugRef); !isDbg {
									r.fail("f-escapes:"+fnKey(f), p.InstrPos(lr), "the value of GoFunction.f is used other than as the callee of the gated call")
								}
							}
						case *ssa.DebugRef:
						default:
							r.fail("f-addr-escapes:"+fnKey(f), p.InstrPos(ref), "address of GoFunction.f escapes")
						}
					}
				}
			case *ssa.Field:
				rel, tn, fn := fieldOfField(x)
				if rel == "runtime" && tn == "GoFunction" && fn == "f" {
					r.fail("f-read-from-copy:"+fnKey(f), p.InstrPos(x), "GoFunction.f read from a struct copy")
				}
			case *ssa.UnOp:
				if x.Op == token.MUL {
					if rel, tn, ok := namedOf(x.Type()); ok && rel == "runtime" && tn == "GoFunction" {
						if _, isPtr := x.Type().(*types.Pointer); !isPtr {
							r.fail("gofunction-copied:"+fnKey(f), p.InstrPos(x), "a GoFunction struct is copied by value (its f escapes the gate, its flags fork)")
						}
					}
				}
			}
		})
	}
	r.count("loads_of_GoFunction.f", fLoads)
	r.count("dispatch_calls", len(dispatch))
	if len(dispatch) != 1 {
		r.broken("expected exactly one call through GoFunction.f in (*GoCont).RunInThread, found %d", len(dispatch))
	} else {
		d := dispatch[0]
		checks := callsTo(run, func(f *ssa.Function) bool { return isCtxMethod(f, "CheckRequiredFlags") })
		good := false
		for _, k := range checks {
			kv, ok := k.(*ssa.Call)
			if !ok {
				continue
			}
			// argument must be a load of <GoFunction>.safetyFlags
			args := kv.Call.Args
			arg := args[len(args)-1]
			isFlags := false
			if u, ok := arg.(*ssa.UnOp); ok {
				if fa, ok := u.X.(*ssa.FieldAddr); ok {
					rel, tn, fn := fieldOfAddr(fa)
					isFlags = rel == "runtime" && tn == "GoFunction" && fn == "safetyFlags"
					// same GoFunction object as the dispatched f?
					if isFlags {
						dl := d.Call.Value.(*ssa.UnOp).X.(*ssa.FieldAddr)
						if !sameLoadChain(fa.X, dl.X) {
							isFlags = false
						}
					}
				}
			}
			if !isFlags {
				continue
			}
			okB, badB, found := errNilGuard(kv)
			if !found {
				continue
			}
			if okB.Dominates(d.Block()) && len(okB.Preds) == 1 && !blockReaches(badB, d.Block()) {
				good = true
			}
		}
		if good {
			r.ok("dispatch c.f(t,c) at " + p.InstrPos(d) + " is dominated by the nil-error branch of CheckRequiredFlags(c.safetyFlags) and unreachable from its error branch")
		} else {
			r.fail("dispatch-ungated", p.InstrPos(d), "the call through GoFunction.f in (*GoCont).RunInThread is not dominated by the success branch of CheckRequiredFlags(c.safetyFlags): a function lacking required flags would run")
		}
		// nothing with an effect may precede the check: calls before the check
		// in RunInThread must be none (the property says 'before the function
		// performs any effect').
	}

	// ---- (b) monotone flag words
	hasReq := false
	for _, f := range p.ModFuncs() {
		forEachInstr(f, func(ins ssa.Instruction) {
			st, ok := ins.(*ssa.Store)
			if !ok {
				return
			}
			if fa, ok := st.Addr.(*ssa.FieldAddr); ok {
				rel, tn, fn := fieldOfAddr(fa)
				if rel != "runtime" {
					return
				}
				if (tn == "GoFunction" && fn == "safetyFlags") || (tn == "runtimeContextManager" && fn == "requiredFlags") {
					if tn == "runtimeContextManager" {
						hasReq = true
					}
					where := fnKey(f)
					okFn := (tn == "GoFunction" && isMethodOf(f, "runtime", "GoFunction", "SolemnlyDeclareCompliance")) ||
						(tn == "runtimeContextManager" && isMethodOf(f, "runtime", "runtimeContextManager", "PushContext"))
					if !okFn {
						r.fail("flagword-written:"+tn+"."+fn+":"+where, p.InstrPos(st), tn+"."+fn+" is written in "+where+", outside its single owner function")
						return
					}
					// value must be monotone in the old value of the same field:
					// old, old|x, phi of such, or a call whose every result is
					// monotone in a parameter that receives such a value.
					mono := monotoneIn(st.Val, func(v ssa.Value) bool {
						if u, ok := v.(*ssa.UnOp); ok && u.Op == token.MUL {
							if fa2, ok := u.X.(*ssa.FieldAddr); ok && fa2.Field == fa.Field && sameLoadChain(fa2.X, fa.X) {
								return true
							}
						}
						return false
					}, 0)
					if mono {
						r.ok(tn + "." + fn + " |= … in " + where)
					} else {
						r.fail("flagword-not-monotone:"+tn+"."+fn+":"+where, p.InstrPos(st), tn+"."+fn+" is assigned something other than `old | x`: required/declared flags could be dropped")
					}
				}
				return
			}
			// whole-struct store of a runtimeContextManager
			if rel, tn, ok := namedOf(st.Val.Type()); ok && rel == "runtime" && tn == "runtimeContextManager" {
				if _, isPtr := st.Val.Type().(*types.Pointer); isPtr {
					return
				}
				if _, isAlloc := st.Addr.(*ssa.Alloc); isAlloc {
					return // local copy (parent := *m ; mCopy := *m)
				}
				if isMethodOf(f, "runtime", "runtimeContextManager", "PopContext") {
					// must restore from m.parent
					src := backSlice(st.Val, false)
					fromParent := false
					for v := range src {
						if fa, ok := v.(*ssa.FieldAddr); ok {
							if _, _, fn := fieldOfAddr(fa); fn == "parent" {
								fromParent = true
							}
						}
					}
					if fromParent {
						r.ok("PopContext restores *m from m.parent")
					} else {
						r.fail("popcontext-restore", p.InstrPos(st), "PopContext overwrites the context manager with something that is not m.parent")
					}
					return
				}
				r.fail("ctxmanager-overwritten:"+fnKey(f), p.InstrPos(st), "the whole runtimeContextManager (including requiredFlags) is overwritten in "+fnKey(f))
			}
		})
	}
	if !hasReq {
		r.note("configuration %s has no requiredFlags field: contexts cannot require flags, clause (b) for requiredFlags is vacuous here", p.Config.Name)
	}
	if p.Config.Tags != "noquotas" && !hasReq {
		r.broken("anchor unresolved: no store to runtimeContextManager.requiredFlags found")
	}

	// ---- (c) safeio gates
	sp := p.SSAPkgs[modPath+"/safeio"]
	if sp == nil {
		r.broken("anchor unresolved: package safeio")
		return r
	}
	bits, err := p.flagBits()
	if err != nil {
		r.broken("%v", err)
		return r
	}
	gates := 0
	for _, mem := range sp.Members {
		f, ok := mem.(*ssa.Function)
		if !ok || f.Blocks == nil {
			continue
		}
		var sinkCalls []ssa.CallInstruction
		forEachInstr(f, func(ins ssa.Instruction) {
			if call, ok := ins.(ssa.CallInstruction); ok {
				if cal := call.Common().StaticCallee(); cal != nil {
					if _, isSink := isIOSink(cal); isSink {
						sinkCalls = append(sinkCalls, call)
					}
				} else if !call.Common().IsInvoke() {
					// dynamic call inside a gate: undecided
					r.fail("gate-dynamic-call:"+fnKey(f), p.InstrPos(call), "dynamic call inside a safeio function; cannot be decided")
				}
			}
		})
		if len(sinkCalls) == 0 {
			continue
		}
		gates++
		for _, sc := range sinkCalls {
			if gateGuards(f, sc, bits.Io) {
				r.ok(fmt.Sprintf("safeio.%s: %s only on the branch RequiredFlags()&ComplyIoSafe == 0", f.Name(), fullName(sc.Common().StaticCallee())))
			} else {
				r.fail("gate-open:safeio."+f.Name()+"->"+fullName(sc.Common().StaticCallee()), p.InstrPos(sc), "safeio."+f.Name()+" reaches "+fullName(sc.Common().StaticCallee())+" on a path that does not pass the test RequiredFlags()&ComplyIoSafe != 0 → refuse")
			}
		}
	}
	r.count("safeio_gates", gates)
	r.floor("safeio_gates", 4)

	// ---- (d) who may call a sink directly
	direct := 0
	for _, f := range p.ModFuncs() {
		rel := relPkg(funcPkgPath(f))
		forEachInstr(f, func(ins ssa.Instruction) {
			call, ok := ins.(ssa.CallInstruction)
			if !ok {
				return
			}
			cal := call.Common().StaticCallee()
			if cal == nil {
				return
			}
			what, isSink := isIOSink(cal)
			if !isSink {
				return
			}
			direct++
			edge := fnKey(f) + "->" + fullName(cal)
			if _, host := ioHostPackages[rel]; host {
				r.ok("")
				return
			}
			if why, ok := ioSinkExceptionEdges[edge]; ok {
				r.ok("exception edge " + edge + ": " + why)
				return
			}
			if why, ok := ioUngatedPrimitives[fnKey(f)]; ok {
				r.ok("ungated primitive " + edge + ": " + why)
				return
			}
			r.fail("direct-sink-call:"+edge, p.InstrPos(call), fmt.Sprintf("%s calls %s (%s) directly instead of going through a safeio gate", fnKey(f), fullName(cal), what))
		})
	}
	r.count("direct_sink_call_sites_in_module", direct)
	r.Tables = append(r.Tables, "ioSinks", "ioHostPackages", "ioSinkExceptionEdges", "directSinkCallers")
	// (b') what a context definition asks for is what the context requires: in PushContext
	// some store to requiredFlags that every return is behind or-s in a value that
	// contains def.RequiredFlags on every path (through phis and through a helper's
	// returns); together with (b) — the field only grows — the flags asked for cannot be
	// dropped, whatever limits the definition also sets
	if push := p.Func("runtime", "(*runtimeContextManager).PushContext"); push != nil && p.Config.Tags != "noquotas" {
		isAsked := func(v ssa.Value) bool {
			u, ok := v.(*ssa.UnOp)
			if !ok || u.Op != token.MUL {
				return false
			}
			fa, ok := u.X.(*ssa.FieldAddr)
			if !ok {
				return false
			}
			_, tn, fld := fieldOfAddr(fa)
			return tn == "RuntimeContextDef" && fld == "RequiredFlags"
		}
		var contains func(v ssa.Value, depth int, seen map[ssa.Value]bool) bool
		contains = func(v ssa.Value, depth int, seen map[ssa.Value]bool) bool {
			if depth > 10 {
				return false
			}
			v = stripConv(v)
			if isAsked(v) {
				return true
			}
			if seen[v] {
				return true // a loop-carried phi: judged by its other edges
			}
			seen[v] = true
			switch x := v.(type) {
			case *ssa.BinOp:
				if x.Op == token.OR {
					return contains(x.X, depth+1, seen) || contains(x.Y, depth+1, seen)
				}
			case *ssa.Phi:
				for _, e := range x.Edges {
					if !contains(e, depth+1, seen) {
						return false
					}
				}
				return len(x.Edges) > 0
			case *ssa.UnOp:
				// a local accumulator: every store to it must keep the asked flags
				if al, ok := x.X.(*ssa.Alloc); ok && x.Op == token.MUL {
					n := 0
					for _, ref := range *al.Referrers() {
						if st, ok := ref.(*ssa.Store); ok && st.Addr == ssa.Value(al) {
							n++
							if !contains(st.Val, depth+1, seen) {
								return false
							}
						}
					}
					return n > 0
				}
			case *ssa.Call:
				cal := x.Call.StaticCallee()
				if cal == nil || !p.InModule(cal) || cal.Blocks == nil {
					return false
				}
				ok, n := true, 0
				forEachInstr(cal, func(ins ssa.Instruction) {
					if ret, isRet := ins.(*ssa.Return); isRet && len(ret.Results) == 1 {
						n++
						if !contains(ret.Results[0], depth+1, map[ssa.Value]bool{}) {
							ok = false
						}
					}
				})
				return ok && n > 0
			}
			return false
		}
		found := false
		forEachInstr(push, func(ins ssa.Instruction) {
			st, ok := ins.(*ssa.Store)
			if !ok {
				return
			}
			fa, ok := st.Addr.(*ssa.FieldAddr)
			if !ok {
				return
			}
			if _, _, fld := fieldOfAddr(fa); fld != "requiredFlags" {
				return
			}
			if !contains(st.Val, 0, map[ssa.Value]bool{}) {
				return
			}
			// every return is behind this store
			all := true
			forEachInstr(push, func(o ssa.Instruction) {
				if _, isRet := o.(*ssa.Return); isRet && !instrDominates(ins, o) && (push.Recover == nil || o.Block() != push.Recover) {
					all = false
				}
			})
			if all {
				found = true
			}
		})
		if found {
			r.ok("(b') PushContext or-s the flags the definition asks for into the context's required flags on every path")
		} else {
			r.fail("asked-flags-not-required", p.Pos(push.Pos()), "no store to requiredFlags in PushContext is guaranteed to include def.RequiredFlags: on some path (e.g. when the definition also sets a limit) the flags the definition asks for are replaced instead of or-ed in, so a context created with flags=\"iosafe\" and a memory limit does not require iosafe")
		}
	}
	return r
}

// sameLoadChain: two address expressions denote the same object when they are
// the same SSA value or loads of the same field chain from the same root.
func sameLoadChain(a, b ssa.Value) bool {
	if a == b {
		return true
	}
	ua, ok1 := a.(*ssa.UnOp)
	ub, ok2 := b.(*ssa.UnOp)
	if ok1 && ok2 && ua.Op == token.MUL && ub.Op == token.MUL {
		return sameLoadChain(ua.X, ub.X)
	}
	fa, ok1 := a.(*ssa.FieldAddr)
	fb, ok2 := b.(*ssa.FieldAddr)
	if ok1 && ok2 && fa.Field == fb.Field {
		return sameLoadChain(fa.X, fb.X)
	}
	return false
}

// gateGuards: the sink call is dominated by the zero branch of an If testing
// (call RequiredFlags()) & io != 0.
func gateGuards(f *ssa.Function, sink ssa.CallInstruction, ioBit int64) bool {
	for _, b := range f.Blocks {
		iff, ok := b.Instrs[len(b.Instrs)-1].(*ssa.If)
		if !ok {
			continue
		}
		cb, ok := condOf(iff)
		if !ok || (cb.Op != token.NEQ && cb.Op != token.EQL) {
			continue
		}
		var masked ssa.Value
		if z, ok := constInt(cb.Y); ok && z == 0 {
			masked = cb.X
		} else if z, ok := constInt(cb.X); ok && z == 0 {
			masked = cb.Y
		} else {
			continue
		}
		and, ok := masked.(*ssa.BinOp)
		if !ok || and.Op != token.AND {
			continue
		}
		var flagsV ssa.Value
		if k, ok := constInt(and.Y); ok && k&ioBit != 0 && k == ioBit {
			flagsV = and.X
		} else if k, ok := constInt(and.X); ok && k == ioBit {
			flagsV = and.Y
		} else {
			continue
		}
		call, ok := flagsV.(*ssa.Call)
		if !ok {
			continue
		}
		cal := call.Call.StaticCallee()
		if !isCtxMethod(cal, "RequiredFlags") {
			continue
		}
		// branch where masked == 0
		zeroIdx := 1
		if cb.Op == token.EQL {
			zeroIdx = 0
		}
		if cb.Neg {
			zeroIdx = 1 - zeroIdx
		}
		zb := b.Succs[zeroIdx]
		nb := b.Succs[1-zeroIdx]
		if zb.Dominates(sink.Block()) && len(zb.Preds) == 1 && !blockReaches(nb, sink.Block()) {
			return true
		}
	}
	return false
}

// monotoneIn: v >= base bitwise on every path, where isBase recognises the
// base value. Accepts base, base|x, x|base, phi of monotone values, and calls
// to functions all of whose returns are monotone in a parameter bound to a
// monotone argument.
func monotoneIn(v ssa.Value, isBase func(ssa.Value) bool, depth int) bool {
	if depth > 4 {
		return false
	}
	if isBase(v) {
		return true
	}
	switch x := v.(type) {
	case *ssa.BinOp:
		if x.Op == token.OR {
			return monotoneIn(x.X, isBase, depth) || monotoneIn(x.Y, isBase, depth)
		}
	case *ssa.Phi:
		for _, e := range x.Edges {
			if !monotoneIn(e, isBase, depth) {
				return false
			}
		}
		return len(x.Edges) > 0
	case *ssa.ChangeType:
		return monotoneIn(x.X, isBase, depth)
	case *ssa.Call:
		cal := x.Call.StaticCallee()
		if cal == nil || cal.Blocks == nil {
			return false
		}
		for i, a := range x.Call.Args {
			if i >= len(cal.Params) || !monotoneIn(a, isBase, depth) {
				continue
			}
			prm := cal.Params[i]
			all, n := true, 0
			forEachInstr(cal, func(ins ssa.Instruction) {
				if ret, ok := ins.(*ssa.Return); ok && len(ret.Results) == 1 {
					n++
					if !monotoneIn(ret.Results[0], func(w ssa.Value) bool { return w == prm }, depth+1) {
						all = false
					}
				}
			})
			if all && n > 0 {
				return true
			}
		}
	}
	return false
}
