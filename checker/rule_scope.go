package main

import (
	"fmt"
	"go/token"
	"go/types"
	"strings"

	"golang.org/x/tools/go/ssa"
)

func init() {
	registerRule("R-SCOPE", false, ruleScope)
	registerRule("R-CLOSE", false, ruleClose)
}

// callsInOrder: every call in f satisfying predA ... helper: list calls by predicate.
func callsWhere(f *ssa.Function, pred func(ssa.CallInstruction) bool) []ssa.CallInstruction {
	var out []ssa.CallInstruction
	forEachInstr(f, func(ins ssa.Instruction) {
		if c, ok := ins.(ssa.CallInstruction); ok && pred(c) {
			out = append(out, c)
		}
	})
	return out
}

// mustPassThrough: every path from the entry of f to a return passes a call satisfying pred.
func mustPassThrough(f *ssa.Function, pred func(ssa.CallInstruction) bool) bool {
	gc := newGuardCtx(f)
	found := false
	for _, b := range f.Blocks {
		for _, ins := range b.Instrs {
			if c, ok := ins.(ssa.CallInstruction); ok && pred(c) {
				gc.excluded[b] = true
				found = true
			}
		}
	}
	if !found {
		return false
	}
	for _, b := range f.Blocks {
		for _, ins := range b.Instrs {
			if _, ok := ins.(*ssa.Return); ok && !gc.excluded[b] {
				if gc.reach(b, nil, -1) {
					return false
				}
			}
		}
	}
	return true
}

func ruleScope(c *Ctx) *RuleResult {
	r := newResult("R-SCOPE", "fresh variables per loop iteration are produced by a purely structural chain, each hop of which is checked: (1) resolving a name in a parent function marks the parent's register as a cell and tags it regHasUpvalue; (2) CodeBuilder.PopContext passes through emitClearReg(<the popped scope>) and EmitJump through emitClearReg for every scope it leaves before the label's; (3) emitClearReg emits ir.ClearReg for tagged registers; (4) ircomp turns ClearReg into code.Clear; (5) the VM's OpClear installs a new cell (newCell) rather than storing nil into the old one; (6) in every loop statement compiler the scope of the body is popped before the jump back to the loop label is emitted, on every path")
	p := c.P
	// (1)
	gr := p.Func("ir", "(*CodeBuilder).getRegister")
	if gr == nil {
		r.broken("anchor unresolved: ir.(*CodeBuilder).getRegister")
		return r
	}
	marksCell, tagsUp := false, false
	tagConst := constOf(p, "ir", "regHasUpvalue")
	forEachInstr(gr, func(ins ssa.Instruction) {
		if st, ok := ins.(*ssa.Store); ok {
			if fa, ok := st.Addr.(*ssa.FieldAddr); ok {
				if _, tn, fn := fieldOfAddr(fa); tn == "RegData" && fn == "IsCell" {
					if k, ok := constInt(st.Val); ok && k == 1 {
						// on the parent's registers: base derives from c.parent
						if fieldDeps(fa.X)["CodeBuilder.parent"] {
							marksCell = true
						}
					}
				}
			}
		}
		if call, ok := ins.(ssa.CallInstruction); ok && calleeNamed(call, "getRegister") {
			args := call.Common().Args
			if k, ok := constInt(args[len(args)-1]); ok && fmt.Sprint(k) == tagConst && tagConst != "" && k != 0 {
				if fieldDeps(args[0])["CodeBuilder.parent"] {
					tagsUp = true
				}
			}
		}
	})
	if marksCell && tagsUp {
		r.ok("(1) getRegister marks the parent's register IsCell and looks it up with the regHasUpvalue tag")
	} else {
		r.fail("scope-hop1-capture-marking", p.Pos(gr.Pos()), fmt.Sprintf("(*CodeBuilder).getRegister no longer both marks a captured parent register as a cell (%v) and tags it regHasUpvalue (%v): captured locals would not be cleared at scope exit, so closures created in successive loop iterations share one variable", marksCell, tagsUp))
	}
	// (2)
	pop := p.Func("ir", "(*CodeBuilder).PopContext")
	ej := p.Func("ir", "(*CodeBuilder).EmitJump")
	ecr := p.Func("ir", "(*CodeBuilder).emitClearReg")
	if pop == nil || ej == nil || ecr == nil {
		r.broken("anchor unresolved: ir PopContext/EmitJump/emitClearReg")
		return r
	}
	isECR := func(c ssa.CallInstruction) bool { return c.Common().StaticCallee() == ecr }
	if mustPassThrough(pop, isECR) {
		// argument is the popped scope (result #1 of pop())
		okArg := false
		for _, call := range callsWhere(pop, isECR) {
			for w := range backSliceAllocs(call.Common().Args[1], false) {
				if ex, ok := w.(*ssa.Extract); ok && ex.Index == 1 {
					if cc, ok := ex.Tuple.(*ssa.Call); ok && calleeNamed(cc, "pop") {
						okArg = true
					}
				}
			}
		}
		if okArg {
			r.ok("(2) PopContext always passes through emitClearReg(popped scope)")
		} else {
			r.fail("scope-hop2-popcontext-arg", p.Pos(pop.Pos()), "PopContext calls emitClearReg with something other than the scope it just popped")
		}
	} else {
		r.fail("scope-hop2-popcontext", p.Pos(pop.Pos()), "some path through CodeBuilder.PopContext leaves a scope without emitClearReg: captured locals of that scope keep their cell, so closures from different iterations share it")
	}
	// EmitJump: inside the loop over scopes, the non-matching path calls emitClearReg
	{
		calls := callsWhere(ej, isECR)
		inLoop := false
		for _, cl := range calls {
			for _, scc := range blockSCCs(ej, nil) {
				if scc[cl.Block()] {
					inLoop = true
				}
			}
		}
		// ... and only those: the scope that declares the label is not left by the jump, so
		// its captured registers keep their cells. The clear is reached only after the
		// lookup of the label in that scope has failed.
		if inLoop {
			gc := newGuardCtx(ej)
			for _, cl := range calls {
				onlyAfterMiss := false
				for _, ge := range gc.MustEdges(cl.Block()) {
					ex, ok := ge.If.Cond.(*ssa.Extract)
					if !ok || ge.Taken {
						continue
					}
					if gl, ok := ex.Tuple.(*ssa.Call); ok && calleeNamed(gl, "getLabel") {
						onlyAfterMiss = true
					}
				}
				if onlyAfterMiss {
					r.ok("(2) EmitJump clears a scope only after the label was not found in it")
				} else {
					r.fail("scope-hop2-emitjump-clears-label-scope", p.InstrPos(cl), "EmitJump calls emitClearReg for a scope before it knows that the label is not declared there: a goto to a label in the same scope as a captured local gives that local a fresh cell, detaching it from the closures that captured it (they see nil, or the function loses its value)")
				}
			}
		}
		if inLoop {
			r.ok("(2) EmitJump clears the captured registers of every scope it leaves")
		} else {
			r.fail("scope-hop2-emitjump", p.Pos(ej.Pos()), "EmitJump no longer calls emitClearReg for the scopes it pops before reaching the label's scope: a goto/break out of a block leaves captured locals shared with the next iteration")
		}
	}
	// (3)
	emitsClear := false
	forEachInstr(ecr, func(ins ssa.Instruction) {
		if mi, ok := ins.(*ssa.MakeInterface); ok {
			if _, tn, ok := namedOf(mi.X.Type()); ok && tn == "ClearReg" {
				emitsClear = true
			}
		}
	})
	if emitsClear {
		r.ok("(3) emitClearReg emits ir.ClearReg")
	} else {
		r.fail("scope-hop3", p.Pos(ecr.Pos()), "emitClearReg no longer emits an ir.ClearReg instruction")
	}
	// (4)
	pcr := p.Func("ircomp", "(instrCompiler).ProcessClearRegInstr")
	codeClear := p.Func("code", "Clear")
	if pcr == nil || codeClear == nil {
		r.broken("anchor unresolved: ircomp ProcessClearRegInstr / code.Clear")
		return r
	}
	if len(callsWhere(pcr, func(c ssa.CallInstruction) bool { return c.Common().StaticCallee() == codeClear })) > 0 &&
		mustPassThrough(pcr, func(c ssa.CallInstruction) bool { return calleeNamed(c, "Emit") }) {
		r.ok("(4) ircomp compiles ClearReg to code.Clear and emits it")
	} else {
		r.fail("scope-hop4", p.Pos(pcr.Pos()), "ircomp's ProcessClearRegInstr no longer emits code.Clear for a ClearReg instruction")
	}
	// (5)
	cr := p.Func("runtime", "(*LuaCont).clearReg")
	run := p.Func("runtime", "(*LuaCont).RunInThread")
	newCell := p.Func("runtime", "newCell")
	if cr == nil || run == nil || newCell == nil {
		r.broken("anchor unresolved: runtime clearReg/RunInThread/newCell")
		return r
	}
	newCellStored := false
	forEachInstr(cr, func(ins ssa.Instruction) {
		if st, ok := ins.(*ssa.Store); ok {
			if call, ok := st.Val.(*ssa.Call); ok && call.Call.StaticCallee() == newCell {
				if _, isIdx := st.Addr.(*ssa.IndexAddr); isIdx {
					newCellStored = true
				}
			}
		}
	})
	vmCalls := len(callsWhere(run, func(c ssa.CallInstruction) bool { return c.Common().StaticCallee() == cr })) > 0
	if newCellStored && vmCalls {
		r.ok("(5) the VM's clear operation installs a fresh cell (cells[i] = newCell(nil))")
	} else {
		r.fail("scope-hop5", p.Pos(cr.Pos()), fmt.Sprintf("the VM's clear operation no longer replaces a cell register by a new cell (newCell stored: %v, called from the run loop: %v): storing nil into the old cell would change the variable every earlier closure captured", newCellStored, vmCalls))
	}
	// (6) loop compilers
	for _, name := range []string{"ProcessRepeatStat", "ProcessWhileStat", "ProcessForStat", "ProcessForInStat"} {
		f := p.Func("astcomp", "(*compiler)."+name)
		if f == nil {
			r.broken("anchor unresolved: astcomp.(*compiler).%s", name)
			continue
		}
		// loop label: result of GetNewLabel
		var lbl ssa.Value
		forEachInstr(f, func(ins ssa.Instruction) {
			if call, ok := ins.(*ssa.Call); ok && calleeNamed(call, "GetNewLabel") && lbl == nil {
				lbl = call
			}
		})
		if lbl == nil {
			r.broken("%s: no GetNewLabel call (anchor moved?)", name)
			continue
		}
		// back-jump emissions: stores of lbl into field Label of a local ir.Jump/ir.JumpIf, then the call that consumes it
		var backJumps []ssa.Instruction
		for _, ref := range *lbl.Referrers() {
			st, ok := ref.(*ssa.Store)
			if !ok {
				continue
			}
			fa, ok := st.Addr.(*ssa.FieldAddr)
			if !ok {
				continue
			}
			_, tn, fn := fieldOfAddr(fa)
			if (tn != "Jump" && tn != "JumpIf") || fn != "Label" {
				continue
			}
			// the emission: first call after the store in the same block taking a MakeInterface of that struct
			blk := st.Block()
			for i := instrIndex(st); i < len(blk.Instrs); i++ {
				if call, ok := blk.Instrs[i].(ssa.CallInstruction); ok && (calleeNamed(call, "emitInstr") || calleeNamed(call, "EmitNoLine") || calleeNamed(call, "Emit")) {
					backJumps = append(backJumps, blk.Instrs[i])
					break
				}
			}
		}
		if len(backJumps) == 0 {
			r.broken("%s: no jump back to the loop label found (anchor moved?)", name)
			continue
		}
		// pop events
		isPop := func(call ssa.CallInstruction) bool {
			if calleeNamed(call, "PopContext") || calleeNamed(call, "compileBlock") || calleeNamed(call, "compileCond") {
				return true
			}
			// dynamic call of the function returned by compileBlockNoPop
			if call.Common().StaticCallee() == nil {
				if src, ok := call.Common().Value.(*ssa.Call); ok && calleeNamed(src, "compileBlockNoPop") {
					return true
				}
			}
			return false
		}
		pops := callsWhere(f, isPop)
		okAll := true
		for _, bj := range backJumps {
			dom := false
			for _, pc := range pops {
				// after the loop label was obtained and before the back jump
				if instrDominates(pc, bj) && instrDominates(lbl.(ssa.Instruction), pc) {
					dom = true
				}
			}
			if !dom {
				okAll = false
				r.fail("loop-body-scope-not-popped-before-backjump:"+name, p.InstrPos(bj), fmt.Sprintf("astcomp.%s emits the jump back to the loop label on a path where the body's scope has not been popped yet: the scope-exit code (ClearReg, close-stack truncation) then runs only when the loop ends, so closures created in successive iterations share one variable and <close> locals of the body are not closed per iteration", name))
			}
		}
		if okAll {
			r.ok(fmt.Sprintf("(6) astcomp.%s pops the body's scope before jumping back", name))
		}
		// (7) what the loop itself declares in each iteration (the loop variables)
		// lives in a scope entered after the loop label and left before the jump back:
		// otherwise the variables are the same for every iteration
		var labelEmit ssa.Instruction
		forEachInstr(f, func(ins ssa.Instruction) {
			call, ok := ins.(ssa.CallInstruction)
			if !ok || labelEmit != nil {
				return
			}
			if calleeNamed(call, "EmitLabelNoLine") || calleeNamed(call, "EmitLabel") {
				for _, a := range call.Common().Args {
					if a == lbl {
						labelEmit = ins
					}
				}
			}
		})
		if labelEmit == nil {
			r.broken("%s: the loop label is never emitted (anchor moved?)", name)
			continue
		}
		isDecl := func(call ssa.CallInstruction) bool {
			if calleeNamed(call, "DeclareLocal") {
				return true
			}
			if calleeNamed(call, "CompileStat") {
				for _, a := range call.Common().Args {
					if mi, ok := a.(*ssa.MakeInterface); ok {
						if _, tn, ok := namedOf(mi.X.Type()); ok && tn == "LocalStat" {
							return true
						}
					}
				}
			}
			return false
		}
		pushes := callsWhere(f, func(c ssa.CallInstruction) bool { return calleeNamed(c, "PushContext") })
		explicitPops := callsWhere(f, func(c ssa.CallInstruction) bool { return calleeNamed(c, "PopContext") })
		nDecl := 0
		for _, d := range callsWhere(f, isDecl) {
			inLoop := false
			for _, bj := range backJumps {
				if instrDominates(labelEmit, d) && instrDominates(d, bj) {
					inLoop = true
				}
			}
			if !inLoop {
				continue
			}
			nDecl++
			pushed, popped := false, false
			for _, ps := range pushes {
				if instrDominates(labelEmit, ps) && instrDominates(ps, d) {
					pushed = true
				}
			}
			for _, pp := range explicitPops {
				for _, bj := range backJumps {
					if instrDominates(d, pp) && instrDominates(pp, bj) {
						popped = true
					}
				}
			}
			if pushed && popped {
				r.ok(fmt.Sprintf("(7) astcomp.%s declares its per-iteration locals in a scope entered inside the loop", name))
			} else {
				r.fail("loop-variables-not-per-iteration:"+name, p.InstrPos(d), fmt.Sprintf("astcomp.%s declares locals between the loop label and the jump back without entering a scope there (push inside the loop: %v, pop before the jump back: %v): the loop variables are the same registers and cells in every iteration, so closures created in different iterations share them (and see the value of the last iteration)", name, pushed, popped))
			}
		}
		r.count("per_iteration_declarations", nDecl)
	}
	r.floor("per_iteration_declarations", 2)
	return r
}

func ruleClose(c *Ctx) *RuleResult {
	r := newResult("R-CLOSE", "to-be-closed plumbing is complete. Compile side: PopContext passes through emitTruncate(<the enclosing scope, i.e. the top of what remains>) and EmitJump through emitTruncate(<the scope in which the label was found>) before emitting the jump; lexicalScope.height is written only by addHeight (called only from PushCloseAction) and inherited in pushNew; a 'close' local and the generic for call PushCloseAction; getTailCall consults HasPendingCloseActions. Run-time side: the close stack is cleaned up on the tail-call/return branch of OpCall before the frame is released, by the truncate form of OpClStack, by CallContext around f() and when a coroutine ends; inside cleanupCloseStack a failing handler does not leave the loop; the push site and the close site use the same predicate (Truth) to decide whether a value has a handler")
	p := c.P
	pop := p.Func("ir", "(*CodeBuilder).PopContext")
	ej := p.Func("ir", "(*CodeBuilder).EmitJump")
	et := p.Func("ir", "(*CodeBuilder).emitTruncate")
	if pop == nil || ej == nil || et == nil {
		r.broken("anchor unresolved: ir PopContext/EmitJump/emitTruncate")
		return r
	}
	isET := func(c ssa.CallInstruction) bool { return c.Common().StaticCallee() == et }
	// PopContext
	if !mustPassThrough(pop, isET) {
		r.fail("close-popcontext-no-truncate", p.Pos(pop.Pos()), "some path through CodeBuilder.PopContext leaves a scope without emitTruncate: pending to-be-closed variables of that scope are not closed at block end")
	} else {
		okArg := false
		for _, call := range callsWhere(pop, isET) {
			arg := call.Common().Args[1]
			// top() of the context that remains (extract #0 of pop())
			for w := range backSliceAllocs(arg, true) {
				if cc, ok := w.(*ssa.Call); ok && calleeNamed(cc, "top") {
					for w2 := range backSliceAllocs(cc.Call.Args[0], false) {
						if ex, ok := w2.(*ssa.Extract); ok && ex.Index == 0 {
							if pc, ok := ex.Tuple.(*ssa.Call); ok && calleeNamed(pc, "pop") {
								okArg = true
							}
						}
					}
				}
			}
		}
		if okArg {
			r.ok("PopContext truncates the close stack to the height of the enclosing scope")
		} else {
			r.fail("close-popcontext-truncate-arg", p.Pos(pop.Pos()), "PopContext no longer truncates the close stack to the height of the scope that remains after the pop")
		}
	}
	// EmitJump: emitTruncate(arg) where arg is the scope on which getLabel succeeded, before the Emit of the jump
	{
		ets := callsWhere(ej, isET)
		okJump := false
		for _, call := range ets {
			arg := call.Common().Args[1]
			// the getLabel call whose receiver is the same value, with ok == true on every path to the truncate
			forEachInstr(ej, func(ins ssa.Instruction) {
				gl, ok := ins.(*ssa.Call)
				if !ok || !calleeNamed(gl, "getLabel") {
					return
				}
				if !sameValueOrLoad(gl.Call.Args[0], arg) {
					return
				}
				gc := newGuardCtx(ej)
				for _, ge := range gc.MustEdges(call.Block()) {
					if ex, ok := ge.If.Cond.(*ssa.Extract); ok && ex.Tuple == gl && ge.Taken {
						okJump = true
					}
				}
			})
		}
		if okJump {
			r.ok("EmitJump truncates the close stack to the height of the scope that declares the label")
		} else {
			r.fail("close-emitjump-truncate-arg", p.Pos(ej.Pos()), "EmitJump does not truncate the close stack to the scope in which the label was found (it must keep the to-be-closed variables of the label's own scope open and close exactly those of the scopes it leaves)")
		}
	}
	// height writers
	hw := 0
	for _, f := range p.ModFuncs() {
		if relPkg(funcPkgPath(f)) != "ir" || f.Blocks == nil {
			continue
		}
		forEachInstr(f, func(ins ssa.Instruction) {
			st, ok := ins.(*ssa.Store)
			if !ok {
				return
			}
			fa, ok := st.Addr.(*ssa.FieldAddr)
			if !ok {
				return
			}
			if _, tn, fn := fieldOfAddr(fa); tn != "lexicalScope" || fn != "height" {
				return
			}
			hw++
			switch f.Name() {
			case "addHeight", "pushNew":
				r.ok("lexicalScope.height written by " + f.Name())
			default:
				r.fail("close-height-writer:"+fnKey(f), p.InstrPos(st), fnKey(f)+" writes lexicalScope.height; only addHeight (from PushCloseAction) and pushNew (inheritance) may")
			}
		})
	}
	if hw == 0 {
		r.broken("no store to lexicalScope.height found (anchor moved?)")
	}
	// addHeight callers
	for _, f := range p.ModFuncs() {
		if f.Blocks == nil {
			continue
		}
		for _, call := range callsWhere(f, func(c ssa.CallInstruction) bool { return calleeNamed(c, "addHeight") }) {
			if f.Name() == "PushCloseAction" {
				r.ok("addHeight called from PushCloseAction")
			} else if f.Synthetic == "" {
				r.fail("close-addheight-caller:"+fnKey(f), p.InstrPos(call), fnKey(f)+" changes the compile-time close-stack height without pushing a close action")
			}
		}
	}
	// PushCloseAction users
	pls := p.Func("astcomp", "(*compiler).ProcessLocalStat")
	pfi := p.Func("astcomp", "(*compiler).ProcessForInStat")
	gtc := p.Func("astcomp", "(*compiler).getTailCall")
	if pls == nil || pfi == nil || gtc == nil {
		r.broken("anchor unresolved: astcomp ProcessLocalStat/ProcessForInStat/getTailCall")
		return r
	}
	isPCA := func(c ssa.CallInstruction) bool { return calleeNamed(c, "PushCloseAction") }
	if len(callsWhere(pls, isPCA)) > 0 {
		r.ok("ProcessLocalStat pushes a close action for the 'close' attribute")
	} else {
		r.fail("close-local-no-push", p.Pos(pls.Pos()), "ProcessLocalStat no longer pushes a close action for 'local x <close>'")
	}
	if mustPassThrough(pfi, isPCA) {
		r.ok("ProcessForInStat always pushes the closing value of the generic for")
	} else {
		r.fail("close-forin-no-push", p.Pos(pfi.Pos()), "ProcessForInStat no longer pushes the 4th value of a generic for as a to-be-closed variable on every path")
	}
	if len(callsWhere(gtc, func(c ssa.CallInstruction) bool { return calleeNamed(c, "HasPendingCloseActions") })) > 0 {
		r.ok("getTailCall refuses tail calls while close actions are pending")
	} else {
		r.fail("close-tailcall", p.Pos(gtc.Pos()), "getTailCall no longer consults HasPendingCloseActions: a tail call would release the frame before its to-be-closed variables are closed")
	}
	// run-time side
	ccs := p.Func("runtime", "(*Thread).cleanupCloseStack")
	run := p.Func("runtime", "(*LuaCont).RunInThread")
	cc := p.Func("runtime", "(*Thread).CallContext")
	truth := p.Func("runtime", "Truth")
	if ccs == nil || run == nil || cc == nil || truth == nil {
		r.broken("anchor unresolved: runtime cleanupCloseStack/RunInThread/CallContext/Truth")
		return r
	}
	isCCS := func(c ssa.CallInstruction) bool { return c.Common().StaticCallee() == ccs }
	n := len(callsWhere(run, isCCS))
	r.count("cleanupCloseStack_calls_in_run_loop", n)
	if n >= 2 {
		r.ok("the run loop cleans up the close stack on return and on explicit truncation")
	} else {
		r.fail("close-vm-sites", p.Pos(run.Pos()), fmt.Sprintf("the interpreter loop has %d calls of cleanupCloseStack (return/tail-call branch and OpClStack truncate are both needed)", n))
	}
	// the release of the frame in the run loop is preceded by a cleanup on its path (tail branch)
	rel := p.Func("runtime", "(*LuaCont).release")
	if rel != nil {
		okRel := true
		for _, rc := range callsWhere(run, func(c ssa.CallInstruction) bool { return c.Common().StaticCallee() == rel }) {
			gc := newGuardCtx(run)
			// is there a cleanup call that must precede? (only required on the isTail branch: find a must-edge on a GetF/Tail-like flag is too specific; require: exists cleanup call from which rc is reachable without leaving the block chain)
			found := false
			for _, cl := range callsWhere(run, isCCS) {
				if blockReaches(cl.Block(), rc.Block()) {
					found = true
				}
			}
			_ = gc
			if !found {
				okRel = false
			}
		}
		if okRel {
			r.ok("every frame release in the run loop is reachable from a close-stack cleanup")
		} else {
			r.fail("close-release-without-cleanup", p.Pos(run.Pos()), "the run loop releases a frame on a path that no close-stack cleanup precedes")
		}
	}
	if len(callsWhere(cc, isCCS)) > 0 {
		r.ok("CallContext cleans up the close stack around f()")
	} else {
		r.fail("close-callcontext", p.Pos(cc.Pos()), "CallContext no longer runs the pending to-be-closed handlers of the protected call")
	}
	// CallContext's recover handler may discard pending to-be-closed values only when
	// what it recovered is a context termination (no resources left to run them). Any
	// other value (a coroutine being closed, a foreign panic) is re-panicked and the
	// values must stay on the stack for whoever handles it (Thread.end closes them)
	for _, h := range cc.AnonFuncs {
		hasRecover := false
		forEachInstr(h, func(ins ssa.Instruction) {
			if call, ok := ins.(*ssa.Call); ok {
				if b, ok := call.Call.Value.(*ssa.Builtin); ok && b.Name() == "recover" {
					hasRecover = true
				}
			}
		})
		if !hasRecover {
			continue
		}
		gc := newGuardCtx(h)
		forEachInstr(h, func(ins ssa.Instruction) {
			call, ok := ins.(*ssa.Call)
			if !ok {
				return
			}
			cal := call.Call.StaticCallee()
			if cal == nil || cal.Name() != "truncate" {
				return
			}
			okGuard := false
			for _, ge := range gc.MustEdges(ins.Block()) {
				ex, ok := ge.If.Cond.(*ssa.Extract)
				if !ok || ex.Index != 1 || !ge.Taken {
					continue
				}
				if ta, ok := ex.Tuple.(*ssa.TypeAssert); ok && ta.CommaOk && strings.HasSuffix(typeKey(ta.AssertedType), "ContextTerminationError") {
					okGuard = true
				}
			}
			if okGuard {
				r.ok("CallContext discards pending to-be-closed values only for a context termination")
			} else {
				r.fail("close-discarded-for-foreign-panic", p.InstrPos(ins), "CallContext's recover handler truncates the close stack before it knows that the recovered value is a ContextTerminationError: when a coroutine suspended inside pcall is closed (the threadClose signal unwinds through here and is re-panicked), the to-be-closed variables declared inside that pcall are dropped without their __close handlers ever running")
			}
		})
	}
	endOK := false
	for _, name := range []string{"(*Thread).end", "(*Thread).closeOnEnd"} {
		if f := p.Func("runtime", name); f != nil && len(callsWhere(f, isCCS)) > 0 {
			endOK = true
		}
	}
	if endOK {
		r.ok("an ending coroutine cleans up its close stack")
	} else {
		r.fail("close-thread-end", "runtime/thread.go", "a coroutine that ends or is closed no longer runs its pending to-be-closed handlers")
	}
	// inside cleanupCloseStack: returns inside the loop only on the 'no handler' path; handler errors do not return
	loops := blockSCCs(ccs, nil)
	retInLoopOnErr := false
	var metacall ssa.CallInstruction
	forEachInstr(ccs, func(ins ssa.Instruction) {
		if call, ok := ins.(ssa.CallInstruction); ok && calleeNamed(call, "Metacall") {
			metacall = call
		}
	})
	if metacall == nil {
		r.fail("close-no-metacall", p.Pos(ccs.Pos()), "cleanupCloseStack no longer calls the __close metamethod")
		return r
	}
	var closeErr ssa.Value
	if v, ok := metacall.(ssa.Value); ok {
		for _, ref := range *v.Referrers() {
			if ex, ok := ref.(*ssa.Extract); ok && ex.Index == 0 {
				closeErr = ex
			}
		}
	}
	if closeErr != nil {
		gc := newGuardCtx(ccs)
		forEachInstr(ccs, func(ins ssa.Instruction) {
			ret, ok := ins.(*ssa.Return)
			if !ok {
				return
			}
			for _, ge := range gc.MustEdges(ret.Block()) {
				if rel, ok := ge.Relation(); ok && rel.Op == token.NEQ && (rel.A == closeErr || rel.B == closeErr) {
					retInLoopOnErr = true
				}
			}
		})
	}
	_ = loops
	if retInLoopOnErr {
		r.fail("close-handler-error-leaves-loop", p.Pos(ccs.Pos()), "cleanupCloseStack returns as soon as a __close handler fails: the remaining pending handlers would not run")
	} else {
		r.ok("a failing __close handler does not stop the remaining handlers")
	}
	// a value is off the close stack before its handler runs: the handler may yield, and a
	// coroutine closed at that point cleans up whatever is still on the stack — a value
	// still there would be closed twice
	{
		fromPop := false
		if len(metacall.Common().Args) > 1 {
			for v := range backSliceAllocs(metacall.Common().Args[1], false) {
				if ex, ok := v.(*ssa.Extract); ok {
					if pc, ok := ex.Tuple.(*ssa.Call); ok && calleeNamed(pc, "pop") {
						fromPop = true
					}
				}
			}
		}
		if fromPop {
			r.ok("cleanupCloseStack pops a value before calling its __close handler")
		} else {
			r.fail("close-handler-runs-before-pop", p.InstrPos(metacall), "cleanupCloseStack calls a __close handler on a value it has not popped from the close stack: if the handler yields and the coroutine is then closed, or the handler raises with pending values of its own, the value is closed a second time or the handler's own pending values are discarded")
		}
	}
	// predicate agreement: the Metacall is guarded by Truth(v) == true
	gc := newGuardCtx(ccs)
	guardedByTruth := false
	for _, ge := range gc.MustEdges(metacall.Block()) {
		if call, ok := ge.If.Cond.(*ssa.Call); ok && call.Call.StaticCallee() == truth && ge.Taken {
			guardedByTruth = true
		}
	}
	pushUsesTruth := false
	forEachInstr(run, func(ins ssa.Instruction) {
		if call, ok := ins.(*ssa.Call); ok && call.Call.StaticCallee() == truth {
			// followed by a metaGetS "__close" lookup in a block it guards
			for _, ref := range *call.Referrers() {
				if _, ok := ref.(*ssa.If); ok {
					pushUsesTruth = true
				}
			}
		}
	})
	// every clpush pushes: the compiler's close-stack heights count each declaration
	// (including a generic for's hidden closing value), so the VM must push exactly one
	// entry per clpush whatever the value is
	var pushCall *ssa.Call
	forEachInstr(run, func(ins ssa.Instruction) {
		if call, ok := ins.(*ssa.Call); ok {
			if cal := call.Call.StaticCallee(); cal != nil && cal.Name() == "push" && cal.Signature.Recv() != nil && strings.Contains(cal.Signature.Recv().Type().String(), "closeStack") {
				pushCall = call
			}
		}
	})
	if pushCall == nil {
		r.fail("close-push-missing", p.Pos(run.Pos()), "the interpreter loop no longer pushes onto the close stack")
	} else {
		// region entry: the nearest dominating block entered on the true edge of a GetF() test
		var entry *ssa.BasicBlock
		for b := pushCall.Block(); b != nil; b = b.Idom() {
			id := b.Idom()
			if id == nil {
				break
			}
			if iff, ok := id.Instrs[len(id.Instrs)-1].(*ssa.If); ok && id.Succs[0] == b {
				if cc, ok := iff.Cond.(*ssa.Call); ok && cc.Call.StaticCallee() != nil && cc.Call.StaticCallee().Name() == "GetF" {
					entry = b
					break
				}
			}
		}
		if entry == nil {
			r.broken("R-CLOSE: the close-stack push is not under a GetF() branch of the interpreter loop (anchor moved?)")
		} else {
			// can the region be left (to a block it does not dominate) without passing the push?
			seen := map[*ssa.BasicBlock]bool{entry: true}
			q := []*ssa.BasicBlock{entry}
			escaped := ""
			for len(q) > 0 && escaped == "" {
				b := q[0]
				q = q[1:]
				if b == pushCall.Block() {
					continue
				}
				for _, s := range b.Succs {
					if !entry.Dominates(s) {
						escaped = p.InstrPos(firstPositioned(b))
						break
					}
					if !seen[s] {
						seen[s] = true
						q = append(q, s)
					}
				}
			}
			if escaped == "" {
				r.ok("every clpush pushes one entry onto the close stack (error exits aside)")
			} else {
				r.fail("close-push-conditional", escaped, "the clpush branch of the interpreter loop can continue without pushing onto the close stack: the compiler's close-stack heights count every to-be-closed declaration (a nil/false one and the hidden closing value of a generic for included), so after a skipped push every later truncation in that frame stops one entry short and pending values are closed late, in the wrong order, or with a later error")
			}
		}
	}
	if guardedByTruth && pushUsesTruth {
		r.ok("push site and close site agree: a value is skipped exactly when it is nil or false (Truth)")
	} else {
		r.fail("close-predicate-mismatch", p.InstrPos(metacall), fmt.Sprintf("the to-be-closed value test differs between declaration and closing (close site guarded by Truth: %v; declaration site uses Truth: %v): a value accepted at declaration (false) would be reported as missing a __close handler when the scope exits", guardedByTruth, pushUsesTruth))
	}
	return r
}

// sameValueOrLoad: a and b are the same SSA value, or loads of the same local.
func sameValueOrLoad(a, b ssa.Value) bool {
	if a == b {
		return true
	}
	ua, ok1 := a.(*ssa.UnOp)
	ub, ok2 := b.(*ssa.UnOp)
	if ok1 && ok2 && ua.X == ub.X {
		return true
	}
	// a phi/extract feeding both
	for w := range backSlice(a, false) {
		if w == b {
			return true
		}
	}
	for w := range backSlice(b, false) {
		if w == a {
			return true
		}
	}
	return false
}

func init() { registerRule("R-EVALALL", false, ruleEvalAll) }

// ruleEvalAll: an expression list is evaluated in full.
func ruleEvalAll(c *Ctx) *RuleResult {
	r := newResult("R-EVALALL", "every expression of an expression list is compiled, also those beyond the number of targets (their values are discarded, their side effects are not): in astcomp.(*compiler).compileExpList, the one place where `local a, b = e1, e2, e3` / `a, b = …` / `for … in e1, …` lists are compiled, the expressions parameter is not only iterated over a prefix cut to the number of destination registers — a loop over the remainder compiles the rest")
	p := c.P
	f := p.Func("astcomp", "(*compiler).compileExpList")
	if f == nil || len(f.Params) < 3 {
		r.broken("anchor unresolved: astcomp.(*compiler).compileExpList(exps, dstRegs)")
		return r
	}
	exps := f.Params[1]
	if _, ok := exps.Type().Underlying().(*types.Slice); !ok {
		r.broken("compileExpList: the second parameter is no longer the expression slice")
		return r
	}
	// slices of exps that are ranged over with the element handed to a call
	iterated := func(sl ssa.Value) bool {
		// an IndexAddr / Index on the slice inside a loop whose loaded element reaches a call
		found := false
		for _, ref := range *sl.Referrers() {
			ia, ok := ref.(*ssa.IndexAddr)
			if !ok {
				continue
			}
			for _, r2 := range *ia.Referrers() {
				ld, ok := r2.(*ssa.UnOp)
				if !ok {
					continue
				}
				for _, r3 := range *ld.Referrers() {
					if _, ok := r3.(ssa.CallInstruction); ok {
						found = true
					}
					if mi, ok := r3.(*ssa.MakeInterface); ok && mi.Referrers() != nil && len(*mi.Referrers()) > 0 {
						found = true
					}
				}
			}
		}
		return found
	}
	prefix, suffix, whole := false, false, false
	if iterated(exps) {
		whole = true
	}
	for _, ref := range *exps.Referrers() {
		sl, ok := ref.(*ssa.Slice)
		if !ok || sl.X != ssa.Value(exps) || !iterated(sl) {
			continue
		}
		switch {
		case sl.Low == nil && sl.High != nil:
			prefix = true
		case sl.Low != nil && sl.High == nil:
			suffix = true
		case sl.Low == nil && sl.High == nil:
			whole = true
		}
	}
	switch {
	case whole || (prefix && suffix):
		r.ok("compileExpList compiles the whole expression list (a prefix into the destination registers, the rest for its side effects)")
	case prefix:
		r.fail("extra-expressions-not-evaluated", p.Pos(f.Pos()), "compileExpList only compiles the first min(len(exps), len(dstRegs)) expressions: in `local a = 1, f()` or `a, b = 1, 2, g()` the extra expressions are never evaluated, so their calls and other side effects do not happen")
	default:
		r.broken("compileExpList: no iteration over the expression list recognised (anchor moved?)")
	}
	return r
}
