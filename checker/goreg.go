package main

import (
	"fmt"
	"go/constant"
	"sort"
	"strings"

	"golang.org/x/tools/go/ssa"
)

// Compliance flag bits, read from the repository's constants at load time.
type flagBits struct {
	Cpu, Mem, Time, Io int64
	names              map[int64]string
}

func (p *Program) flagBits() (*flagBits, error) {
	pk := p.Pkg("runtime")
	if pk == nil {
		return nil, fmt.Errorf("package runtime not loaded")
	}
	get := func(n string) (int64, error) {
		o := pk.Types.Scope().Lookup(n)
		if o == nil {
			return 0, fmt.Errorf("anchor unresolved: runtime.%s", n)
		}
		c, ok := o.(interface{ Val() constant.Value })
		if !ok {
			return 0, fmt.Errorf("runtime.%s is not a constant", n)
		}
		v, _ := constant.Int64Val(c.Val())
		return v, nil
	}
	fb := &flagBits{names: map[int64]string{}}
	var err error
	if fb.Cpu, err = get("ComplyCpuSafe"); err != nil {
		return nil, err
	}
	if fb.Mem, err = get("ComplyMemSafe"); err != nil {
		return nil, err
	}
	if fb.Time, err = get("ComplyTimeSafe"); err != nil {
		return nil, err
	}
	if fb.Io, err = get("ComplyIoSafe"); err != nil {
		return nil, err
	}
	fb.names[fb.Cpu] = "cpusafe"
	fb.names[fb.Mem] = "memsafe"
	fb.names[fb.Time] = "timesafe"
	fb.names[fb.Io] = "iosafe"
	return fb, nil
}

func (fb *flagBits) String(f int64) string {
	var s []string
	for _, b := range []int64{fb.Cpu, fb.Mem, fb.Time, fb.Io} {
		if f&b != 0 {
			s = append(s, fb.names[b])
		}
	}
	if len(s) == 0 {
		return "none"
	}
	return strings.Join(s, "+")
}

// Registration is one construction of a *runtime.GoFunction.
type Registration struct {
	Site     ssa.CallInstruction
	In       *ssa.Function
	LuaName  string
	Funcs    []*ssa.Function // the Go function(s) that may be installed
	NArgs    int
	HasEtc   bool
	Flags    int64
	FlagsOK  bool // every declaration reaching it had constant flags
	Resolved bool // function operand, arity and hasEtc all resolved
	Why      string
}

type RegTable struct {
	Regs      []*Registration
	ByFunc    map[*ssa.Function][]*Registration
	Bits      *flagBits
	Problems  []string
	SetEnvGo  *ssa.Function
	NewGoFunc *ssa.Function
	DeclFunc  *ssa.Function // runtime.SolemnlyDeclareCompliance
	DeclMeth  *ssa.Function // (*GoFunction).SolemnlyDeclareCompliance
}

func (c *Ctx) Reg() *RegTable {
	if c.reg == nil {
		c.reg = buildRegTable(c.P)
	}
	return c.reg
}

// resolveFuncs resolves an SSA value of function type to the set of functions
// it may denote. ok=false if some source could not be resolved.
func resolveFuncs(p *Program, v ssa.Value, depth int, seen map[ssa.Value]bool) (out []*ssa.Function, ok bool) {
	if depth > 6 {
		return nil, false
	}
	if seen[v] {
		return nil, true
	}
	seen[v] = true
	switch x := v.(type) {
	case *ssa.Function:
		return []*ssa.Function{x}, true
	case *ssa.MakeClosure:
		return []*ssa.Function{x.Fn.(*ssa.Function)}, true
	case *ssa.ChangeType:
		return resolveFuncs(p, x.X, depth, seen)
	case *ssa.MakeInterface:
		return resolveFuncs(p, x.X, depth, seen)
	case *ssa.Phi:
		ok = true
		for _, e := range x.Edges {
			fs, o := resolveFuncs(p, e, depth, seen)
			out = append(out, fs...)
			ok = ok && o
		}
		return out, ok
	case *ssa.UnOp: // load
		if g, isG := x.X.(*ssa.Global); isG {
			stores := globalStores(p, g)
			if len(stores) == 0 {
				return nil, false
			}
			ok = true
			for _, st := range stores {
				fs, o := resolveFuncs(p, st.Val, depth+1, seen)
				out = append(out, fs...)
				ok = ok && o
			}
			return out, ok
		}
		if a, isA := x.X.(*ssa.Alloc); isA {
			ok = true
			n := 0
			for _, r := range *a.Referrers() {
				if st, isSt := r.(*ssa.Store); isSt && st.Addr == a {
					n++
					fs, o := resolveFuncs(p, st.Val, depth+1, seen)
					out = append(out, fs...)
					ok = ok && o
				}
			}
			return out, ok && n > 0
		}
		return nil, false
	case *ssa.Call:
		callee := x.Common().StaticCallee()
		if callee == nil || callee.Blocks == nil {
			return nil, false
		}
		ok = true
		n := 0
		for _, b := range callee.Blocks {
			for _, ins := range b.Instrs {
				if ret, isRet := ins.(*ssa.Return); isRet && len(ret.Results) >= 1 {
					n++
					fs, o := resolveFuncs(p, ret.Results[0], depth+1, seen)
					out = append(out, fs...)
					ok = ok && o
				}
			}
		}
		return out, ok && n > 0
	}
	return nil, false
}

var globalStoreCache = map[*ssa.Global][]*ssa.Store{}

// globalStores returns every Store whose address is exactly the global g.
func globalStores(p *Program, g *ssa.Global) []*ssa.Store {
	if s, ok := globalStoreCache[g]; ok {
		return s
	}
	var out []*ssa.Store
	for _, f := range p.ModFuncs() {
		for _, b := range f.Blocks {
			for _, ins := range b.Instrs {
				if st, ok := ins.(*ssa.Store); ok && st.Addr == g {
					out = append(out, st)
				}
			}
		}
	}
	globalStoreCache[g] = out
	return out
}

func constInt(v ssa.Value) (int64, bool) {
	switch x := v.(type) {
	case *ssa.Const:
		if x.Value == nil {
			return 0, false
		}
		if x.Value.Kind() == constant.Int {
			i, ok := constant.Int64Val(x.Value)
			return i, ok
		}
		if x.Value.Kind() == constant.Bool {
			if constant.BoolVal(x.Value) {
				return 1, true
			}
			return 0, true
		}
	case *ssa.Convert:
		return constInt(x.X)
	case *ssa.ChangeType:
		return constInt(x.X)
	}
	return 0, false
}

func constString(v ssa.Value) (string, bool) {
	if c, ok := v.(*ssa.Const); ok && c.Value != nil && c.Value.Kind() == constant.String {
		return constant.StringVal(c.Value), true
	}
	return "", false
}

func buildRegTable(p *Program) *RegTable {
	t := &RegTable{ByFunc: map[*ssa.Function][]*Registration{}}
	bits, err := p.flagBits()
	if err != nil {
		t.Problems = append(t.Problems, err.Error())
		return t
	}
	t.Bits = bits
	t.SetEnvGo = p.Func("runtime", "(*Runtime).SetEnvGoFunc")
	t.NewGoFunc = p.Func("runtime", "NewGoFunction")
	t.DeclFunc = p.Func("runtime", "SolemnlyDeclareCompliance")
	t.DeclMeth = p.Func("runtime", "(*GoFunction).SolemnlyDeclareCompliance")
	for n, f := range map[string]*ssa.Function{"(*Runtime).SetEnvGoFunc": t.SetEnvGo, "NewGoFunction": t.NewGoFunc,
		"SolemnlyDeclareCompliance": t.DeclFunc, "(*GoFunction).SolemnlyDeclareCompliance": t.DeclMeth} {
		if f == nil {
			t.Problems = append(t.Problems, "anchor unresolved: runtime."+n)
		}
	}
	if len(t.Problems) > 0 {
		return t
	}
	for _, f := range p.ModFuncs() {
		for _, b := range f.Blocks {
			for _, ins := range b.Instrs {
				call, ok := ins.(ssa.CallInstruction)
				if !ok {
					continue
				}
				callee := call.Common().StaticCallee()
				var fArg, nameArg, nArg, etcArg ssa.Value
				args := call.Common().Args
				if f.Synthetic != "" && f.Synthetic != "package initializer" {
					continue // promoted-method / bound-method wrappers forward their parameters; their callers are the sites
				}
				switch {
				case callee == t.SetEnvGo || (callee != nil && callee.Synthetic != "" && isCtxMethod(callee, "SetEnvGoFunc")):
					if len(args) != 6 {
						continue
					}
					nameArg, fArg, nArg, etcArg = args[2], args[3], args[4], args[5]
				case callee == t.NewGoFunc:
					if len(args) != 4 {
						continue
					}
					fArg, nameArg, nArg, etcArg = args[0], args[1], args[2], args[3]
				default:
					continue
				}
				r := &Registration{Site: call, In: f, Resolved: true, FlagsOK: true}
				if s, ok := constString(nameArg); ok {
					r.LuaName = s
				} else {
					r.LuaName = "?"
				}
				fs, ok := resolveFuncs(p, fArg, 0, map[ssa.Value]bool{})
				if !ok || len(fs) == 0 {
					r.Resolved = false
					r.Why = "function operand not resolvable to a set of functions"
				}
				r.Funcs = dedupFuncs(fs)
				if n, ok := constInt(nArg); ok {
					r.NArgs = int(n)
				} else {
					r.Resolved = false
					r.Why = "arity is not a compile-time constant"
				}
				if e, ok := constInt(etcArg); ok {
					r.HasEtc = e != 0
				} else {
					r.Resolved = false
					r.Why = "hasEtc is not a compile-time constant"
				}
				if v, ok := call.(ssa.Value); ok {
					t.collectFlags(p, r, v, map[ssa.Value]bool{})
				}
				t.Regs = append(t.Regs, r)
				for _, fn := range r.Funcs {
					t.ByFunc[fn] = append(t.ByFunc[fn], r)
				}
			}
		}
	}
	sort.Slice(t.Regs, func(i, j int) bool {
		a, b := t.Regs[i], t.Regs[j]
		ka := fnKey(a.In) + "/" + a.LuaName
		kb := fnKey(b.In) + "/" + b.LuaName
		return ka < kb
	})
	return t
}

func dedupFuncs(fs []*ssa.Function) []*ssa.Function {
	seen := map[*ssa.Function]bool{}
	var out []*ssa.Function
	for _, f := range fs {
		if !seen[f] {
			seen[f] = true
			out = append(out, f)
		}
	}
	return out
}

// collectFlags follows the GoFunction value v forward to every
// SolemnlyDeclareCompliance it reaches and ORs the constant flags.
func (t *RegTable) collectFlags(p *Program, r *Registration, v ssa.Value, seen map[ssa.Value]bool) {
	if seen[v] {
		return
	}
	seen[v] = true
	refs := v.Referrers()
	if refs == nil {
		return
	}
	for _, ref := range *refs {
		switch x := ref.(type) {
		case ssa.CallInstruction:
			callee := x.Common().StaticCallee()
			args := x.Common().Args
			if callee == t.DeclMeth && len(args) == 2 && args[0] == v {
				if fl, ok := constInt(args[1]); ok {
					r.Flags |= fl
				} else {
					r.FlagsOK = false
				}
			}
		case *ssa.Store:
			if x.Val != v {
				continue
			}
			switch a := x.Addr.(type) {
			case *ssa.Global:
				// every load of the global, anywhere in the module
				for _, f := range p.ModFuncs() {
					for _, b := range f.Blocks {
						for _, ins := range b.Instrs {
							if u, ok := ins.(*ssa.UnOp); ok && u.X == a {
								t.collectFlags(p, r, u, seen)
							}
						}
					}
				}
			case *ssa.IndexAddr:
				// element of a varargs array: alloc -> slice -> call
				if al, ok := a.X.(*ssa.Alloc); ok {
					for _, ar := range *al.Referrers() {
						if sl, ok := ar.(*ssa.Slice); ok {
							for _, sr := range *sl.Referrers() {
								if call, ok := sr.(ssa.CallInstruction); ok && call.Common().StaticCallee() == t.DeclFunc {
									cargs := call.Common().Args
									if len(cargs) == 2 && cargs[1] == sl {
										if fl, ok := constInt(cargs[0]); ok {
											r.Flags |= fl
										} else {
											r.FlagsOK = false
										}
									}
								}
							}
						}
					}
				}
			case *ssa.Alloc:
				for _, ar := range *a.Referrers() {
					if u, ok := ar.(*ssa.UnOp); ok && u.X == a {
						t.collectFlags(p, r, u, seen)
					}
				}
			}
		case *ssa.Phi:
			t.collectFlags(p, r, x, seen)
		case *ssa.ChangeType:
			t.collectFlags(p, r, x, seen)
		}
	}
}

// FlagsOf returns the union of flags any registration of fn declares, and the
// registrations. A function registered at several sites with different flags is
// judged per registration by the callers of this table.
func (t *RegTable) FlagsOf(fn *ssa.Function) (int64, bool) {
	rs := t.ByFunc[fn]
	if len(rs) == 0 {
		return 0, false
	}
	var fl int64
	for _, r := range rs {
		fl |= r.Flags
	}
	return fl, true
}

func (r *Registration) Key() string {
	names := []string{}
	for _, f := range r.Funcs {
		names = append(names, fnKey(f))
	}
	return fmt.Sprintf("%s[%q]=%s", relPkg(funcPkgPath(r.In)), r.LuaName, strings.Join(names, ","))
}
