package main

import (
	"fmt"
	"go/token"
	"sort"
	"strings"

	"golang.org/x/tools/go/callgraph"
	"golang.org/x/tools/go/ssa"
)

func init() {
	registerRule("R-RECURSION", false, ruleRecursion)
}

// moduleAdjacency: for every module function, the module functions it can call
// directly or through a chain of standard-library frames (callbacks filtered by
// mayCallBack). The flag-gated dispatch edge is kept here: recursion through a
// Go function is real recursion.
func moduleAdjacency(p *Program, keep func(*ssa.Function) bool) map[*ssa.Function][]*ssa.Function {
	g := p.CallGraph()
	adj := map[*ssa.Function][]*ssa.Function{}
	for _, f := range p.ModFuncs() {
		if !keep(f) {
			continue
		}
		n := g.Nodes[f]
		if n == nil {
			continue
		}
		seen := map[*ssa.Function]bool{}
		var out []*ssa.Function
		var visitExt func(e *ssa.Function, depth int)
		extSeen := map[*ssa.Function]bool{}
		visitExt = func(e *ssa.Function, depth int) {
			if extSeen[e] || depth > 12 {
				return
			}
			extSeen[e] = true
			en := g.Nodes[e]
			if en == nil {
				return
			}
			for _, ed := range en.Out {
				c := ed.Callee.Func
				if p.InModule(c) {
					if keep(c) && !seen[c] && p.mayCallBackMode(f, c, false) {
						seen[c] = true
						out = append(out, c)
					}
				} else {
					visitExt(c, depth+1)
				}
			}
		}
		for _, ed := range n.Out {
			c := ed.Callee.Func
			if p.InModule(c) {
				if keep(c) && !seen[c] {
					seen[c] = true
					out = append(out, c)
				}
			} else {
				visitExt(c, 0)
			}
		}
		sort.Slice(out, func(i, j int) bool { return fnKey(out[i]) < fnKey(out[j]) })
		adj[f] = out
	}
	return adj
}

// sccs returns the non-trivial strongly connected components (size > 1 or a
// self-loop) of the graph restricted to `nodes`.
func sccs(nodes []*ssa.Function, adj map[*ssa.Function][]*ssa.Function, deleted map[*ssa.Function]bool) [][]*ssa.Function {
	index := map[*ssa.Function]int{}
	low := map[*ssa.Function]int{}
	on := map[*ssa.Function]bool{}
	var stack []*ssa.Function
	var out [][]*ssa.Function
	idx := 0
	type frame struct {
		v *ssa.Function
		i int
	}
	for _, root := range nodes {
		if deleted[root] {
			continue
		}
		if _, ok := index[root]; ok {
			continue
		}
		var cs []frame
		index[root], low[root] = idx, idx
		idx++
		stack = append(stack, root)
		on[root] = true
		cs = append(cs, frame{root, 0})
		for len(cs) > 0 {
			fr := &cs[len(cs)-1]
			succs := adj[fr.v]
			if fr.i < len(succs) {
				w := succs[fr.i]
				fr.i++
				if deleted[w] {
					continue
				}
				if _, ok := index[w]; !ok {
					index[w], low[w] = idx, idx
					idx++
					stack = append(stack, w)
					on[w] = true
					cs = append(cs, frame{w, 0})
				} else if on[w] {
					if index[w] < low[fr.v] {
						low[fr.v] = index[w]
					}
				}
				continue
			}
			v := fr.v
			cs = cs[:len(cs)-1]
			if len(cs) > 0 {
				par := cs[len(cs)-1].v
				if low[v] < low[par] {
					low[par] = low[v]
				}
			}
			if low[v] == index[v] {
				var comp []*ssa.Function
				for {
					w := stack[len(stack)-1]
					stack = stack[:len(stack)-1]
					on[w] = false
					comp = append(comp, w)
					if w == v {
						break
					}
				}
				if len(comp) > 1 {
					out = append(out, comp)
				} else {
					for _, s := range adj[v] {
						if s == v {
							out = append(out, comp)
							break
						}
					}
				}
			}
		}
	}
	for _, c := range out {
		sort.Slice(c, func(i, j int) bool { return fnKey(c[i]) < fnKey(c[j]) })
	}
	sort.Slice(out, func(i, j int) bool { return fnKey(out[i][0]) < fnKey(out[j][0]) })
	return out
}

// isDepthGuard recognises the structural shape of a recursion guard: the
// function increments an integer field, registers (via defer) the matching
// decrement before any return that follows the increment, compares the field
// with a constant and returns an error on the exceeding branch before doing
// anything else that can recurse.
func isDepthGuard(p *Program, f *ssa.Function) (bool, string) {
	if f == nil || len(f.Blocks) == 0 {
		return false, "no body"
	}
	// find `field = field + 1`
	var incr *ssa.Store
	var fieldAddr *ssa.FieldAddr
	forEachInstr(f, func(ins ssa.Instruction) {
		st, ok := ins.(*ssa.Store)
		if !ok || incr != nil {
			return
		}
		fa, ok := st.Addr.(*ssa.FieldAddr)
		if !ok {
			return
		}
		b, ok := st.Val.(*ssa.BinOp)
		if !ok || b.Op != token.ADD {
			return
		}
		if k, ok := constInt(b.Y); !ok || k != 1 {
			return
		}
		u, ok := b.X.(*ssa.UnOp)
		if !ok {
			return
		}
		fa2, ok := u.X.(*ssa.FieldAddr)
		if !ok || fa2.Field != fa.Field || !sameLoadChain(fa2.X, fa.X) {
			return
		}
		incr, fieldAddr = st, fa
	})
	if incr == nil {
		// the increment and the comparison may live in a small helper that f calls
		// first thing (`p.enterLevel(t); defer p.leaveLevel()`)
		return isHelperDepthGuard(p, f)
	}
	_, tn, fn := fieldOfAddr(fieldAddr)
	// deferred decrement of the same field
	var deferIns *ssa.Defer
	forEachInstr(f, func(ins ssa.Instruction) {
		d, ok := ins.(*ssa.Defer)
		if !ok {
			return
		}
		var h *ssa.Function
		if mc, ok := d.Call.Value.(*ssa.MakeClosure); ok {
			h = mc.Fn.(*ssa.Function)
		} else if sc := d.Call.StaticCallee(); sc != nil {
			h = sc
		}
		if h == nil {
			return
		}
		dec := false
		forEachInstr(h, func(hi ssa.Instruction) {
			st, ok := hi.(*ssa.Store)
			if !ok {
				return
			}
			fa, ok := st.Addr.(*ssa.FieldAddr)
			if !ok {
				return
			}
			if _, tn2, fn2 := fieldOfAddr(fa); tn2 != tn || fn2 != fn {
				return
			}
			if b, ok := st.Val.(*ssa.BinOp); ok && b.Op == token.SUB {
				if k, ok := constInt(b.Y); ok && k == 1 {
					dec = true
				}
			}
		})
		if dec {
			deferIns = d
		}
	})
	if deferIns == nil {
		return false, "no deferred decrement of " + tn + "." + fn
	}
	// every return reachable after the increment must be dominated by the defer
	bad := ""
	forEachInstr(f, func(ins ssa.Instruction) {
		ret, ok := ins.(*ssa.Return)
		if !ok {
			return
		}
		afterIncr := instrDominates(incr, ret) || blockReaches(incr.Block(), ret.Block())
		if afterIncr && !instrDominates(deferIns, ret) {
			bad = "a return after the increment is not preceded by the deferred decrement (" + p.InstrPos(ret) + ")"
		}
	})
	if bad != "" {
		return false, bad
	}
	// comparison field > const leading to an error return, dominating all
	// calls that are not trivially leaf (we require it to dominate every dynamic
	// call and every call into module functions other than the context manager)
	var guardIf *ssa.If
	forEachInstr(f, func(ins ssa.Instruction) {
		iff, ok := ins.(*ssa.If)
		if !ok {
			return
		}
		cb, ok := condOf(iff)
		if !ok {
			return
		}
		isField := func(v ssa.Value) bool {
			u, ok := v.(*ssa.UnOp)
			if !ok {
				return false
			}
			fa, ok := u.X.(*ssa.FieldAddr)
			if !ok {
				return false
			}
			_, tn2, fn2 := fieldOfAddr(fa)
			return tn2 == tn && fn2 == fn
		}
		if (isField(cb.X) && isConstOrGlobalConst(cb.Y)) || (isField(cb.Y) && isConstOrGlobalConst(cb.X)) {
			guardIf = iff
		}
	})
	if guardIf == nil {
		return false, "no comparison of the counter with a constant"
	}
	// every call that follows the increment (the recursion points) must come
	// after the depth comparison
	ok := true
	forEachInstr(f, func(ins ssa.Instruction) {
		call, isCall := ins.(*ssa.Call)
		if !isCall || !instrDominates(incr, call) {
			return
		}
		if _, isB := call.Call.Value.(*ssa.Builtin); isB {
			return
		}
		if cal := call.Call.StaticCallee(); cal != nil && !p.InModule(cal) {
			return
		}
		if !guardIf.Block().Dominates(call.Block()) || guardIf.Block() == call.Block() {
			ok = false
		}
	})
	if !ok {
		return false, "a call that follows the increment is not dominated by the depth comparison"
	}
	return true, tn + "." + fn
}

// counterIncrement finds `x.field = x.field + 1` in f.
func counterIncrement(f *ssa.Function) (*ssa.Store, *ssa.FieldAddr) {
	var incr *ssa.Store
	var fieldAddr *ssa.FieldAddr
	forEachInstr(f, func(ins ssa.Instruction) {
		st, ok := ins.(*ssa.Store)
		if !ok || incr != nil {
			return
		}
		fa, ok := st.Addr.(*ssa.FieldAddr)
		if !ok {
			return
		}
		b, ok := st.Val.(*ssa.BinOp)
		if !ok || b.Op != token.ADD {
			return
		}
		if k, ok := constInt(b.Y); !ok || k != 1 {
			return
		}
		u, ok := b.X.(*ssa.UnOp)
		if !ok {
			return
		}
		fa2, ok := u.X.(*ssa.FieldAddr)
		if !ok || fa2.Field != fa.Field || !sameLoadChain(fa2.X, fa.X) {
			return
		}
		incr, fieldAddr = st, fa
	})
	return incr, fieldAddr
}

// enterHelper recognises a helper that increments a counter field, compares it
// with a constant and panics on the exceeding branch (so it only returns while
// the counter is within the limit). Returns the counter's type and field.
func enterHelper(h *ssa.Function) (string, string, bool) {
	if h == nil || len(h.Blocks) == 0 || len(h.Blocks) > 6 {
		return "", "", false
	}
	incr, fa := counterIncrement(h)
	if incr == nil {
		return "", "", false
	}
	_, tn, fn := fieldOfAddr(fa)
	okGuard := false
	forEachInstr(h, func(ins ssa.Instruction) {
		iff, ok := ins.(*ssa.If)
		if !ok {
			return
		}
		cb, ok := condOf(iff)
		if !ok {
			return
		}
		isField := func(v ssa.Value) bool {
			u, ok := v.(*ssa.UnOp)
			if !ok {
				return false
			}
			fa, ok := u.X.(*ssa.FieldAddr)
			if !ok {
				return false
			}
			_, tn2, fn2 := fieldOfAddr(fa)
			return tn2 == tn && fn2 == fn
		}
		if !(isField(cb.X) && isConstOrGlobalConst(cb.Y)) && !(isField(cb.Y) && isConstOrGlobalConst(cb.X)) {
			return
		}
		if !instrDominates(incr, iff) {
			return
		}
		// one successor must end in a panic without any return below it
		for _, s := range iff.Block().Succs {
			panics, returns := false, false
			for _, d := range h.Blocks {
				if !s.Dominates(d) {
					continue
				}
				switch d.Instrs[len(d.Instrs)-1].(type) {
				case *ssa.Panic:
					panics = true
				case *ssa.Return:
					returns = true
				}
			}
			if panics && !returns {
				okGuard = true
			}
		}
	})
	return tn, fn, okGuard
}

// isHelperDepthGuard: f calls an enterHelper before anything else that can
// recurse, and defers the matching decrement before every later return.
func isHelperDepthGuard(p *Program, f *ssa.Function) (bool, string) {
	var enter *ssa.Call
	var tn, fn string
	forEachInstr(f, func(ins ssa.Instruction) {
		call, ok := ins.(*ssa.Call)
		if !ok || enter != nil {
			return
		}
		cal := call.Call.StaticCallee()
		if cal == nil || !p.InModule(cal) {
			return
		}
		if t, n, ok := enterHelper(cal); ok {
			enter, tn, fn = call, t, n
		}
	})
	if enter == nil {
		return false, "no counter increment"
	}
	var deferIns *ssa.Defer
	forEachInstr(f, func(ins ssa.Instruction) {
		d, ok := ins.(*ssa.Defer)
		if !ok {
			return
		}
		var h *ssa.Function
		if mc, ok := d.Call.Value.(*ssa.MakeClosure); ok {
			h = mc.Fn.(*ssa.Function)
		} else if sc := d.Call.StaticCallee(); sc != nil {
			h = sc
		}
		if h == nil {
			return
		}
		forEachInstr(h, func(hi ssa.Instruction) {
			st, ok := hi.(*ssa.Store)
			if !ok {
				return
			}
			fa, ok := st.Addr.(*ssa.FieldAddr)
			if !ok {
				return
			}
			if _, tn2, fn2 := fieldOfAddr(fa); tn2 != tn || fn2 != fn {
				return
			}
			if b, ok := st.Val.(*ssa.BinOp); ok && b.Op == token.SUB {
				if k, ok := constInt(b.Y); ok && k == 1 {
					deferIns = d
				}
			}
		})
	})
	if deferIns == nil {
		return false, "no deferred decrement of " + tn + "." + fn
	}
	bad := ""
	forEachInstr(f, func(ins ssa.Instruction) {
		switch x := ins.(type) {
		case *ssa.Return:
			after := instrDominates(enter, x) || blockReaches(enter.Block(), x.Block())
			if after && !instrDominates(deferIns, x) {
				bad = "a return after the increment is not preceded by the deferred decrement (" + p.InstrPos(x) + ")"
			}
		case *ssa.Call:
			if x == enter {
				return
			}
			if _, isB := x.Call.Value.(*ssa.Builtin); isB {
				return
			}
			if cal := x.Call.StaticCallee(); cal != nil && !p.InModule(cal) {
				return
			}
			// every other call into the module (the recursion points) comes after the guard
			if !instrDominates(enter, x) {
				bad = "a call precedes the depth check (" + p.InstrPos(x) + ")"
			}
		}
	})
	if bad != "" {
		return false, bad
	}
	return true, tn + "." + fn + " (through " + enter.Call.StaticCallee().Name() + ")"
}

func isConstOrGlobalConst(v ssa.Value) bool {
	_, ok := constInt(v)
	return ok
}

func ruleRecursion(c *Ctx) *RuleResult {
	r := newResult("R-RECURSION", "in the module call graph (VTA, including calls that pass through standard-library frames), after deleting depth-guard functions (recognised structurally: counter field incremented, matching decrement deferred before every later return, counter compared with a constant before the recursive dispatch), every remaining cycle (SCC) reachable from the embedding API or a Lua-callable function must be table-listed with the argument that bounds its depth; an unbounded recursion driven by program input is Go stack exhaustion, a fatal error no recover can stop")
	p := c.P
	// the known guard must still be one
	guard := p.Func("runtime", "(*GoCont).RunInThread")
	deleted := map[*ssa.Function]bool{}
	if guard == nil {
		r.broken("anchor unresolved: runtime.(*GoCont).RunInThread")
		return r
	}
	if ok, why := isDepthGuard(p, guard); ok {
		r.ok("depth guard recognised: (*runtime.GoCont).RunInThread on " + why)
		deleted[guard] = true
	} else {
		r.fail("guard-broken:(*runtime.GoCont).RunInThread", p.Pos(guard.Pos()), "(*GoCont).RunInThread no longer has the shape of a balanced depth guard: "+why+". Either recursion through Go functions is unbounded or the counter drifts, so a program can exhaust the Go stack or permanently lose call depth")
	}
	// any other function with the guard shape is deleted too
	for _, f := range p.ModFuncs() {
		if f == guard || !luaReachablePkg(relPkg(funcPkgPath(f))) {
			continue
		}
		if ok, why := isDepthGuard(p, f); ok {
			deleted[f] = true
			r.note("additional depth guard recognised: %s on %s", fnKey(f), why)
		}
	}
	keep := func(f *ssa.Function) bool { return luaReachablePkg(relPkg(funcPkgPath(f))) }
	adj := moduleAdjacency(p, keep)
	// reachable set from roots
	var roots []*ssa.Function
	for _, reg := range c.Reg().Regs {
		for _, f := range reg.Funcs {
			if keep(f) {
				roots = append(roots, f)
			}
		}
	}
	for _, f := range p.ModFuncs() {
		if relPkg(funcPkgPath(f)) == "runtime" && f.Parent() == nil && f.Synthetic == "" {
			if o := f.Object(); o != nil && o.Exported() {
				roots = append(roots, f)
			}
		}
	}
	reached := map[*ssa.Function]bool{}
	var stack []*ssa.Function
	stack = append(stack, roots...)
	for len(stack) > 0 {
		f := stack[len(stack)-1]
		stack = stack[:len(stack)-1]
		if reached[f] {
			continue
		}
		reached[f] = true
		stack = append(stack, adj[f]...)
	}
	var nodes []*ssa.Function
	for f := range reached {
		nodes = append(nodes, f)
	}
	sort.Slice(nodes, func(i, j int) bool { return fnKey(nodes[i]) < fnKey(nodes[j]) })
	r.count("module_functions_reachable", len(nodes))
	r.floor("module_functions_reachable", 800)
	comps := sccs(nodes, adj, deleted)
	r.count("cycles_after_guard_deletion", len(comps))
	usedT := map[string]bool{}
	for _, comp := range comps {
		key := "cycle:" + fnKey(sccRepresentative(comp))
		names := make([]string, len(comp))
		inComp := map[*ssa.Function]bool{}
		for i, f := range comp {
			names[i] = fnKey(f)
			inComp[f] = true
		}
		// entries: members called from outside the component
		var entries []string
		for _, f := range nodes {
			if inComp[f] {
				continue
			}
			for _, s := range adj[f] {
				if inComp[s] {
					entries = append(entries, fnKey(s))
				}
			}
		}
		entries = dedupStrings(entries)
		desc := fmt.Sprintf("cycle of %d function(s) starting at %s; members: %s; entered at: %s", len(comp), names[0], shortList(names, 14), shortList(entries, 8))
		if why, ok := recursionTable[key]; ok {
			usedT[key] = true
			r.ok("table: " + desc + " — " + why)
			continue
		}
		// shortest cycle through comp[0] for the report
		path := shortestCycle(p, comp[0], adj, inComp)
		r.fail(key, p.Pos(comp[0].Pos()), "unguarded recursion: "+desc, path...)
	}
	for k := range recursionTable {
		if !usedT[k] {
			r.note("table entry unused (cycle gone): %s", k)
		}
	}
	r.Tables = append(r.Tables, fmt.Sprintf("recursionTable (%d entries)", len(recursionTable)))
	return r
}

func dedupStrings(xs []string) []string {
	sort.Strings(xs)
	var out []string
	for i, x := range xs {
		if i == 0 || x != xs[i-1] {
			out = append(out, x)
		}
	}
	return out
}

func shortestCycle(p *Program, start *ssa.Function, adj map[*ssa.Function][]*ssa.Function, in map[*ssa.Function]bool) []string {
	prev := map[*ssa.Function]*ssa.Function{}
	queue := []*ssa.Function{start}
	seen := map[*ssa.Function]bool{start: true}
	var last *ssa.Function
	for len(queue) > 0 && last == nil {
		f := queue[0]
		queue = queue[1:]
		for _, s := range adj[f] {
			if !in[s] {
				continue
			}
			if s == start {
				last = f
				break
			}
			if !seen[s] {
				seen[s] = true
				prev[s] = f
				queue = append(queue, s)
			}
		}
	}
	if last == nil {
		return nil
	}
	var chain []string
	for f := last; f != nil; f = prev[f] {
		chain = append(chain, fnKey(f))
		if f == start {
			break
		}
	}
	// reverse
	for i, j := 0, len(chain)-1; i < j; i, j = i+1, j-1 {
		chain[i], chain[j] = chain[j], chain[i]
	}
	chain = append(chain, fnKey(start))
	return []string{strings.Join(chain, " -> ")}
}

var _ = callgraph.Edge{}

// sccRepresentative: the smallest member (by key) of the package that holds
// most of the component, so that the name is stable when a few helpers from
// other packages join or leave.
func sccRepresentative(comp []*ssa.Function) *ssa.Function {
	cnt := map[string]int{}
	for _, f := range comp {
		cnt[funcPkgPath(f)]++
	}
	best := ""
	for pk, n := range cnt {
		if best == "" || n > cnt[best] || (n == cnt[best] && pk < best) {
			best = pk
		}
	}
	for _, f := range comp { // comp is sorted
		if funcPkgPath(f) == best {
			return f
		}
	}
	return comp[0]
}
