package main

import (
	"fmt"
	"go/token"
	"go/types"

	"golang.org/x/tools/go/ssa"
)

func init() { registerRule("R-ENCBUF", false, ruleEncBuf) }

// ruleEncBuf: callers of the UTF-8 encoder give it room for the longest encoding.
func ruleEncBuf(c *Ctx) *RuleResult {
	r := newResult("R-ENCBUF", "luastrings.UTF8EncodeInt32 writes up to p[K] (K read from the constant indices in its body: the lax encoding of Lua 5.4 takes up to 6 bytes) without testing len(p); every caller therefore hands it a buffer with at least K+1 bytes per code point still to be encoded: a fixed array of at least that size, or a slice made with len(items) * C bytes, C >= K+1, advanced by the sizes the encoder returns. A smaller buffer is an index-out-of-range panic for code points above 0x1FFFFF")
	p := c.P
	enc := p.Func("luastrings", "UTF8EncodeInt32")
	if enc == nil || len(enc.Params) == 0 {
		r.broken("anchor unresolved: luastrings.UTF8EncodeInt32")
		return r
	}
	maxIdx := int64(-1)
	forEachInstr(enc, func(ins ssa.Instruction) {
		if ia, ok := ins.(*ssa.IndexAddr); ok && stripConv(ia.X) == ssa.Value(enc.Params[0]) {
			if k, ok := constInt(ia.Index); ok && k > maxIdx {
				maxIdx = k
			}
		}
	})
	if maxIdx < 3 {
		r.broken("UTF8EncodeInt32 no longer writes constant positions of its buffer (largest found: %d)", maxIdx)
		return r
	}
	need := maxIdx + 1
	r.count("bytes_needed_per_code_point", int(need))
	// room: can v be shown to have at least `need` bytes per pending code point?
	var room func(v ssa.Value, depth int, seen map[ssa.Value]bool) (bool, string)
	room = func(v ssa.Value, depth int, seen map[ssa.Value]bool) (bool, string) {
		if depth > 8 || seen[v] {
			return true, "" // loop-carried: judged by the other edges
		}
		seen[v] = true
		switch x := v.(type) {
		case *ssa.Slice:
			if al, ok := x.X.(*ssa.Alloc); ok {
				if at, ok := al.Type().(*types.Pointer).Elem().Underlying().(*types.Array); ok {
					if at.Len() >= need && x.Low == nil {
						return true, fmt.Sprintf("a [%d]byte array", at.Len())
					}
					return false, fmt.Sprintf("a [%d]byte array", at.Len())
				}
			}
			// buf[sz:] advancing by what was written
			return room(x.X, depth+1, seen)
		case *ssa.Phi:
			why := ""
			for _, e := range x.Edges {
				ok, w := room(e, depth+1, seen)
				if !ok {
					return false, w
				}
				if w != "" {
					why = w
				}
			}
			return true, why
		case *ssa.MakeSlice:
			ln := stripConv(x.Len)
			if b, ok := ln.(*ssa.BinOp); ok && b.Op == token.MUL {
				for _, pr := range [][2]ssa.Value{{b.X, b.Y}, {b.Y, b.X}} {
					if k, ok := constInt(pr[1]); ok {
						if k >= need {
							return true, fmt.Sprintf("make([]byte, n*%d)", k)
						}
						return false, fmt.Sprintf("make([]byte, n*%d)", k)
					}
				}
			}
			// the length may be a named value: look one step back
			if u, ok := ln.(*ssa.UnOp); ok {
				_ = u
			}
			return false, "a slice whose length is not items * constant"
		}
		return false, "a buffer this rule cannot size"
	}
	n := 0
	for _, f := range p.ModFuncs() {
		forEachInstr(f, func(ins ssa.Instruction) {
			call, ok := ins.(*ssa.Call)
			if !ok || call.Call.StaticCallee() != enc {
				return
			}
			n++
			ok2, why := room(call.Call.Args[0], 0, map[ssa.Value]bool{})
			if ok2 {
				r.ok(fmt.Sprintf("%s encodes into %s (needs %d bytes per code point)", fnKey(f), why, need))
			} else {
				r.fail("encoder-buffer-too-small:"+fnKey(f), p.InstrPos(ins), fmt.Sprintf("%s hands luastrings.UTF8EncodeInt32 %s; the encoder writes up to %d bytes per code point without checking: a code point above 0x1FFFFF is a Go index-out-of-range panic", fnKey(f), why, need))
			}
		})
	}
	r.count("encoder_call_sites", n)
	r.floor("encoder_call_sites", 2)
	return r
}
