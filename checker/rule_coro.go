package main

import (
	"fmt"
	"go/constant"
	"go/token"
	"sort"
	"strings"

	"golang.org/x/tools/go/callgraph"
	"golang.org/x/tools/go/ssa"
)

func init() {
	registerRule("R-HANDOFF", true, ruleHandoff)
	registerRule("R-LOCKSET", true, ruleLockset)
	registerRule("R-GO", true, ruleGo)
}

// ---------------------------------------------------------------------------
// R-HANDOFF

func ruleHandoff(c *Ctx) *RuleResult {
	r := newResult("R-HANDOFF", "after a thread hands control to another goroutine (sendResumeValues), nothing it still executes touches shared state: on every path after the send, and in every deferred call of the function, the only calls are getResumeValues (blocking on its own channel) and mutex Unlock; no store to Thread/Runtime fields follows the send. The other goroutine runs from that instant, so anything else is a data race on the runtime (e.g. the memory counter)")
	p := c.P
	send := p.Func("runtime", "(*Thread).sendResumeValues")
	get := p.Func("runtime", "(*Thread).getResumeValues")
	if send == nil || get == nil {
		r.broken("anchor unresolved: Thread.sendResumeValues/getResumeValues")
		return r
	}
	allowed := func(cal *ssa.Function) bool {
		if cal == nil {
			return false
		}
		if cal == get {
			return true
		}
		n := fullName(cal)
		return n == "(*sync.Mutex).Unlock" || n == "(*sync.RWMutex).Unlock" || n == "errors.New" || n == "fmt.Errorf"
	}
	senders := 0
	for _, f := range p.ModFuncs() {
		if f.Blocks == nil || f == send {
			continue
		}
		var sends []ssa.CallInstruction
		forEachInstr(f, func(ins ssa.Instruction) {
			if call, ok := ins.(ssa.CallInstruction); ok && call.Common().StaticCallee() == send {
				if _, isDefer := ins.(*ssa.Defer); !isDefer {
					sends = append(sends, call)
				}
			}
		})
		if len(sends) == 0 {
			continue
		}
		senders++
		bad := []string{}
		for _, s := range sends {
			// instructions after the send: rest of the block and all reachable blocks
			var after []ssa.Instruction
			blk := s.Block()
			idx := instrIndex(s)
			after = append(after, blk.Instrs[idx+1:]...)
			seen := map[*ssa.BasicBlock]bool{}
			stack := append([]*ssa.BasicBlock(nil), blk.Succs...)
			for len(stack) > 0 {
				b := stack[len(stack)-1]
				stack = stack[:len(stack)-1]
				if seen[b] {
					continue
				}
				seen[b] = true
				after = append(after, b.Instrs...)
				stack = append(stack, b.Succs...)
			}
			for _, ins := range after {
				switch x := ins.(type) {
				case *ssa.Defer:
					// handled below (all defers of the function run after the send)
				case ssa.CallInstruction:
					cal := x.Common().StaticCallee()
					if _, isB := x.Common().Value.(*ssa.Builtin); isB {
						continue
					}
					if !allowed(cal) {
						name := "a dynamic call"
						if cal != nil {
							name = calleeName(p, cal)
						}
						bad = append(bad, fmt.Sprintf("%s is called after the hand-off at %s", name, p.InstrPos(ins)))
					}
				case *ssa.Store:
					if fa, ok := x.Addr.(*ssa.FieldAddr); ok {
						rel, tn, fn := fieldOfAddr(fa)
						if rel == "runtime" && (tn == "Thread" || tn == "Runtime" || tn == "runtimeContextManager") {
							bad = append(bad, fmt.Sprintf("%s.%s is written after the hand-off at %s", tn, fn, p.InstrPos(ins)))
						}
					}
				}
			}
		}
		// deferred calls run at function exit, i.e. after the send
		forEachInstr(f, func(ins ssa.Instruction) {
			d, ok := ins.(*ssa.Defer)
			if !ok {
				return
			}
			cal := d.Call.StaticCallee()
			if mc, isC := d.Call.Value.(*ssa.MakeClosure); isC {
				// closure: all its calls must be allowed
				forEachInstr(mc.Fn.(*ssa.Function), func(ci ssa.Instruction) {
					if cc, ok := ci.(ssa.CallInstruction); ok {
						if _, isB := cc.Common().Value.(*ssa.Builtin); isB {
							return
						}
						if !allowed(cc.Common().StaticCallee()) {
							bad = append(bad, fmt.Sprintf("a deferred closure calls %s (runs after the hand-off) at %s", calleeName(p, cc.Common().StaticCallee()), p.InstrPos(ci)))
						}
					}
				})
				return
			}
			if !allowed(cal) {
				bad = append(bad, fmt.Sprintf("deferred %s runs after the hand-off (%s)", calleeName(p, cal), p.InstrPos(ins)))
			}
		})
		if len(bad) == 0 {
			r.ok(fmt.Sprintf("%s: %d hand-off(s); afterwards only getResumeValues / Unlock", fnKey(f), len(sends)))
		} else {
			sort.Strings(bad)
			r.fail("touches-state-after-handoff:"+fnKey(f), p.Pos(f.Pos()), fmt.Sprintf("%s keeps working after it handed control to another goroutine: %s", fnKey(f), strings.Join(bad, "; ")))
		}
	}
	r.count("functions_that_hand_off", senders)
	r.floor("functions_that_hand_off", 4)
	return r
}

// ---------------------------------------------------------------------------
// R-LOCKSET

// muxBaseOf: for a call (*sync.Mutex).Lock/Unlock(&X.<field>) returns X and the field name.
func muxBaseOf(call ssa.CallInstruction) (ssa.Value, string, string) {
	cal := call.Common().StaticCallee()
	if cal == nil {
		return nil, "", ""
	}
	n := fullName(cal)
	op := ""
	switch n {
	case "(*sync.Mutex).Lock":
		op = "lock"
	case "(*sync.Mutex).Unlock":
		op = "unlock"
	default:
		return nil, "", ""
	}
	fa, ok := call.Common().Args[0].(*ssa.FieldAddr)
	if !ok {
		return nil, "", ""
	}
	_, tn, fn := fieldOfAddr(fa)
	return fa.X, tn + "." + fn, op
}

type lockset map[ssa.Value]bool

func (l lockset) clone() lockset {
	c := lockset{}
	for k := range l {
		c[k] = true
	}
	return c
}

// locksets computes, for each block, the set of mutex bases held at its entry
// (must-analysis: intersection at joins). Deferred unlocks keep the lock held
// until the function exits.
func locksets(f *ssa.Function, muxField string) map[*ssa.BasicBlock]lockset {
	in := map[*ssa.BasicBlock]lockset{}
	if len(f.Blocks) == 0 {
		return in
	}
	in[f.Blocks[0]] = lockset{}
	transfer := func(b *ssa.BasicBlock, l lockset) lockset {
		l = l.clone()
		for _, ins := range b.Instrs {
			if _, isDefer := ins.(*ssa.Defer); isDefer {
				continue
			}
			if call, ok := ins.(ssa.CallInstruction); ok {
				base, fld, op := muxBaseOf(call)
				if base == nil || fld != muxField {
					continue
				}
				if op == "lock" {
					l[base] = true
				} else {
					delete(l, base)
				}
			}
		}
		return l
	}
	changed := true
	for iter := 0; changed && iter < 50; iter++ {
		changed = false
		for _, b := range f.Blocks {
			cur, ok := in[b]
			if !ok {
				continue
			}
			out := transfer(b, cur)
			for _, s := range b.Succs {
				old, seen := in[s]
				if !seen {
					in[s] = out.clone()
					changed = true
					continue
				}
				// intersection
				nl := lockset{}
				for k := range old {
					if out[k] {
						nl[k] = true
					}
				}
				if len(nl) != len(old) {
					in[s] = nl
					changed = true
				}
			}
		}
	}
	return in
}

// heldAt: lockset just before instruction ins.
func heldAt(f *ssa.Function, in map[*ssa.BasicBlock]lockset, ins ssa.Instruction, muxField string) lockset {
	l := in[ins.Block()].clone()
	for _, x := range ins.Block().Instrs {
		if x == ins {
			break
		}
		if _, isDefer := x.(*ssa.Defer); isDefer {
			continue
		}
		if call, ok := x.(ssa.CallInstruction); ok {
			base, fld, op := muxBaseOf(call)
			if base == nil || fld != muxField {
				continue
			}
			if op == "lock" {
				l[base] = true
			} else {
				delete(l, base)
			}
		}
	}
	return l
}

func ruleLockset(c *Ctx) *RuleResult {
	r := newResult("R-LOCKSET", "coroutine and finaliser-pool state is touched only under its lock: (a) Thread.status, Thread.caller and Thread.closeErr are written only while that thread's mux is held (constructors exempt), and each status constant is written only by the functions that own that transition; (b) when two thread mutexes are taken, the receiver's is taken first, then its caller's; (c) while a Thread.mux is held no call can reach (*Thread).RunContinuation (Lua code run under the lock can call coroutine.resume/close/yield, which take the same non-reentrant mutexes); (d) ClonePool.{cloneRegister,pendingFinalize,pendingRelease,lastMarkOrder} are read and written only with p.mx held; (e) a Lua-callable function passes its own thread, not a captured one, as the caller of Resume/Close")
	p := c.P
	runc := p.Func("runtime", "(*Thread).RunContinuation")
	if runc == nil {
		r.broken("anchor unresolved: runtime.(*Thread).RunContinuation")
		return r
	}
	// functions that can reach RunContinuation (uncut), computed once backwards
	reachesLua := map[*ssa.Function]bool{runc: true}
	{
		g := p.CallGraph()
		work := []*ssa.Function{runc}
		for len(work) > 0 {
			f := work[len(work)-1]
			work = work[:len(work)-1]
			n := g.Nodes[f]
			if n == nil {
				continue
			}
			for _, e := range n.In {
				cf := e.Caller.Func
				if !reachesLua[cf] && p.InModule(cf) {
					reachesLua[cf] = true
					work = append(work, cf)
				}
			}
		}
	}
	stores := 0
	statusWriters := map[string]map[string]bool{}
	for _, f := range p.ModFuncs() {
		if f.Blocks == nil || relPkg(funcPkgPath(f)) != "runtime" {
			continue
		}
		var in map[*ssa.BasicBlock]lockset
		getIn := func() map[*ssa.BasicBlock]lockset {
			if in == nil {
				in = locksets(f, "Thread.mux")
			}
			return in
		}
		forEachInstr(f, func(ins ssa.Instruction) {
			switch x := ins.(type) {
			case *ssa.Store:
				fa, ok := x.Addr.(*ssa.FieldAddr)
				if !ok {
					return
				}
				rel, tn, fn := fieldOfAddr(fa)
				if rel != "runtime" || tn != "Thread" || (fn != "status" && fn != "caller" && fn != "closeErr") {
					return
				}
				stores++
				fresh := false
				if _, ok := fa.X.(*ssa.Alloc); ok {
					fresh = true
				}
				if call, ok := fa.X.(*ssa.Call); ok {
					if cal := call.Call.StaticCallee(); cal != nil && cal.Name() == "NewThread" {
						fresh = true // not yet shared with any other goroutine
					}
				}
				if fresh {
					if fn == "status" {
						if k, ok := x.Val.(*ssa.Const); ok && k.Value != nil && k.Value.Kind() == constant.Int {
							v, _ := constant.Int64Val(k.Value)
							name := fmt.Sprintf("status=%d", v)
							if statusWriters[name] == nil {
								statusWriters[name] = map[string]bool{}
							}
							statusWriters[name][fnKey(f)] = true
						}
					}
					r.ok("Thread." + fn + " initialised on a fresh thread in " + fnKey(f))
					return
				}
				if fn == "status" {
					if k, ok := x.Val.(*ssa.Const); ok && k.Value != nil && k.Value.Kind() == constant.Int {
						v, _ := constant.Int64Val(k.Value)
						name := fmt.Sprintf("status=%d", v)
						if statusWriters[name] == nil {
							statusWriters[name] = map[string]bool{}
						}
						statusWriters[name][fnKey(f)] = true
					}
				}
				held := heldAt(f, getIn(), ins, "Thread.mux")
				if held[fa.X] {
					r.ok(fmt.Sprintf("Thread.%s written in %s with the thread's mux held", fn, fnKey(f)))
				} else {
					r.fail("unlocked-write:Thread."+fn+":"+fnKey(f), p.InstrPos(ins), fmt.Sprintf("%s writes Thread.%s without holding that thread's mux: the resumer and the coroutine run on different goroutines", fnKey(f), fn))
				}
			case ssa.CallInstruction:
				if _, isDefer := ins.(*ssa.Defer); isDefer {
					return
				}
				base, fld, op := muxBaseOf(x)
				if base != nil && fld == "Thread.mux" && op == "lock" {
					held := heldAt(f, getIn(), ins, "Thread.mux")
					if len(held) > 0 {
						// (b) order: the one already held must be the receiver
						okOrder := false
						for h := range held {
							if len(f.Params) > 0 && h == f.Params[0] && base != f.Params[0] {
								okOrder = true
							}
						}
						if okOrder {
							r.ok("lock order receiver-then-caller in " + fnKey(f))
						} else {
							r.fail("lock-order:"+fnKey(f), p.InstrPos(ins), fnKey(f)+" takes a second Thread.mux while holding one that is not its receiver's: the order 'receiver, then its caller' is what keeps Resume/Yield/Close/end from deadlocking each other")
						}
					}
					return
				}
				// (c) calls under a held Thread.mux must not reach RunContinuation
				cal := x.Common().StaticCallee()
				var targets []*ssa.Function
				if cal != nil {
					targets = []*ssa.Function{cal}
				} else if _, isB := x.Common().Value.(*ssa.Builtin); !isB {
					targets = p.CalleesAt(x)
				}
				anyLua := false
				for _, t := range targets {
					if reachesLua[t] {
						anyLua = true
					}
				}
				if !anyLua {
					return
				}
				held := heldAt(f, getIn(), ins, "Thread.mux")
				if len(held) > 0 {
					name := "a dynamic call"
					if cal != nil {
						name = fnKey(cal)
					}
					r.fail("lua-under-thread-mux:"+fnKey(f)+"->"+name, p.InstrPos(ins), fmt.Sprintf("%s calls %s, which can run Lua code, while holding a Thread.mux: a __close handler or hook that resumes, yields or closes a coroutine needs that same non-reentrant mutex and deadlocks", fnKey(f), name))
				}
			}
		})
	}
	r.count("writes_to_Thread_status_caller_closeErr", stores)
	r.floor("writes_to_Thread_status_caller_closeErr", 8)
	// status writers table
	for name, fs := range statusWriters {
		allowed := threadStatusWriters[name]
		for fn := range fs {
			if allowed[fn] {
				r.ok(name + " written by " + fn)
			} else {
				r.fail("status-writer:"+name+":"+fn, "runtime/thread.go", fmt.Sprintf("%s now writes Thread.%s; that transition is owned by %v: a new writer changes which status a coroutine can be in (e.g. dead without its goroutine having ended)", fn, name, keysOf(allowed)))
			}
		}
	}

	// (d) ClonePool fields under p.mx
	poolFields := map[string]bool{"cloneRegister": true, "pendingFinalize": true, "pendingRelease": true, "lastMarkOrder": true}
	acc := 0
	for _, f := range p.ModFuncs() {
		if f.Blocks == nil || relPkg(funcPkgPath(f)) != "runtime/internal/luagc" {
			continue
		}
		var in map[*ssa.BasicBlock]lockset
		forEachInstr(f, func(ins ssa.Instruction) {
			fa, ok := ins.(*ssa.FieldAddr)
			if !ok {
				return
			}
			_, tn, fn := fieldOfAddr(fa)
			if tn != "ClonePool" || !poolFields[fn] {
				return
			}
			if _, fresh := fa.X.(*ssa.Alloc); fresh {
				return
			}
			acc++
			if in == nil {
				in = locksets(f, "ClonePool.mx")
			}
			// the access is the first use of the address
			var use ssa.Instruction = fa
			if refs := fa.Referrers(); refs != nil && len(*refs) > 0 {
				use = (*refs)[0]
			}
			held := heldAt(f, in, use, "ClonePool.mx")
			if held[fa.X] {
				r.ok("")
			} else {
				r.fail("pool-field-unlocked:"+fn+":"+fnKey(f), p.InstrPos(fa), fmt.Sprintf("%s accesses ClonePool.%s without holding p.mx; the Go finaliser that moves clones between these lists runs on another goroutine", fnKey(f), fn))
			}
		})
	}
	r.count("ClonePool_field_accesses", acc)
	if p.Config.Tags != "safepool" {
		// both pool implementations are compiled in every configuration; only the default differs
	}
	r.floor("ClonePool_field_accesses", 10)

	// (e) caller argument of Resume/Close in Lua-callable code
	resume := p.Func("runtime", "(*Thread).Resume")
	closef := p.Func("runtime", "(*Thread).Close")
	if resume == nil || closef == nil {
		r.broken("anchor unresolved: Thread.Resume/Close")
		return r
	}
	nres := 0
	for _, f := range p.ModFuncs() {
		if f.Blocks == nil || !strings.HasPrefix(relPkg(funcPkgPath(f)), "lib/") {
			continue
		}
		forEachInstr(f, func(ins ssa.Instruction) {
			call, ok := ins.(ssa.CallInstruction)
			if !ok {
				return
			}
			cal := call.Common().StaticCallee()
			if cal != resume && cal != closef {
				return
			}
			nres++
			callerArg := call.Common().Args[1]
			if prm, ok := callerArg.(*ssa.Parameter); ok && paramIndex(f, prm) >= 0 {
				r.ok(fmt.Sprintf("%s passes its own thread parameter as the caller of %s", fnKey(f), cal.Name()))
				return
			}
			r.fail("foreign-caller-thread:"+fnKey(f)+"->"+cal.Name(), p.InstrPos(ins), fmt.Sprintf("%s calls %s with a caller thread that is not its own *Thread parameter (a captured or stored thread): values and control go to the wrong coroutine when the function is invoked from another thread", fnKey(f), cal.Name()))
		})
	}
	r.count("Resume_Close_calls_in_lib", nres)
	r.floor("Resume_Close_calls_in_lib", 3)
	// (f) typestate: each status transition has its precondition. The store of the new
	// status is reached only through a test that the same thread's status is the
	// required old one (Resume/Close: suspended -> running; Yield: running -> suspended;
	// end: running -> dead).
	stC := constsOfType(p, "runtime", "ThreadStatus")
	type trans struct {
		fn       string
		pre, new string
	}
	for _, tr := range []trans{
		{"(*Thread).Resume", "ThreadSuspended", "ThreadOK"},
		{"(*Thread).Close", "ThreadSuspended", "ThreadOK"},
		{"(*Thread).Yield", "ThreadOK", "ThreadSuspended"},
		{"(*Thread).end", "ThreadOK", "ThreadDead"},
	} {
		f := p.Func("runtime", tr.fn)
		if f == nil {
			r.broken("anchor unresolved: runtime.%s", tr.fn)
			continue
		}
		pre, ok1 := stC[tr.pre]
		nw, ok2 := stC[tr.new]
		if !ok1 || !ok2 {
			r.broken("anchor unresolved: runtime.%s / runtime.%s", tr.pre, tr.new)
			continue
		}
		recv := f.Params[0]
		isStatusOfRecv := func(v ssa.Value) bool {
			u, ok := stripConv(v).(*ssa.UnOp)
			if !ok || u.Op != token.MUL {
				return false
			}
			fa, ok := u.X.(*ssa.FieldAddr)
			if !ok || fa.X != ssa.Value(recv) {
				return false
			}
			_, _, fld := fieldOfAddr(fa)
			return fld == "status"
		}
		found := false
		gc := newGuardCtx(f)
		forEachInstr(f, func(ins ssa.Instruction) {
			st, ok := ins.(*ssa.Store)
			if !ok {
				return
			}
			fa, ok := st.Addr.(*ssa.FieldAddr)
			if !ok || fa.X != ssa.Value(recv) {
				return
			}
			if _, _, fld := fieldOfAddr(fa); fld != "status" {
				return
			}
			if k, isK := constInt(st.Val); !isK || k != nw {
				return
			}
			found = true
			okPre := false
			for _, ge := range gc.MustEdges(st.Block()) {
				rel, ok := ge.Relation()
				if !ok || rel.Op != token.EQL {
					continue
				}
				a, b := rel.A, rel.B
				if isStatusOfRecv(b) {
					a, b = b, a
				}
				if !isStatusOfRecv(a) {
					continue
				}
				if k, isK := constInt(b); isK && k == pre {
					okPre = true
				}
			}
			if okPre {
				r.ok(fmt.Sprintf("(f) %s switches its thread to %s only when it is %s", tr.fn, tr.new, tr.pre))
			} else {
				r.fail("status-transition-precondition:"+tr.fn, p.InstrPos(ins), fmt.Sprintf("runtime.%s sets the thread's status to %s on a path that has not established that it was %s: a coroutine in another state (e.g. one that is itself waiting on a coroutine it resumed, whose status is also ThreadOK) can be switched, which overwrites its caller and breaks 'control always comes back to the resumer'", tr.fn, tr.new, tr.pre))
			}
		})
		if !found {
			r.broken("runtime.%s no longer stores %s into its thread's status (anchor moved?)", tr.fn, tr.new)
		}
	}
	return r
}

func keysOf(m map[string]bool) []string {
	var out []string
	for k := range m {
		out = append(out, k)
	}
	sort.Strings(out)
	return out
}

// ---------------------------------------------------------------------------
// R-GO

func ruleGo(c *Ctx) *RuleResult {
	r := newResult("R-GO", "the only go statement in the runtime and libraries is in (*Thread).Start, and the goroutine it starts defers a handler that calls t.end (which closes the resume channel and marks the thread dead) on every exit, including panics it recovers: the structural part of 'no goroutine is left behind and none runs Lua concurrently'")
	p := c.P
	start := p.Func("runtime", "(*Thread).Start")
	end := p.Func("runtime", "(*Thread).end")
	if start == nil || end == nil {
		r.broken("anchor unresolved: Thread.Start/end")
		return r
	}
	n := 0
	for _, f := range p.ModFuncs() {
		if f.Blocks == nil || !meterScope(relPkg(funcPkgPath(f))) {
			continue
		}
		forEachInstr(f, func(ins ssa.Instruction) {
			g, ok := ins.(*ssa.Go)
			if !ok {
				return
			}
			n++
			if f != start {
				r.fail("go-statement:"+fnKey(f), p.InstrPos(ins), fnKey(f)+" starts a goroutine: only Thread.Start may, because a second concurrently running goroutine would touch runtime state without the coroutine hand-off protocol")
				return
			}
			body, _ := g.Call.Value.(*ssa.MakeClosure)
			if body == nil {
				r.fail("go-body", p.InstrPos(ins), "Thread.Start's go statement does not run a closure")
				return
			}
			bf := body.Fn.(*ssa.Function)
			// first instruction(s): a defer whose handler calls t.end on every path
			var d *ssa.Defer
			forEachInstr(bf, func(bi ssa.Instruction) {
				if x, ok := bi.(*ssa.Defer); ok && d == nil {
					d = x
				}
			})
			if d == nil || d.Block() != bf.Blocks[0] {
				r.fail("go-no-defer", p.Pos(bf.Pos()), "the coroutine goroutine no longer installs its deferred end handler first thing")
				return
			}
			hmc, _ := d.Call.Value.(*ssa.MakeClosure)
			if hmc == nil {
				r.fail("go-defer-shape", p.Pos(bf.Pos()), "the deferred end handler is not a closure")
				return
			}
			h := hmc.Fn.(*ssa.Function)
			// t.end must be called on every non-panicking path of the handler
			var endCalls []ssa.Instruction
			forEachInstr(h, func(hi ssa.Instruction) {
				if call, ok := hi.(ssa.CallInstruction); ok && call.Common().StaticCallee() == end {
					endCalls = append(endCalls, hi)
				}
			})
			okAll := len(endCalls) > 0
			forEachInstr(h, func(hi ssa.Instruction) {
				if ret, ok := hi.(*ssa.Return); ok {
					dom := false
					for _, ec := range endCalls {
						if instrDominates(ec, ret) {
							dom = true
						}
					}
					if !dom {
						okAll = false
					}
				}
			})
			// the new goroutine waits before it does anything: its creator keeps running Lua
			// until the first resume, so every call of the goroutine's body (the deferred
			// handler's registration aside) comes after the first getResumeValues
			var wait ssa.Instruction
			forEachInstr(bf, func(bi ssa.Instruction) {
				if call, ok := bi.(*ssa.Call); ok && wait == nil && calleeNamed(call, "getResumeValues") {
					wait = bi
				}
			})
			if wait == nil {
				r.fail("go-no-wait", p.Pos(bf.Pos()), "the coroutine goroutine no longer waits for its first resume (getResumeValues)")
			} else {
				early := ""
				forEachInstr(bf, func(bi ssa.Instruction) {
					call, ok := bi.(*ssa.Call)
					if !ok || bi == wait {
						return
					}
					if _, isB := call.Call.Value.(*ssa.Builtin); isB {
						return
					}
					if !instrDominates(wait, bi) {
						early = p.InstrPos(bi)
					}
				})
				if early == "" {
					r.ok("the coroutine goroutine does nothing before its first resume")
				} else {
					r.fail("go-work-before-first-resume", early, "the coroutine goroutine calls into the runtime before it has been resumed for the first time: until then its creator is still running Lua on another goroutine, so whatever the call touches (continuation pools, the memory counter, the current continuation) is touched by two goroutines at once")
				}
			}
			if okAll {
				r.ok("the coroutine goroutine defers a handler that calls t.end on every return")
			} else {
				r.fail("go-end-not-on-every-exit", p.Pos(h.Pos()), "the deferred handler of the coroutine goroutine does not call t.end on every return: a finished or failed coroutine would leave its resumer blocked and its goroutine parked")
			}
		})
	}
	r.count("go_statements_in_runtime_and_lib", n)
	if n == 0 {
		r.broken("no go statement found in Thread.Start (anchor moved?)")
	}
	// t.end closes the channel and stores ThreadDead
	closes, dead := false, false
	forEachInstr(end, func(ins ssa.Instruction) {
		if call, ok := ins.(*ssa.Call); ok {
			if b, ok := call.Call.Value.(*ssa.Builtin); ok && b.Name() == "close" {
				closes = true
			}
		}
		if st, ok := ins.(*ssa.Store); ok {
			if fa, ok := st.Addr.(*ssa.FieldAddr); ok {
				if _, tn, fn := fieldOfAddr(fa); tn == "Thread" && fn == "status" {
					dead = true
				}
			}
		}
	})
	if closes && dead {
		r.ok("t.end closes the resume channel and stores the final status")
	} else {
		r.fail("end-shape", p.Pos(end.Pos()), "Thread.end no longer both closes the resume channel and stores the thread's final status")
	}
	return r
}

var _ = callgraph.Edge{}
var _ = token.ADD
