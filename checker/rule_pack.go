package main

import (
	"fmt"
	"go/token"
	"go/types"
	"sort"
	"strings"

	"golang.org/x/tools/go/ssa"
)

func init() {
	registerRule("R-PACK", false, rulePack)
}

// packOpt: what one sibling does for one format option.
type packOpt struct {
	present bool
	align   string // "", "0", "2", ..., "opt"
	size    string // "", "1", ..., "opt"
	wire    string // Go type put on / taken off the wire
	defSize string // default passed to smallOptSize
	helpers []string
	where   string
}

// optionCases: blocks entered when the byte returned by nextOption equals a constant.
func optionCases(f *ssa.Function) map[int64][]*ssa.BasicBlock {
	out := map[int64][]*ssa.BasicBlock{}
	isOpt := func(v ssa.Value) bool {
		call, ok := v.(*ssa.Call)
		if !ok {
			return false
		}
		cal := call.Call.StaticCallee()
		return cal != nil && cal.Name() == "nextOption"
	}
	forEachInstr(f, func(ins ssa.Instruction) {
		b, ok := ins.(*ssa.BinOp)
		if !ok || b.Op != token.EQL || !isOpt(b.X) {
			return
		}
		k, isK := constInt(b.Y)
		if !isK {
			return
		}
		for _, ref := range *b.Referrers() {
			if iff, ok := ref.(*ssa.If); ok {
				out[k] = append(out[k], iff.Block().Succs[0])
			}
		}
	})
	return out
}

func constOrOpt(v ssa.Value) string {
	if k, ok := constInt(v); ok {
		return fmt.Sprint(k)
	}
	// a load of the optSize field
	if u, ok := stripConv(v).(*ssa.UnOp); ok && u.Op == token.MUL {
		if fa, ok := u.X.(*ssa.FieldAddr); ok {
			if _, _, fld := fieldOfAddr(fa); fld == "optSize" {
				return "opt"
			}
			if _, _, fld := fieldOfAddr(fa); fld != "" {
				return "field:" + fld
			}
		}
	}
	return "?"
}

func describeOption(p *Program, f *ssa.Function, targets []*ssa.BasicBlock) packOpt {
	o := packOpt{present: true}
	seen := map[*ssa.BasicBlock]bool{}
	var calls []*ssa.Call
	for _, t := range targets {
		if o.where == "" && len(t.Instrs) > 0 {
			o.where = p.InstrPos(t.Instrs[0])
		}
		for _, d := range f.Blocks {
			if !t.Dominates(d) || seen[d] {
				continue
			}
			seen[d] = true
			for _, ins := range d.Instrs {
				if call, ok := ins.(*ssa.Call); ok {
					calls = append(calls, call)
				}
			}
		}
	}
	sort.Slice(calls, func(i, j int) bool { return calls[i].Pos() < calls[j].Pos() })
	hs := map[string]bool{}
	for _, call := range calls {
		cal := call.Call.StaticCallee()
		if cal == nil || !p.InModule(cal) {
			continue
		}
		args := call.Call.Args
		switch cal.Name() {
		case "align":
			if o.align == "" && len(args) == 2 {
				o.align = constOrOpt(args[1])
			}
		case "write", "read":
			if len(args) == 3 {
				if o.size == "" {
					o.size = constOrOpt(args[1])
				}
				v := args[2]
				if mi, ok := v.(*ssa.MakeInterface); ok {
					v = mi.X
				}
				t := v.Type()
				if cal.Name() == "read" {
					if pt, ok := t.(*types.Pointer); ok {
						t = pt.Elem()
					}
				}
				if o.wire == "" {
					o.wire = t.String()
				}
			}
		case "inc":
			if o.size == "" && len(args) == 2 {
				o.size = constOrOpt(args[1])
			}
		case "smallOptSize":
			if len(args) == 2 {
				o.defSize = constOrOpt(args[1])
			}
			hs[cal.Name()] = true
		default:
			hs[cal.Name()] = true
		}
	}
	for h := range hs {
		o.helpers = append(o.helpers, h)
	}
	sort.Strings(o.helpers)
	return o
}

func rulePack(c *Ctx) *RuleResult {
	r := newResult("R-PACK", "string.pack, string.unpack and string.packsize agree on the format language: (a) the option characters that have a case in PackValues, UnpackString and PackSize are the same set; (b) for each option, wherever two of them pass a constant to align(), write()/read()/inc() or a default to smallOptSize(), the constants are equal, and pack and unpack put the same Go type on the wire; (c) the three align() methods raise the same errors (a format that pack rejects is not silently accepted by unpack)")
	p := c.P
	type sib struct {
		name string
		f    *ssa.Function
		opts map[int64]packOpt
	}
	sibs := []*sib{{name: "PackValues"}, {name: "UnpackString"}, {name: "PackSize"}}
	for _, s := range sibs {
		s.f = p.Func("lib/stringlib", s.name)
		if s.f == nil {
			r.broken("anchor unresolved: lib/stringlib.%s", s.name)
			return r
		}
		s.opts = map[int64]packOpt{}
		for k, blks := range optionCases(s.f) {
			s.opts[k] = describeOption(p, s.f, blks)
		}
		r.count("options_in_"+s.name, len(s.opts))
		r.floor("options_in_"+s.name, 20)
	}
	all := map[int64]bool{}
	for _, s := range sibs {
		for k := range s.opts {
			all[k] = true
		}
	}
	var ks []int64
	for k := range all {
		ks = append(ks, k)
	}
	sort.Slice(ks, func(i, j int) bool { return ks[i] < ks[j] })
	for _, k := range ks {
		ch := fmt.Sprintf("%q", rune(k))
		// (a)
		var missing []string
		for _, s := range sibs {
			if !s.opts[k].present {
				missing = append(missing, s.name)
			}
		}
		if len(missing) > 0 {
			r.fail("option-missing:"+ch+":"+strings.Join(missing, "+"), "lib/stringlib", fmt.Sprintf("format option %s has a case in some of pack/unpack/packsize but not in %s: the same format string is accepted by one and rejected by the other", ch, strings.Join(missing, ", ")))
			continue
		}
		r.ok(fmt.Sprintf("(a) option %s is handled by all three", ch))
		// (b)
		cmp := func(what string, get func(packOpt) string, among []*sib) {
			ref, refName := "", ""
			for _, s := range among {
				v := get(s.opts[k])
				if v == "" || v == "?" {
					continue
				}
				if ref == "" {
					ref, refName = v, s.name
					continue
				}
				if v != ref {
					r.fail(fmt.Sprintf("option-disagreement:%s:%s:%s=%s:%s=%s", ch, what, refName, ref, s.name, v), s.opts[k].where, fmt.Sprintf("format option %s: %s uses %s %s, %s uses %s: what one writes the other does not read back (or packsize reports a different length)", ch, refName, what, ref, s.name, v))
					return
				}
			}
			if ref != "" {
				r.ok(fmt.Sprintf("(b) option %s: %s %s", ch, what, ref))
			}
		}
		cmp("alignment", func(o packOpt) string { return o.align }, sibs)
		cmp("size", func(o packOpt) string { return o.size }, sibs)
		cmp("default size", func(o packOpt) string { return o.defSize }, sibs)
		cmp("wire type", func(o packOpt) string { return o.wire }, sibs[:2])
	}
	// (c) the align siblings
	errsOf := func(f *ssa.Function) string {
		set := map[string]bool{}
		forEachInstr(f, func(ins ssa.Instruction) {
			st, ok := ins.(*ssa.Store)
			if !ok {
				return
			}
			fa, ok := st.Addr.(*ssa.FieldAddr)
			if !ok {
				return
			}
			if _, _, fld := fieldOfAddr(fa); fld != "err" {
				return
			}
			if g := globalOf(st.Val, 0); g != nil {
				set[g.Name()] = true
			}
		})
		var out []string
		for k := range set {
			out = append(out, k)
		}
		sort.Strings(out)
		return strings.Join(out, ",")
	}
	aligns := map[string]*ssa.Function{
		"packer":    p.Func("lib/stringlib", "(*packer).align"),
		"unpacker":  p.Func("lib/stringlib", "(*unpacker).align"),
		"packsizer": p.Func("lib/stringlib", "(*packsizer).align"),
	}
	// (d) the variable-width helpers keep the signedness of their option: everything
	// (*unpacker).readVarUint reads from the wire and (*packer).packUint writes is of an
	// unsigned integer type (the signed siblings are free to use either: sign extension
	// of wide fields goes through uint64)
	for _, hn := range [][2]string{{"(*unpacker).readVarUint", "read"}, {"(*packer).packUint", "write"}} {
		h := p.Func("lib/stringlib", hn[0])
		if h == nil {
			r.broken("anchor unresolved: lib/stringlib.%s", hn[0])
			continue
		}
		n, bad := 0, ""
		forEachInstr(h, func(ins ssa.Instruction) {
			call, ok := ins.(*ssa.Call)
			if !ok {
				return
			}
			cal := call.Call.StaticCallee()
			if cal == nil {
				return
			}
			var v ssa.Value
			switch {
			case p.InModule(cal) && cal.Name() == hn[1] && len(call.Call.Args) == 3:
				v = call.Call.Args[2]
			case fullName(cal) == "encoding/binary.Read" || fullName(cal) == "encoding/binary.Write":
				v = call.Call.Args[2]
			default:
				return
			}
			if mi, ok := v.(*ssa.MakeInterface); ok {
				v = mi.X
			}
			t := v.Type()
			if pt, ok := t.(*types.Pointer); ok {
				t = pt.Elem()
			}
			bt, ok := t.Underlying().(*types.Basic)
			if !ok || bt.Info()&types.IsInteger == 0 {
				return
			}
			n++
			if bt.Info()&types.IsUnsigned == 0 {
				bad = t.String() + " at " + p.InstrPos(ins)
			}
		})
		if n == 0 {
			r.broken("%s: no integer read/write found (anchor moved?)", hn[0])
		} else if bad == "" {
			r.ok(fmt.Sprintf("(d) %s only moves unsigned integers (%d sites)", hn[0], n))
		} else {
			r.fail("unsigned-helper-uses-signed-type:"+hn[0], bad[strings.Index(bad, " at ")+4:], fmt.Sprintf("lib/stringlib.%s moves a value of the signed type %s: the unsigned option it serves (I[n], s[n] length prefixes) is then sign-extended, so values with the top bit set do not round-trip", hn[0], bad[:strings.Index(bad, " at ")]))
		}
	}
	ref := ""
	for _, n := range []string{"packer", "packsizer", "unpacker"} {
		f := aligns[n]
		if f == nil {
			r.broken("anchor unresolved: lib/stringlib.(*%s).align", n)
			continue
		}
		e := errsOf(f)
		if n == "packer" {
			ref = e
			r.ok("(c) (*packer).align raises {" + e + "}")
			continue
		}
		if e == ref {
			r.ok("(c) (*" + n + ").align raises the same errors")
		} else {
			r.fail("align-error-checks:"+n, p.Pos(f.Pos()), fmt.Sprintf("(*%s).align raises {%s} while (*packer).align raises {%s}: a format asking for an alignment that is not a power of two is an error for pack but silently accepted here", n, e, ref))
		}
	}
	// (e) the option that follows 'X' only lends its alignment and is swallowed, whatever
	// that alignment is: align answers true ("go on and read/write the value") only after
	// it has looked at alignOnly and found it false
	for _, n := range []string{"packer", "packsizer", "unpacker"} {
		f := aligns[n]
		if f == nil {
			continue
		}
		gc := newGuardCtx(f)
		nTrue, bad := 0, ""
		forEachInstr(f, func(ins ssa.Instruction) {
			ret, ok := ins.(*ssa.Return)
			if !ok || len(ret.Results) != 1 {
				return
			}
			// the blocks this return's value can come from as the constant true
			var fromBlocks []*ssa.BasicBlock
			switch v := ret.Results[0].(type) {
			case *ssa.Const:
				if k, isK := constInt(v); isK && k != 0 {
					fromBlocks = []*ssa.BasicBlock{ret.Block()}
				}
			case *ssa.Phi:
				for i, e := range v.Edges {
					if k, isK := constInt(e); isK && k != 0 {
						fromBlocks = append(fromBlocks, v.Block().Preds[i])
					}
				}
			}
			for _, b := range fromBlocks {
				nTrue++
				seenFlag := false
				for _, ge := range gc.MustEdges(b) {
					if u, ok := ge.If.Cond.(*ssa.UnOp); ok && u.Op == token.MUL {
						if fa, ok := u.X.(*ssa.FieldAddr); ok {
							if _, _, fn := fieldOfAddr(fa); fn == "alignOnly" && !ge.Taken {
								seenFlag = true
							}
						}
					}
				}
				if !seenFlag {
					bad = p.InstrPos(ret)
				}
			}
		})
		switch {
		case nTrue == 0:
			r.note("(*%s).align has no constant-true return (shape changed): not decided", n)
		case bad == "":
			r.ok("(e) (*" + n + ").align says 'go on' only after finding alignOnly false")
		default:
			r.fail("align-skips-alignonly:"+n, bad, fmt.Sprintf("(*%s).align can answer true without having tested alignOnly: the option after 'X' (e.g. Xb, whose alignment is 0 or 1) is then treated as a real item by this interpreter of the format and as X's operand by its siblings, so pack, unpack and packsize disagree on the format", n))
		}
	}
	return r
}
