#!/bin/sh
# usage: run.sh <Cxx> <quick|thorough>
# Decides one property by static analysis of /repo's current working tree.
unset GOWORK
export GOFLAGS=-mod=mod GOPROXY=off GOSUMDB=off GOTOOLCHAIN=local
cd /verif || exit 2
need=0
[ -x /verif/bin/luaverif ] || need=1
if [ $need = 0 ] && [ -n "$(find /verif/checker -name '*.go' -newer /verif/bin/luaverif 2>/dev/null | head -1)" ]; then need=1; fi
if [ $need = 1 ]; then sh /verif/setup.sh >/dev/null || { echo "CHECK-BROKEN cannot build luaverif"; exit 2; }; fi
exec /verif/bin/luaverif check "$1" --tier "${2:-quick}"
