#!/bin/sh
# Builds /verif/bin/luaverif from /verif/checker, offline.
set -e
cd /verif/checker
unset GOWORK
export GOFLAGS=-mod=mod GOPROXY=off GOSUMDB=off GOTOOLCHAIN=local
mkdir -p /verif/bin /verif/evidence
go build -o /verif/bin/luaverif .
echo "built /verif/bin/luaverif"
